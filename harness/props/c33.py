"""C33 -- secure random functions stay in range and are uniform.

Lean: MpycV.Props.C33 (model MpycV.Model.Random: every function of mpyc/random.py as a function of an explicit
stream of secret bits, with the public rejection outcomes it opens).
Tie / oracle (real code in harness/simnet.py, m in {1,3}):
  A. controlled bits: `Runtime.random_bits` of the party runtimes is replaced by secure constants taken from an
     explicit stream (harness/randstat_oracle.py), everything else is the real code.  For `_randbelow(n)` and
     `random_unit_vector(n)` ALL bit streams are enumerated as a tree up to a depth of L bits (n <= 8 quick with
     m in {1,3}, n <= 16 with m = 1; thorough: deeper and m = 3 up to 16): every leaf (stream, value, opened
     transcript, bits consumed) is compared with the Lean driver, and the oracle checks range/shape and EXACT
     uniformity: for every public transcript each outcome 0..n-1 occurs for exactly one stream.
  B. seeded streams: all public functions (randrange, randint, choice, choices, shuffle, random_permutation,
     random_derangement, sample, getrandbits, random, uniform) -- value, transcript and number of bits consumed
     vs the Lean driver on the bits the real code consumed; oracle: documented range and shape.  Products of
     enumerated leaves give exact distributions for shuffle (n <= 4) and weighted choices.
  C. the real `random_bits` (m = 3, PRSS on/off, secint / secfxp / prime and binary secfld): bits in {0,1}
     (signed: {-1,1}), range and shape of every function, chi-square balance tests at significance 1e-9.
"""
import collections
import fractions
import itertools
import math
import os
import sys

sys.path.insert(0, os.path.dirname(os.path.dirname(os.path.abspath(__file__))))
import repo_path  # noqa: F401,E402
import common  # noqa: E402
import simnet  # noqa: E402
from simnet import SimNet  # noqa: E402
import randstat_oracle as ro  # noqa: E402
from randstat_oracle import SRC, TAG, bits_str, ints_str  # noqa: E402
import mpyc.random as mr  # noqa: E402

LEVEL = 'other'   # range/shape clauses proved for all inputs; uniformity proved by enumeration for n <= 16 only
LEAN_MODULES = ['MpycV.Props.C33']
LEAN_NAMESPACES = ['MpycV.C33']
REQUIRED_THEOREMS = ['getrandbits_lt', 'randbelow_lt', 'randrange_mem', 'randrange_mem_neg', 'randint_mem',
                     'unit_vector_shape', 'shuffle_perm', 'random_permutation_perm', 'derangement_no_fixed_point',
                     'sample_distinct_positions', 'sample_range_distinct', 'choice_mem', 'choices_mem',
                     'weighted_pick_mem', 'random_lt_one', 'uniform_between', 'randbelow_uniform_le16',
                     'randbelow_enum_sound', 'unit_vector_uniform_le16', 'ruvPos_spec', 'random_bit_sqrt',
                     'random_bit_sqrt_flip', 'random_bit_prod']
RULE = ('A: every node of the rejection tree of _randbelow(n) / random_unit_vector(n) up to L stream bits, n = 1..16; '
        'a case is distinct by (function, n, m, bit stream); non-trivial = at least one restart or n not a power of 2. '
        'B: seeded bit streams, arguments stratified over ranges with positive/negative steps, population sizes 1..9, '
        'k = 0..n, weights with zeros and common factors; distinct by (function, arguments, stream). '
        'C: unpatched random_bits, m = 3, PRSS on/off, fixed seeds from VERIF_SEED')
EXPLANATION = ('PROVED for every n / range / population and EVERY bit stream (general proofs): getrandbits < 2^k, _randbelow < n, '
               'randrange/randint in range and on the step grid (+ ValueError branches), random_unit_vector is a unit vector of '
               'length n, shuffle/random_permutation are rearrangements, random_derangement has no fixed point, sample takes k '
               'distinct positions / k distinct range elements, choice/choices return population members (weighted: cumulative '
               'weights respected), random in [0,1), uniform between its bounds; random_bits constructions give 0/1 (+-1) and '
               'r -> -r flips the bit.  PROVED by kernel-checked enumeration of ALL bit streams of length 2*bit_length(n-1) '
               '(unit vector: the same for n <= 8, bit_length(n-1)+2 for n <= 16) for every n <= 16: per public transcript every '
               'outcome of _randbelow / position of random_unit_vector is produced by equally many streams, no run exhausts the '
               'loop fuel.  VALIDATED ONLY (harness, real code with enumerated bits): uniformity beyond that depth / for n > 16, '
               'exact uniformity of shuffle (n <= 4) and weighted choices, balance with the real random_bits (chi-square 1e-9)')
ASSUMPTIONS = ['runtime.random_bits returns independent uniform secret bits (its value layer is covered by random_bit_sqrt / '
               'random_bit_prod; uniformity of the underlying PRSS/secrets randomness is an assumption)',
               'from_bits, in_prod, scalar_mul, vector_add/sub, prod, is_zero_public and "<" compute their exact values '
               '(C01/C30); the correspondence runs the real protocols with m = 3',
               'a secure constant sectype(b) is a valid sharing of b (used to inject the controlled bits)']
TRUSTED = ['harness/randstat_oracle.py (bit source, tagging of calls, logging of opened values)']

FIX_F = 8          # secfxp fractional bits used in the checks


def _types(mpc):
    return mpc.SecInt(24), mpc.SecFxp(24, FIX_F)


async def _open(mpc, r):
    """open a result that may be a plain int, a secure object or a (nested) list of those"""
    if isinstance(r, (int, float)):
        return r
    if isinstance(r, list):
        if not r:
            return []
        sec = [a for a in r if not isinstance(a, (int, float))]
        vals = iter(await mpc.output(sec)) if sec else iter(())
        return [a if isinstance(a, (int, float)) else next(vals) for a in r]
    return await mpc.output(r)


# ---------------------------------------------------------------------------------------------
# A. exhaustive enumeration of the rejection trees
# ---------------------------------------------------------------------------------------------
def _run_jobs(m, jobs, seed=0, no_prss=False):
    """jobs: list of (fn, n, prefix bits).  One SimNet run; returns per job
    dict(value, transcript, consumed, short) as seen by party 0 (all parties must agree)."""
    SRC.reset()
    net = SimNet(m, seed=seed, no_prss=no_prss)
    ro.install(net)

    async def prog(mpc):
        secint, _ = _types(mpc)
        outs = []
        for idx, (fn, n, prefix) in enumerate(jobs):
            root = ('A', idx)
            SRC.streams[root + (0,)] = list(prefix)
            tok = TAG.set(root)
            r = mr._randbelow(secint, n) if fn == 'randbelow' else mr.random_unit_vector(secint, n)
            TAG.reset(tok)
            outs.append(r)
        res = []
        for r in outs:
            v = await _open(mpc, r)
            res.append([int(a) for a in v] if isinstance(v, list) else int(v))
        return res

    try:
        results = net.run(prog)
    except (simnet.PartyError, simnet.Deadlock) as exc:
        if len(jobs) == 1:
            return [{'value': f'CRASH {type(exc).__name__}: {str(exc)[:160]}', 'consumed': 0, 'short': None,
                     'transcript': [], 'agree': True}]
        out = []
        for job in jobs:                    # find the failing job(s); stop after the first crash
            r = _run_jobs(m, [job], seed, no_prss)[0]
            out.append(r)
            if isinstance(r['value'], str):
                out += [{'value': 'SKIPPED', 'consumed': 0, 'short': None, 'transcript': [], 'agree': True}] * \
                    (len(jobs) - len(out))
                break
        return out
    out = []
    for idx, (fn, n, prefix) in enumerate(jobs):
        root = ('A', idx)
        ch = root + (0,)
        vals = [results[i][idx] for i in range(m)]
        cons = [SRC.cur.get((i, ch), 0) for i in range(m)]
        trs = [SRC.transcript(i, root) for i in range(m)]
        out.append({'value': vals[0], 'consumed': cons[0], 'short': SRC.short.get((0, ch)),
                    'transcript': trs[0],
                    'agree': all(v == vals[0] for v in vals) and all(c == cons[0] for c in cons)
                    and all(t == trs[0] for t in trs)})
    return out


def enum_tree(fn, n, m, depth, seed=0):
    """All nodes of the tree of bit streams for fn(n): returns (leaves, open_prefixes) where a leaf is
    (stream, value, transcript) with the stream consumed exactly, and open_prefixes are the streams of length
    <= depth after which the real code asks for bits beyond `depth`."""
    leaves, cut = [], []
    level = [()]
    while level:
        res = _run_jobs(m, [(fn, n, p) for p in level], seed)
        nxt = []
        for p, r in zip(level, res):
            if not r['agree']:
                leaves.append((p, 'PARTIES-DISAGREE', r['transcript']))
                continue
            if isinstance(r['value'], str):
                if r['value'] != 'SKIPPED':
                    leaves.append((p, r['value'], r['transcript']))
                    return leaves, cut
                continue
            if r['short'] is None:
                if r['consumed'] != len(p):
                    leaves.append((p, 'UNUSED-BITS', r['transcript']))
                else:
                    leaves.append((p, r['value'], r['transcript']))
            else:
                need = r['short']
                if len(p) + need > depth:
                    cut.append(p)
                else:
                    nxt.extend(p + ext for ext in itertools.product((0, 1), repeat=need))
        level = nxt
    return leaves, cut


def check_tree(ctx, fn, n, m, leaves, cut, depth):
    """Oracle for one enumerated tree: shape/range of every leaf and exact uniformity."""
    by_tr = collections.defaultdict(list)
    mass = collections.Counter()
    for stream, val, tr in leaves:
        rep = {'kind': 'enum', 'function': fn, 'n': n, 'm': m, 'stream': bits_str(stream), 'observed': val}
        if isinstance(val, str):
            ctx.violation(f'{fn}({n}) with controlled bits {bits_str(stream)}: {val}', rep)
            return False
        if fn == 'randbelow':
            ok = isinstance(val, int) and 0 <= val < n
            pos = val
        else:
            ok = len(val) == n and sorted(val) == [0] * (n - 1) + [1]
            pos = val.index(1) if ok else None
        if not ok:
            rep['expected'] = f'value in range({n})' if fn == 'randbelow' else f'unit vector of length {n}'
            ctx.violation(f'{fn}({n}) out of range/shape for bits {bits_str(stream)}: {val}', rep)
            return False
        by_tr[tuple(tr)].append((pos, stream))
        mass[pos] += fractions.Fraction(1, 2 ** len(stream))
    # exact uniformity: equal probability mass of every outcome among the runs that end within `depth` bits ...
    if len(set(mass[v] for v in range(n))) != 1:
        ctx.violation(f'{fn}({n}) is not uniform: exact outcome probabilities within {depth} bits {dict(mass)}',
                      {'kind': 'enum-uniform', 'function': fn, 'n': n, 'm': m, 'depth': depth,
                       'observed': {str(k): str(v) for k, v in mass.items()}, 'expected': 'equal masses'})
        return False
    # ... and, stronger, for every public transcript each outcome comes from exactly one stream
    for tr, lst in by_tr.items():
        if sorted(p for p, _ in lst) != list(range(n)):
            ctx.violation(f'{fn}({n}): outcomes for public transcript {bits_str(tr)} are not one stream each',
                          {'kind': 'enum-uniform', 'function': fn, 'n': n, 'm': m, 'depth': depth,
                           'transcript': bits_str(tr), 'observed': sorted(p for p, _ in lst),
                           'expected': list(range(n))})
            return False
    total = sum(mass.values()) + sum(fractions.Fraction(1, 2 ** len(p)) for p in cut)
    if total > 1:
        ctx.violation(f'{fn}({n}): enumerated streams overlap (mass {total})',
                      {'kind': 'enum-uniform', 'function': fn, 'n': n, 'm': m, 'depth': depth, 'observed': str(total)})
        return False
    return True


def model_line(fn, n, stream):
    return f'{"randbelow" if fn == "randbelow" else "ruv"} {n} {bits_str(stream)}'


def impl_line(fn, val, tr, consumed):
    v = str(val) if fn == 'randbelow' else ints_str(val)
    return f'ok {v} o={bits_str(tr)} c={consumed}'


def part_a(ctx, lines, impl):
    trees = {}
    plan = []
    nmax1 = 16
    nmax3 = ctx.scale(8, 16)
    for fn in ('randbelow', 'ruv'):
        for n in range(1, nmax1 + 1):
            k = (n - 1).bit_length()
            plan.append((fn, n, 1, k * ctx.scale(3, 4) if n <= 8 else k * ctx.scale(2, 3) + ctx.scale(1, 0)))
        for n in range(1, nmax3 + 1):
            k = (n - 1).bit_length()
            plan.append((fn, n, 3, k * 2 + 1))
    for fn, n, m, depth in plan:
        leaves, cut = enum_tree(fn, n, m, depth, seed=ctx.seed)
        trees[(fn, n, m)] = leaves
        ctx.count(f'A:{fn}:m={m}:trees')
        ctx.count(f'A:{fn}:m={m}:leaves', len(leaves))
        ctx.count(f'A:{fn}:m={m}:cut-prefixes', len(cut))
        check_tree(ctx, fn, n, m, leaves, cut, depth)
        for stream, val, tr in leaves:
            if isinstance(val, str):
                continue
            lines.append(model_line(fn, n, stream))
            impl.append(impl_line(fn, val, tr, len(stream)))
            ctx.case(('A', fn, n, m, stream), nontrivial=(n & (n - 1)) != 0 or any(tr))
        for p in cut:
            lines.append(model_line(fn, n, p))
            impl.append('exhausted')
            ctx.case(('A-cut', fn, n, m, p))
        if m == 1 and n in (5, 6) and fn == 'ruv':
            s, v, tr = max(leaves, key=lambda lf: len(lf[0]))
            ctx.sample({'function': f'random_unit_vector({n})', 'bits': bits_str(s), 'value': v,
                        'opened': bits_str(tr)})
    return trees


# ---------------------------------------------------------------------------------------------
# B. all public functions on seeded streams
# ---------------------------------------------------------------------------------------------
def gen_calls(rng, count):
    """argument tuples, stratified"""
    calls = []
    for _ in range(count):
        kind = rng.choice(['getrandbits', 'getrandbits_bits', 'randbelow', 'randrange1', 'randrange3', 'randint',
                           'choice', 'choice_sec', 'choices', 'choices_w', 'choices_cw', 'shuffle', 'perm_int',
                           'perm_list', 'derange', 'sample_list', 'sample_range', 'random', 'uniform', 'ruv',
                           'choices_w_fxp', 'choice_fxp', 'shuffle_fxp'])
        if kind in ('getrandbits', 'getrandbits_bits'):
            calls.append((kind, rng.choice([0, 1, 2, 3, 5, 8, 13])))
        elif kind == 'randbelow':
            calls.append((kind, rng.choice([1, 2, 3, 5, 6, 7, 9, 10, 11, 12, 13, 24, 100, 1000, 2 ** 10, 2 ** 10 + 1,
                                            3 * 2 ** 7, 2 ** 13 - 1])))
        elif kind == 'ruv':
            calls.append((kind, rng.choice([1, 2, 3, 5, 6, 7, 9, 11, 12, 13, 17, 24, 31, 33])))
        elif kind == 'randrange1':
            calls.append((kind, rng.choice([1, 2, 3, 6, 7, 10, 100, 1000])))
        elif kind == 'randrange3':
            start = rng.randrange(-50, 50)
            step = rng.choice([1, 2, 3, 7, -1, -2, -5])
            n = rng.choice([1, 2, 3, 5, 6, 11, 12])
            off = rng.randrange(abs(step))
            stop = start + step * n - (off if step > 0 else -off)
            if len(range(start, stop, step)) == 0:
                stop = start + step
            calls.append((kind, start, stop, step))
        elif kind == 'randint':
            a = rng.randrange(-20, 20)
            calls.append((kind, a, a + rng.choice([0, 1, 2, 4, 5, 6, 9, 15])))
        elif kind in ('choice', 'choice_sec'):
            n = rng.choice([1, 2, 3, 5, 6, 7, 9])
            calls.append((kind, [rng.randrange(-9, 10) for _ in range(n)]))
        elif kind == 'choices':
            n = rng.choice([1, 2, 3, 5])
            calls.append((kind, [rng.randrange(-9, 10) for _ in range(n)], rng.choice([0, 1, 2, 3])))
        elif kind in ('choices_w', 'choices_cw'):
            n = rng.choice([1, 2, 3, 4, 6])
            g = rng.choice([1, 1, 2, 3])
            w = [g * rng.choice([0, 1, 1, 2, 3, 5]) for _ in range(n)]
            if not any(w):
                w[rng.randrange(n)] = g
            if w[-1] == 0 and rng.random() < 0.5:
                w[-1] = g
            calls.append((kind, [rng.randrange(-9, 10) for _ in range(n)], w, rng.choice([1, 2, 3])))
        elif kind == 'choices_w_fxp':
            n = rng.choice([1, 2, 3, 4])
            w = [rng.choice([0, 1, 2, 3]) for _ in range(n)]
            if not any(w):
                w[rng.randrange(n)] = 2
            calls.append((kind, [rng.randrange(-9 * 2 ** FIX_F, 10 * 2 ** FIX_F) / 2 ** FIX_F for _ in range(n)], w,
                          rng.choice([1, 2])))
        elif kind in ('choice_fxp', 'shuffle_fxp'):
            n = rng.choice([1, 2, 3, 5, 6])
            calls.append((kind, [k + rng.randrange(2 ** FIX_F) / 2 ** FIX_F for k in rng.sample(range(-9, 10), n)]))
        elif kind in ('shuffle', 'perm_list'):
            n = rng.choice([1, 2, 3, 4, 5, 6, 8, 9])
            calls.append((kind, rng.sample(range(-20, 20), n)))
        elif kind == 'perm_int':
            calls.append((kind, rng.choice([1, 2, 3, 4, 5, 7, 9])))
        elif kind == 'derange':
            n = rng.choice([2, 2, 3, 4, 5, 6])
            calls.append((kind, rng.sample(range(-20, 20), n) if rng.random() < 0.5 else n))
        elif kind == 'sample_list':
            n = rng.choice([1, 2, 3, 4, 5, 7, 9])
            pop = [rng.randrange(-5, 6) for _ in range(n)]       # repeats allowed
            calls.append((kind, pop, rng.randrange(0, n + 1)))
        elif kind == 'sample_range':
            start = rng.randrange(-10, 10)
            step = rng.choice([1, 1, 2, 3, -1, -2])
            n = rng.choice([1, 2, 3, 5, 6, 8])
            calls.append((kind, start, start + step * n, step, rng.randrange(0, n + 1)))
        elif kind == 'random':
            calls.append((kind,))
        elif kind == 'uniform':
            u = 2 ** FIX_F
            a = rng.randrange(-3 * u, 3 * u) / u
            b = a + rng.choice([1, 2, 3, 5, 7, 100, 255, 256, 300, 700]) / u * rng.choice([1, -1])
            calls.append((kind, a, b))
    return calls


def do_call(mpc, secint, secfxp, call):
    """run one public function of mpyc.random on the real code (returns placeholder(s))"""
    kind = call[0]
    if kind == 'getrandbits':
        return mr.getrandbits(secint, call[1])
    if kind == 'getrandbits_bits':
        return mr.getrandbits(secint, call[1], bits=True)
    if kind == 'randbelow':
        return mr._randbelow(secint, call[1])
    if kind == 'ruv':
        return mr.random_unit_vector(secint, call[1])
    if kind == 'randrange1':
        return mr.randrange(secint, call[1])
    if kind == 'randrange3':
        return mr.randrange(secint, call[1], call[2], call[3])
    if kind == 'randint':
        return mr.randint(secint, call[1], call[2])
    if kind == 'choice':
        return mr.choice(secint, call[1])
    if kind == 'choice_sec':
        return mr.choice(secint, [secint(a) for a in call[1]])
    if kind == 'choices':
        return mr.choices(secint, call[1], k=call[2])
    if kind == 'choices_w':
        return mr.choices(secint, call[1], call[2], k=call[3])
    if kind == 'choices_cw':
        return mr.choices(secint, call[1], cum_weights=list(itertools.accumulate(call[2])), k=call[3])
    if kind == 'choices_w_fxp':
        return mr.choices(secfxp, call[1], call[2], k=call[3])
    if kind == 'choice_fxp':
        return mr.choice(secfxp, call[1])
    if kind == 'shuffle_fxp':
        x = [secfxp(a) for a in call[1]]
        mr.shuffle(secfxp, x)
        return x
    if kind == 'shuffle':
        x = list(call[1])
        mr.shuffle(secint, x)
        return x
    if kind == 'perm_int' or kind == 'perm_list':
        return mr.random_permutation(secint, call[1])
    if kind == 'derange':
        return mr.random_derangement(secint, call[1])
    if kind == 'sample_list':
        return mr.sample(secint, call[1], call[2])
    if kind == 'sample_range':
        return mr.sample(secint, range(call[1], call[2], call[3]), call[4])
    if kind == 'random':
        return mr.random(secfxp)
    if kind == 'uniform':
        return mr.uniform(secfxp, call[1], call[2])
    raise ValueError(kind)


def call_model_line(call, stream):
    """the Lean driver request for this call (None: not modelled)"""
    kind = call[0]
    b = bits_str(stream)
    il = ints_str
    if kind == 'getrandbits':
        return f'getrandbits {call[1]} {b}'
    if kind == 'getrandbits_bits':
        return f'randbelowbits {2 ** call[1]} {b}'      # getrandbits(k, bits=True) is the fast path of _randbelow(2^k)
    if kind == 'randbelow':
        return f'randbelow {call[1]} {b}'
    if kind == 'ruv':
        return f'ruv {call[1]} {b}'
    if kind == 'randrange1':
        return f'randrange 0 {call[1]} 1 {b}'
    if kind == 'randrange3':
        return f'randrange {call[1]} {call[2]} {call[3]} {b}'
    if kind == 'randint':
        return f'randint {call[1]} {call[2]} {b}'
    if kind in ('choice', 'choice_sec'):
        return f'choice {il(call[1])} {b}'
    if kind == 'choices':
        return f'choicesu {il(call[1])} {call[2]} {b}'
    if kind in ('choices_w', 'choices_cw'):
        return f'choicesw {il(call[1])} {il(itertools.accumulate(call[2]))} {call[3]} {b}'
    if kind == 'choices_w_fxp':
        return f'choicesw {il(_sc(call[1]))} {il(itertools.accumulate(call[2]))} {call[3]} {b}'
    if kind == 'choice_fxp':
        return f'choice {il(_sc(call[1]))} {b}'
    if kind == 'shuffle_fxp':
        return f'shuffle {il(_sc(call[1]))} {b}'
    if kind in ('shuffle', 'perm_list'):
        return f'shuffle {il(call[1])} {b}'
    if kind == 'perm_int':
        return f'shuffle {il(range(call[1]))} {b}'
    if kind == 'derange':
        x = list(range(call[1])) if isinstance(call[1], int) else call[1]
        return f'derange {il(x)} {b}'
    if kind == 'sample_list':
        return f'sample {il(call[1])} {call[2]} {b}'
    if kind == 'sample_range':
        return f'samplerange {call[1]} {call[2]} {call[3]} {call[4]} {b}'
    if kind == 'random':
        return f'random {FIX_F} {b}'
    if kind == 'uniform':
        u = 2 ** FIX_F
        a, bb = call[1], call[2]
        return f'uniform {FIX_F} {round(a * u)} {round(abs(a - bb) * u)} {int(math.copysign(1, bb - a))} {b}'
    return None


def _sc(xs):
    """scaled integers of fixed-point values (exact for the dyadic values used)"""
    return [round(a * 2 ** FIX_F) for a in xs]


def value_str(call, val):
    kind = call[0]
    if kind in ('random', 'uniform', 'choice_fxp'):
        return str(round(val * 2 ** FIX_F))
    if kind in ('choices_w_fxp', 'shuffle_fxp'):
        return ints_str(_sc(val))
    if kind == 'getrandbits_bits':
        return bits_str(val)
    if isinstance(val, list):
        return ints_str(val)
    return str(int(val))


def shape_error(call, val):
    """independent oracle: documented range and shape of one result; returns None or a message"""
    kind = call[0]
    try:
        if kind == 'getrandbits':
            return None if 0 <= val < 2 ** call[1] and val == int(val) else f'not a {call[1]}-bit number'
        if kind == 'getrandbits_bits':
            return None if len(val) == call[1] and all(b in (0, 1) for b in val) else f'not {call[1]} bits'
        if kind == 'randbelow':
            return None if val in range(call[1]) else f'not in range({call[1]})'
        if kind == 'ruv':
            return None if len(val) == call[1] and sorted(val) == [0] * (call[1] - 1) + [1] else 'not a unit vector'
        if kind == 'randrange1':
            return None if val in range(call[1]) else f'not in range({call[1]})'
        if kind == 'randrange3':
            return None if val in range(call[1], call[2], call[3]) else f'not in range{call[1:]}'
        if kind == 'randint':
            return None if call[1] <= val <= call[2] and val == int(val) else f'not in [{call[1]}, {call[2]}]'
        if kind in ('choice', 'choice_sec', 'choice_fxp'):
            return None if val in call[1] else 'not an element of seq'
        if kind == 'choices_w_fxp':
            allowed = {a for a, w in zip(call[1], call[2]) if w}
            return None if len(val) == call[3] and all(v in allowed for v in val) else \
                'not k population elements of positive weight'
        if kind == 'shuffle_fxp':
            return None if sorted(val) == sorted(call[1]) else 'not a permutation'
        if kind == 'choices':
            return None if len(val) == call[2] and all(v in call[1] for v in val) else 'not k population elements'
        if kind in ('choices_w', 'choices_cw'):
            allowed = {a for a, w in zip(call[1], call[2]) if w}
            return None if len(val) == call[3] and all(v in allowed for v in val) else \
                'not k population elements of positive weight'
        if kind in ('shuffle', 'perm_list'):
            return None if sorted(val) == sorted(call[1]) else 'not a permutation'
        if kind == 'perm_int':
            return None if sorted(val) == list(range(call[1])) else 'not a permutation of range(n)'
        if kind == 'derange':
            x = list(range(call[1])) if isinstance(call[1], int) else call[1]
            if sorted(val) != sorted(x):
                return 'not a permutation'
            return None if all(a != b for a, b in zip(val, x)) else 'has a fixed point'
        if kind == 'sample_list':
            c = collections.Counter(val)
            c.subtract(collections.Counter(call[1]))
            return None if len(val) == call[2] and all(v <= 0 for v in c.values()) else \
                'not k elements at distinct positions of the population'
        if kind == 'sample_range':
            r = range(call[1], call[2], call[3])
            return None if len(val) == call[4] and len(set(val)) == len(val) and all(v in r for v in val) else \
                'not k distinct elements of the range'
        if kind == 'random':
            return None if 0 <= val < 1 else 'not in [0, 1)'
        if kind == 'uniform':
            lo, hi = min(call[1], call[2]), max(call[1], call[2])
            return None if lo <= val <= hi else f'not between {lo} and {hi}'
    except Exception as exc:  # malformed value
        return f'malformed result ({type(exc).__name__})'
    return None


def _plain(v):
    if isinstance(v, list):
        return [_plain(a) for a in v]
    if isinstance(v, float):
        return v if v != int(v) else int(v)
    return int(v)


def run_calls(m, calls, seed, no_prss=False, control=True):
    """Run the calls on the real code in one SimNet; returns per call (value, flat stream, transcript, agree)."""
    SRC.reset(seed=seed)
    net = SimNet(m, seed=seed, no_prss=no_prss, max_steps=300_000 + 6000 * len(calls))
    ro.install(net, control_bits=control)

    async def prog(mpc):
        secint, secfxp = _types(mpc)
        outs = []
        for idx, call in enumerate(calls):
            tok = TAG.set(('B', idx))
            try:
                r = do_call(mpc, secint, secfxp, call)
            except Exception as exc:  # noqa
                r = ('EXC', type(exc).__name__)
            TAG.reset(tok)
            outs.append(r)
        res = []
        for r in outs:
            if isinstance(r, tuple) and r and r[0] == 'EXC':
                res.append(r)
            else:
                res.append(_plain(await _open(mpc, r)))
        return res

    try:
        results = net.run(prog)
    except (simnet.PartyError, simnet.Deadlock) as exc:
        if len(calls) == 1:
            return [(('EXC', f'{type(exc).__name__}: {str(exc)[:160]}'), [], [], True)]
        out = []
        for call in calls:                  # isolate the failing call; the others are not evaluated
            r = run_calls(m, [call], seed, no_prss, control)[0]
            if isinstance(r[0], tuple) and r[0] and r[0][0] == 'EXC':
                return [r if c is call else (('EXC', 'SKIPPED'), [], [], True) for c in calls]
        return [(('EXC', 'crash only in the batch: ' + str(exc)[:120]), [], [], True)] * len(calls)
    out = []
    for idx, call in enumerate(calls):
        root = ('B', idx)
        vals = [results[i][idx] for i in range(m)]
        flats = [SRC.flat(i, root) for i in range(m)]
        trs = [SRC.transcript(i, root) for i in range(m)]
        agree = all(v == vals[0] for v in vals) and all(f == flats[0] for f in flats) and \
            all(t == trs[0] for t in trs)
        out.append((vals[0], flats[0], trs[0], agree))
    return out


def part_b(ctx, lines, impl):
    rng = ctx.subrng('B')
    for m in (1, 3):
        for batch in range(ctx.scale(3, 12)):
            calls = gen_calls(rng, ctx.scale(200 if m == 1 else 100, 300))
            seed = rng.randrange(1 << 30)
            res = run_calls(m, calls, seed)
            for call, (val, flat, tr, agree) in zip(calls, res):
                ctx.count(f'B:{call[0]}')
                rep = {'kind': 'call', 'call': list(call), 'm': m, 'seed': seed, 'bits': bits_str(flat),
                       'observed': val}
                if not agree:
                    ctx.violation(f'{call[0]}: parties disagree on the result', rep)
                    continue
                if isinstance(val, tuple):
                    if val[1] != 'SKIPPED':
                        ctx.violation(f'{call[0]}{call[1:]} raised {val[1]}', rep)
                    continue
                msg = shape_error(call, val)
                if msg:
                    rep['expected'] = msg
                    ctx.violation(f'{call[0]}{call[1:]} returned {val}: {msg}', rep)
                line = call_model_line(call, flat)
                if line is not None:
                    lines.append(line)
                    impl.append(f'ok {value_str(call, val)} o={bits_str(tr)} c={len(flat)}')
                ctx.case(('B', call[0], repr(call[1:]), bits_str(flat)), nontrivial=len(flat) > 0)
                if call[0] in ('derange', 'sample_range') and any(tr):
                    ctx.sample({'call': list(call), 'bits': bits_str(flat), 'opened': bits_str(tr), 'value': val})


def part_b_exact(ctx, trees):
    """exact distributions from products of enumerated leaves (m = 1): shuffle n <= 4, weighted choices"""
    def leaf_streams(fn, n):
        return [(s, fractions.Fraction(1, 2 ** len(s))) for s, v, tr in trees[(fn, n, 1)] if not isinstance(v, str)]

    for n in (2, 3, ctx.scale(3, 4)):
        per_call = [leaf_streams('ruv', n - i) for i in range(n - 1)]
        combos = list(itertools.product(*per_call))
        if len(combos) > 4000:
            combos = combos[:4000]      # still a union of complete transcript classes? no: only used when small
            continue
        SRC.reset()
        net = SimNet(1, seed=ctx.seed)
        ro.install(net)
        x0 = list(range(10, 10 + n))

        async def prog(mpc, combos=combos, x0=x0):
            secint, _ = _types(mpc)
            outs = []
            for idx, combo in enumerate(combos):
                root = ('X', idx)
                for c, (s, _) in enumerate(combo):
                    SRC.streams[root + (c,)] = list(s)
                tok = TAG.set(root)
                x = list(x0)
                mr.shuffle(secint, x)
                TAG.reset(tok)
                outs.append(x)
            return [[int(a) for a in await mpc.output(x)] for x in outs]

        res = net.run(prog)[0]
        mass = collections.Counter()
        for idx, (combo, perm) in enumerate(zip(combos, res)):
            if SRC.exhausted(0, ('X', idx)):
                ctx.violation('shuffle asked for more bits than the enumerated unit-vector streams',
                              {'kind': 'exact-shuffle', 'n': n, 'streams': [bits_str(s) for s, _ in combo]})
                return
            w = fractions.Fraction(1)
            for _, wi in combo:
                w *= wi
            mass[tuple(perm)] += w
            ctx.case(('X', n, tuple(bits_str(s) for s, _ in combo)))
        ctx.count(f'B-exact:shuffle:{n}', len(combos))
        perms = set(itertools.permutations(x0))
        if set(mass) != perms or len(set(mass.values())) != 1:
            ctx.violation(f'shuffle of {n} elements is not uniform over the {len(perms)} permutations',
                          {'kind': 'exact-shuffle', 'n': n,
                           'observed': {str(k): str(v) for k, v in sorted(mass.items())},
                           'expected': 'all permutations with equal exact probability'})
    # weighted choices: exact distribution proportional to the weights
    for weights in ([1, 2, 1], [2, 0, 4], [3, 1, 0, 1], [1, 1, 1, 1, 1]):
        g = math.gcd(*weights)
        tot = sum(weights) // g
        streams = leaf_streams('randbelow', tot)
        pop = list(range(20, 20 + len(weights)))
        SRC.reset()
        net = SimNet(1, seed=ctx.seed)
        ro.install(net)

        async def prog(mpc, streams=streams, pop=pop, weights=weights):
            secint, _ = _types(mpc)
            outs = []
            for idx, (s, _) in enumerate(streams):
                root = ('W', idx)
                SRC.streams[root + (0,)] = list(s)
                tok = TAG.set(root)
                outs.append(mr.choices(secint, pop, weights)[0])
                TAG.reset(tok)
            return [int(a) for a in await mpc.output(outs)]

        res = net.run(prog)[0]
        mass = collections.Counter()
        for (s, w), v in zip(streams, res):
            mass[v] += w
            ctx.case(('W', tuple(weights), bits_str(s)))
        ctx.count('B-exact:choices', len(streams))
        base = [mass[a] / wt for a, wt in zip(pop, weights) if wt]
        bad = any(mass[a] != 0 for a, wt in zip(pop, weights) if not wt) or len(set(base)) != 1 or \
            set(mass) - set(pop)
        if bad:
            ctx.violation(f'choices with weights {weights} does not follow the weights',
                          {'kind': 'exact-choices', 'weights': weights,
                           'observed': {str(k): str(v) for k, v in sorted(mass.items())},
                           'expected': 'probabilities proportional to the weights'})


# ---------------------------------------------------------------------------------------------
# C. the real random_bits
# ---------------------------------------------------------------------------------------------
ALPHA = 1e-9


def part_c(ctx):
    rng = ctx.subrng('C')
    nbits = ctx.scale(1200, 10000)
    nsamp = ctx.scale(160, 2000)
    for no_prss in (False, True):
        seed = rng.randrange(1 << 30)
        net = SimNet(3, seed=seed, no_prss=no_prss)

        async def prog(mpc, nbits=nbits):
            secint, secfxp = _types(mpc)
            res = {}
            for name, tp in (('secint', secint), ('secfxp', secfxp), ('secfld101', mpc.SecFld(101)),
                             ('secfld256', mpc.SecFld(2 ** 8))):
                b = mpc.random_bits(tp, nbits)
                res[name] = [float(a) if name == 'secfxp' else int(a) for a in await mpc.output(b)]
                if name != 'secfld256':
                    b = mpc.random_bits(tp, nbits // 4, signed=True)
                    vals = await mpc.output(b)
                    if name == 'secfld101':
                        vals = [int(a) if int(a) <= 50 else int(a) - 101 for a in vals]
                    res[name + ':signed'] = [float(a) if name == 'secfxp' else int(a) for a in vals]
            return res

        res = net.run(prog)
        if any(r != res[0] for r in res):
            ctx.violation('random_bits: parties open different values', {'kind': 'random_bits', 'no_prss': no_prss,
                                                                         'seed': seed})
            continue
        for name, vals in res[0].items():
            dom = (-1, 1) if name.endswith(':signed') else (0, 1)
            ctx.count(f'C:random_bits:{name}:prss={not no_prss}', len(vals))
            ctx.case(('C', name, no_prss, seed))
            bad = [v for v in vals if v not in dom]
            if bad:
                ctx.violation(f'random_bits({name}) returned {bad[0]}, not in {dom}',
                              {'kind': 'random_bits', 'type': name, 'no_prss': no_prss, 'seed': seed, 'n': len(vals),
                               'observed': bad[:5], 'expected': list(dom)})
                continue
            counts = [vals.count(dom[0]), vals.count(dom[1])]
            p = ro.chi2_uniform_p(counts)
            if p < ALPHA:
                ctx.violation(f'random_bits({name}) is unbalanced: counts {counts}, p = {p:.3g}',
                              {'kind': 'random_bits', 'type': name, 'no_prss': no_prss, 'seed': seed, 'n': len(vals),
                               'observed': counts, 'expected': f'balanced (chi-square p >= {ALPHA})'})
        # all functions with the real bits: range/shape of every result, chi-square on outcome histograms
        hist_calls = [('randbelow', 3), ('randbelow', 5), ('randbelow', 6), ('randbelow', 7), ('randbelow', 12),
                      ('ruv', 3), ('ruv', 5), ('ruv', 6), ('randrange3', -3, 12, 3), ('randint', 1, 6),
                      ('perm_int', 3), ('derange', 4), ('sample_range', 0, 5, 1, 2), ('sample_list', [1, 2, 3, 4], 2),
                      ('choices_w', [1, 2, 3], [1, 2, 1], 1), ('getrandbits', 3), ('choice', [4, 5, 6, 7, 8])]
        outcomes = {repr(('perm_int', 3)): 6, repr(('derange', 4)): 9, repr(('sample_range', 0, 5, 1, 2)): 20,
                    repr(('sample_list', [1, 2, 3, 4], 2)): 12}
        calls, res = [], []
        for hc in hist_calls:        # one net per call kind: keeps the number of concurrent coroutines small
            cnt = (nsamp // 4 if hc[0] == 'derange' else nsamp // 2 if hc[0].startswith(('sample', 'perm', 'choices'))
                   else nsamp)
            calls += [hc] * cnt
            res += run_calls(3, [hc] * cnt, seed, no_prss=no_prss, control=False)
        extra = gen_calls(rng, ctx.scale(40, 300))
        calls += extra
        res += run_calls(3, extra, seed + 1, no_prss=no_prss, control=False)
        hist = collections.defaultdict(collections.Counter)
        for call, (val, _flat, _tr, agree) in zip(calls, res):
            ctx.count(f'C:{call[0]}:prss={not no_prss}')
            ctx.case(('C', repr(call), repr(val), no_prss))
            rep = {'kind': 'real-bits', 'call': list(call), 'm': 3, 'no_prss': no_prss, 'seed': seed, 'observed': val}
            if not agree or isinstance(val, tuple):
                if not (isinstance(val, tuple) and val[1] == 'SKIPPED'):
                    ctx.violation(f'{call[0]}{call[1:]} with real random bits: parties disagree or exception {val}', rep)
                continue
            msg = shape_error(call, val)
            if msg:
                rep['expected'] = msg
                ctx.violation(f'{call[0]}{call[1:]} returned {val}: {msg}', rep)
                continue
            if call in hist_calls:
                hist[repr(call)][repr(val)] += 1
        for hc in hist_calls:
            h = hist[repr(hc)]
            if hc[0] == 'choices_w':
                tot = sum(h.values())
                exp = {repr([a]): tot * w / sum(hc[2]) for a, w in zip(hc[1], hc[2])}
                stat = sum((h.get(k, 0) - e) ** 2 / e for k, e in exp.items())
                p = ro.chi2_sf(stat, len(exp) - 1)
                cells = len(exp)
            else:
                cells = outcomes.get(repr(hc))
                if cells is None:
                    cells = {'randbelow': hc[1], 'ruv': hc[1], 'getrandbits': 8}.get(hc[0]) or \
                        (len(range(*hc[1:])) if hc[0] == 'randrange3' else
                         hc[2] - hc[1] + 1 if hc[0] == 'randint' else len(hc[1]))
                counts = list(h.values()) + [0] * (cells - len(h))
                p = ro.chi2_uniform_p(counts) if len(h) <= cells else 0.0
            if p < ALPHA:
                ctx.violation(f'{hc[0]}{hc[1:]} with real random bits is not balanced over its {cells} outcomes '
                              f'(p = {p:.3g})',
                              {'kind': 'real-bits-balance', 'call': list(hc), 'm': 3, 'no_prss': no_prss, 'seed': seed,
                               'samples': sum(h.values()), 'observed': dict(h), 'expected': f'chi-square p >= {ALPHA}'})


# ---------------------------------------------------------------------------------------------
# D. documented edge behaviour
# ---------------------------------------------------------------------------------------------
def part_d(ctx, lines, impl):
    """error cases and degenerate arguments on the real code (m = 1)"""
    SRC.reset(seed=ctx.seed)
    net = SimNet(1, seed=ctx.seed)
    ro.install(net)
    u = 2 ** FIX_F

    async def prog(mpc):
        secint, secfxp = _types(mpc)
        res = {}

        def exc(name, fn):
            try:
                fn()
                res[name] = 'no exception'
            except Exception as e:  # noqa
                res[name] = type(e).__name__
        exc('randrange-empty', lambda: mr.randrange(secint, 5, 5))
        exc('randrange-empty-step', lambda: mr.randrange(secint, 5, 9, -1))
        exc('randrange-step0', lambda: mr.randrange(secint, 0, 9, 0))
        exc('randint-empty', lambda: mr.randint(secint, 3, 2))
        exc('choice-empty', lambda: mr.choice(secint, []))
        exc('choices-len', lambda: mr.choices(secint, [1, 2], [1, 2, 3]))
        exc('choices-both', lambda: mr.choices(secint, [1, 2], [1, 2], cum_weights=[1, 3]))
        exc('random-int-type', lambda: mr.random(secint))
        exc('uniform-int-type', lambda: mr.uniform(secint, 0, 1))
        for nm, fn in (('choices-one-weight', lambda: mr.choices(secint, [4], [2])),
                       ('choices-one-positive-weight', lambda: mr.choices(secint, [-3, 1], [0, 3])),
                       ('choices-one-positive-cum-weight', lambda: mr.choices(secint, [4, 5], cum_weights=[0, 7]))):
            try:
                res[nm] = [int(a) for a in await mpc.output(fn())]
            except Exception as e:  # noqa
                res[nm] = type(e).__name__
        # degenerate interval: uniform(a, a) must return a (a <= N <= b)
        vals = []
        for j in range(16):
            tok = TAG.set(('D', j))
            r = mr.uniform(secfxp, 1.5, 1.5)
            TAG.reset(tok)
            vals.append(r)
        res['uniform-degenerate'] = [float(await mpc.output(v)) for v in vals]
        return res

    res = net.run(prog)[0]
    # errors raised inside the coroutine (after returnType): own net each, the error ends the run
    for nm, pop in (('sample-too-large', [1, 2]), ('sample-range-too-large', range(2))):
        SRC.reset(seed=ctx.seed)
        net = SimNet(1, seed=ctx.seed)
        ro.install(net)

        async def prog2(mpc, pop=pop):
            secint, _ = _types(mpc)
            return [int(a) for a in await mpc.output(mr.sample(secint, pop, 3))]
        try:
            net.run(prog2)
            res[nm] = 'no exception'
        except simnet.PartyError as exc:
            res[nm] = 'ValueError' if any(isinstance(e[2], ValueError) for e in exc.info) else repr(exc.info[0][2])
        except simnet.Deadlock:
            res[nm] = 'hang'
    # sample from a one-element range: own net (the failure kills the run)
    SRC.reset(seed=ctx.seed)
    net = SimNet(1, seed=ctx.seed)
    ro.install(net)

    async def prog1(mpc):
        secint, _ = _types(mpc)
        tok = TAG.set(('D1',))
        x = mr.sample(secint, range(7, 8), 1)
        TAG.reset(tok)
        return [int(a) for a in await mpc.output(x)]
    try:
        got = net.run(prog1)[0]
    except (simnet.PartyError, simnet.Deadlock) as exc:
        got = type(exc).__name__ + ': ' + str(exc)[-120:]
    ctx.case(('D', 'sample-range-singleton'))
    if got != [7]:
        ctx.violation(f'sample(secint, range(7, 8), 1): expected [7], got {got}',
                      {'kind': 'sample-range-singleton',
                       'expected': [7], 'observed': got})
    expect = {'randrange-empty': 'ValueError', 'randrange-empty-step': 'ValueError', 'randrange-step0': 'ValueError',
              'randint-empty': 'ValueError', 'choice-empty': 'IndexError', 'choices-len': 'ValueError',
              'choices-both': 'TypeError', 'random-int-type': 'TypeError', 'uniform-int-type': 'TypeError',
              'sample-too-large': 'ValueError', 'sample-range-too-large': 'ValueError'}
    for k, e in expect.items():
        ctx.count('D:error-case')
        ctx.case(('D', k))
        if res[k] != e:
            ctx.violation(f'{k}: expected {e}, got {res[k]}', {'kind': 'error-case', 'case': k, 'expected': e,
                                                                'observed': res[k]})
    for k, e, line in (('choices-one-weight', [4], 'choicesw 4 2 1 -'),
                       ('choices-one-positive-weight', [1], 'choicesw -3,1 0,3 1 -'),
                       ('choices-one-positive-cum-weight', [5], 'choicesw 4,5 0,7 1 -')):
        ctx.case(('D', k))
        lines.append(line)
        impl.append(f'ok {ints_str(res[k])} o=- c=0' if isinstance(res[k], list) else f'error:{res[k]}')
        if res[k] != e:
            ctx.violation(f'{k}: choices with a single positive weight: expected {e} (like random.choices), got {res[k]}',
                          {'kind': 'choices-one-weight', 'case': k,
                           'expected': e, 'observed': res[k]})
    bad = [v for v in res['uniform-degenerate'] if v != 1.5]
    for j in range(16):
        flat = SRC.flat(0, ('D', j))
        lines.append(f'uniform {FIX_F} {round(1.5 * u)} 0 1 {bits_str(flat)}')
        impl.append(f'ok {round(res["uniform-degenerate"][j] * u)} o=- c={len(flat)}')
        ctx.case(('D', 'uniform', j))
    if bad:
        ctx.violation(f'uniform(secfxp, 1.5, 1.5) returned {bad[0]} (documented: a <= N <= b)',
                      {'kind': 'uniform-degenerate', 'a': 1.5, 'b': 1.5,
                       'seed': ctx.seed, 'expected': 1.5, 'observed': res['uniform-degenerate']})


# ---------------------------------------------------------------------------------------------
# E. secure FIELD types as the sectype (prime and binary fields: the integers 0..n-1 are field elements)
# ---------------------------------------------------------------------------------------------
FIELD_CALLS = [('f101', 101, (2, 5, 100, 101)), ('f256', 2 ** 8, (2, 3, 7, 16, 255, 256)), ('f7', 7, (7, 3)), ('f2', 2, (2,)),
               ('f16', 2 ** 4, (2, 4, 5, 16))]


def field_case(m, no_prss, seed, count):
    async def prog(mpc):
        out = {}
        for name, order, ns in FIELD_CALLS:
            S = mpc.SecFld(order)
            for n in ns:
                vals = [mr.randrange(S, n) for _ in range(count)] + [mr.randint(S, 0, n - 1) for _ in range(count // 2)]
                out[(name, n)] = [int(v) for v in await mpc.output(vals)]
            u = mr.random_unit_vector(S, min(order, 5))
            out[(name, 'ruv')] = [int(v) for v in await mpc.output(u)]
        return out
    return SimNet(m, seed=seed, no_prss=no_prss).run(prog)


def part_e(ctx):
    rng = ctx.subrng('E')
    for (m, no_prss) in ((1, False), (3, False), (3, True)):
        seed = rng.randrange(1 << 30)
        res = field_case(m, no_prss, seed, ctx.scale(24, 200))
        rep = {'kind': 'field-sectype', 'm': m, 'no_prss': no_prss, 'seed': seed, 'count': ctx.scale(24, 200)}
        if any(r != res[0] for r in res):
            ctx.violation('random functions on secure field types: parties open different values', rep)
            return
        for (name, n), vals in res[0].items():
            ctx.case(('E', name, n, m, no_prss, seed))
            ctx.count(f'E:{name}')
            if n == 'ruv':
                if sorted(vals) != [0] * (len(vals) - 1) + [1]:
                    ctx.violation(f'random_unit_vector(SecFld {name}) opened {vals}: not a unit vector', dict(rep, observed=vals))
                    return
                continue
            bad = [v for v in vals if not 0 <= v < n]
            if bad:
                ctx.violation(f'randrange/randint(SecFld {name}, {n}) returned {bad[:4]}, outside range({n})',
                              dict(rep, type=name, n=n, observed=bad[:8], expected=f'range({n})'))
                return
            if n <= 5 and len(vals) >= 30 and len(set(vals)) < n:
                ctx.violation(f'randrange(SecFld {name}, {n}) never returned {sorted(set(range(n)) - set(vals))} in {len(vals)} draws',
                              dict(rep, type=name, n=n, observed=sorted(set(vals))))
                return


def _guard(ctx, part, fn):
    """a crash or hang of the real code inside a part is a finding, not an infrastructure problem"""
    try:
        return fn()
    except (simnet.PartyError, simnet.Deadlock) as exc:
        ctx.violation(f'part {part}: the real code crashed or hung: {type(exc).__name__}: {str(exc)[:300]}',
                      {'kind': 'crash', 'part': part, 'seed': ctx.seed, 'tier': ctx.tier,
                       'observed': f'{type(exc).__name__}: {str(exc)[:300]}', 'expected': 'run completes'})
        return None


def run(ctx):
    lines, impl = [], []
    trees = _guard(ctx, 'A', lambda: part_a(ctx, lines, impl))
    _guard(ctx, 'B', lambda: part_b(ctx, lines, impl))
    if trees is not None:
        _guard(ctx, 'B-exact', lambda: part_b_exact(ctx, trees))
    _guard(ctx, 'D', lambda: part_d(ctx, lines, impl))
    _guard(ctx, 'C', lambda: part_c(ctx))
    _guard(ctx, 'E', lambda: part_e(ctx))
    model = common.LeanDriver('RandStat').run(lines)
    ctx.compare('mpyc.random vs MpycV.Random (value, opened transcript, bits consumed)', impl, model, lines)


def search(ctx):
    """larger oracle-only search on the real code"""
    rng = ctx.subrng('search')
    for m in (1, 3):
        for _ in range(ctx.scale(10, 40)):
            calls = gen_calls(rng, 200)
            seed = rng.randrange(1 << 30)
            for call, (val, flat, tr, agree) in zip(calls, run_calls(m, calls, seed)):
                msg = 'parties disagree' if not agree else (f'raised {val[1]}' if isinstance(val, tuple)
                                                            else shape_error(call, val))
                if msg:
                    ctx.violation(f'{call[0]}{call[1:]} returned {val}: {msg}',
                                  {'kind': 'call', 'call': list(call), 'm': m, 'seed': seed, 'bits': bits_str(flat),
                                   'observed': val, 'expected': msg})
                    return


def replay(ctx, data):
    kind = data.get('kind')
    if kind == 'enum':
        stream = tuple(int(c) for c in data['stream'] if c in '01')
        r = _run_jobs(data['m'], [(data['function'], data['n'], stream)])[0]
        leaves = [(stream, r['value'] if r['agree'] else 'PARTIES-DISAGREE', r['transcript'])]
        c2 = common.Ctx('C33', 'quick', 0)
        n = data['n']
        val = leaves[0][1]
        ok = (isinstance(val, int) and not isinstance(val, bool) and 0 <= val < n) if data['function'] == 'randbelow' else \
            (isinstance(val, list) and len(val) == n and sorted(val) == [0] * (n - 1) + [1])
        return ok, f'{data["function"]}({n}) on bits {data["stream"]} -> {val}'
    if kind == 'enum-uniform':
        leaves, cut = enum_tree(data['function'], data['n'], data['m'], data['depth'])
        c2 = common.Ctx('C33', 'quick', 0)
        ok = check_tree(c2, data['function'], data['n'], data['m'], leaves, cut, data['depth'])
        return ok, (c2.violations[0][0] if c2.violations else 'uniform')
    if kind == 'field-sectype':
        res = field_case(data['m'], data['no_prss'], data['seed'], data['count'])
        bad = [(k, v) for k, vals in res[0].items() if k[1] != 'ruv' for v in vals if not 0 <= v < k[1]]
        return not bad and all(r == res[0] for r in res), f'out-of-range draws: {bad[:5]}'
    if kind in ('call', 'real-bits'):
        call = tuple(data['call'])
        res = run_calls(data['m'], [call], data['seed'], no_prss=data.get('no_prss', False),
                        control=(kind == 'call'))
        # the seeded stream of a single call differs from the batch: re-inject the recorded bits when present
        val, flat, tr, agree = res[0]
        msg = 'parties disagree' if not agree else (f'raised {val[1]}' if isinstance(val, tuple)
                                                    else shape_error(call, val))
        return msg is None, f'{call} -> {val}: {msg or "ok"}'
    if kind == 'crash':
        c2 = common.Ctx('C33', data.get('tier', 'quick'), data.get('seed', 0))
        part = data['part']
        if part == 'A':
            _guard(c2, 'A', lambda: part_a(c2, [], []))
        elif part == 'B':
            _guard(c2, 'B', lambda: part_b(c2, [], []))
        elif part == 'C':
            _guard(c2, 'C', lambda: part_c(c2))
        elif part == 'D':
            _guard(c2, 'D', lambda: part_d(c2, [], []))
        else:
            trees = {(fn, n, 1): enum_tree(fn, n, 1, 3 * (n - 1).bit_length())[0] for fn in ('randbelow', 'ruv')
                     for n in range(1, 9)}
            _guard(c2, 'B-exact', lambda: part_b_exact(c2, trees))
        return not c2.violations, (c2.violations[0][0] if c2.violations else 'ok')
    if kind == 'uniform-degenerate':
        c2 = common.Ctx('C33', 'quick', data.get('seed', 0))
        part_d(c2, [], [])
        v = [x for x in c2.violations if x[1].get('kind') == 'uniform-degenerate']
        return not v, (v[0][0] if v else 'uniform(a, a) == a')
    if kind in ('exact-shuffle', 'exact-choices', 'random_bits', 'real-bits-balance', 'error-case', 'choices-one-weight', 'sample-range-singleton'):
        c2 = common.Ctx('C33', 'quick', data.get('seed', 0))
        if kind in ('random_bits', 'real-bits-balance'):
            part_c(c2)
        elif kind in ('error-case', 'choices-one-weight', 'sample-range-singleton'):
            part_d(c2, [], [])
        else:
            trees = {}
            for fn in ('randbelow', 'ruv'):
                for n in range(1, 9):
                    trees[(fn, n, 1)] = enum_tree(fn, n, 1, 3 * (n - 1).bit_length())[0]
            part_b_exact(c2, trees)
        v = [x for x in c2.violations if x[1].get('kind') == kind]
        return not v, (v[0][0] if v else 'ok')
    return True, f'unknown replay kind {kind}'
