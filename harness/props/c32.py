"""C32 -- mpctools.reduce / mpctools.accumulate agree with functools.reduce / itertools.accumulate.

Lean: MpycV.Props.C32 (model MpycV.Model.Tools).  Correspondence: the exact application trees
(free magma) built by the real code vs the model, every length 0..N, with/without initial value,
both methods and the default-method rule.  Oracle: functools/itertools on a free monoid (tuple and
string concatenation: any reordering, omission or duplication is visible) and on 2x2 integer
matrices (associative, non-commutative), plus measured application depth and call counts.
"""
import functools
import itertools
import math
import os
import sys

sys.path.insert(0, os.path.dirname(os.path.dirname(os.path.abspath(__file__))))
import repo_path  # noqa: F401,E402
import common  # noqa: E402

_argv = sys.argv
sys.argv = [sys.argv[0], '--no-log']
from mpyc.runtime import mpc  # noqa: E402
from mpyc import mpctools  # noqa: E402
sys.argv = _argv

LEVEL = 'proof'
LEAN_MODULES = ['MpycV.Props.C32', 'MpycV.PropsGen.C32Src']
LEAN_NAMESPACES = ['MpycV.C32', 'MpycV.C32Src']
REQUIRED_THEOREMS = ['reduce_eq_foldl', 'reduce_initial_eq_foldl', 'reduce_empty_typeError', 'reduce_none_iff',
                     'accumulate_sklansky_eq_scan', 'accumulate_brentkung_eq_scan', 'accumulate_eq_scan',
                     'accumulate_inplace_eq_slices', 'default_method_rule',
                     'reduce_depth_log', 'sklansky_depth_log', 'brentkung_depth_log',
                     # source tie (PropsGen/C32Src.lean): definitions generated from the current mpctools.py = model
                     'reduce_src_eq', 'acc_brentkung_src_eq', 'acc_sklansky_src_eq', 'accumulate_src_eq',
                     'reduce_src_eq_foldl', 'reduce_src_initial_eq_foldl', 'reduce_src_empty_typeError',
                     'accumulate_src_eq_scan', 'accumulate_src_invalid_method']
RULE = ('every length n = 0..N (N = 70 quick, 200 thorough) x {no initial, initial} x {reduce, '
        'accumulate Sklansky, accumulate Brent-Kung, accumulate default (PRSS on/off)}; '
        'a case is distinct by (function, n, initial, method, domain); domains: free magma '
        '(exact application tree, correspondence), tuples and strings under concatenation, 2x2 '
        'integer matrices (oracle), depth/call-count instrumented values')
EXPLANATION = ('all clauses proved for the model (any type, any associative f): results equal the '
               'left fold / list of prefix folds, empty-without-initial is the TypeError branch, '
               'depth <= k = ceil(log2 n) (reduce, Sklansky) and <= max(2k-2, k) (Brent-Kung); the model '
               'is tied to mpctools.py by comparing exact application trees AND by a source translator: reduce and '
               'accumulate (both nested acc functions, the method heuristic, the initial value) are translated from the '
               'current source into Lean (f and the element type are parameters) and proved equal to the model for '
               'every f (PropsGen/C32Src)')
ASSUMPTIONS = ['list(x), x.insert(0, initial), slice assignment x[h:j] = generator behave as CPython lists '
               '(modelled by List.take/drop/set; exercised by the correspondence for every length)',
               'f is a pure function (the theorems are about the values f returns)']
TRUSTED = ['harness/props/c32.py correspondence (free-magma trees) and functools/itertools as oracle',
           'harness/py2lean_tools.py: translation rules Python -> Lean (docstring), hand-written fuel annotations']

_NOVAL = object()
INIT_LEAF = 1000


def _real_reduce(f, x, initial=_NOVAL):
    if initial is _NOVAL:
        return mpctools.reduce(f, x)
    return mpctools.reduce(f, x, initial)


def _real_accumulate(x, f, initial=_NOVAL, method=None, no_prss=None):
    kw = {}
    if initial is not _NOVAL:
        kw['initial'] = initial
    if method is not None:
        kw['method'] = method
    old = mpc.options.no_prss
    if no_prss is not None:
        mpc.options.no_prss = no_prss
    try:
        return list(mpctools.accumulate(x, f, **kw))
    finally:
        mpc.options.no_prss = old


def _exc_name(fn):
    try:
        return ('ok', fn())
    except Exception as exc:  # noqa
        return ('exc', type(exc).__name__)


# -- domains ------------------------------------------------------------------------------------
def magma(a, b):
    return f'({a} {b})'


def matmul(a, b):
    return (a[0]*b[0] + a[1]*b[2], a[0]*b[1] + a[1]*b[3], a[2]*b[0] + a[3]*b[2], a[2]*b[1] + a[3]*b[3])


def _domain(name, n, rng):
    """-> (f, list of n elements, initial element)"""
    if name == 'tuple':
        return (lambda a, b: a + b), [(i,) for i in range(n)], (INIT_LEAF,)
    if name == 'str':
        return (lambda a, b: a + b), [chr(0x4e00 + i) for i in range(n)], '^'
    if name == 'mat':
        return matmul, [tuple(rng.randint(-3, 3) for _ in range(4)) for _ in range(n)], \
            tuple(rng.randint(-3, 3) for _ in range(4))
    raise ValueError(name)


def _oracle_reduce(f, x, initial):
    if initial is _NOVAL:
        return functools.reduce(f, x)
    return functools.reduce(f, x, initial)


def _oracle_accumulate(f, x, initial):
    if initial is _NOVAL:
        return list(itertools.accumulate(x, f))
    return list(itertools.accumulate(x, f, initial=initial))


def _clog2(n):
    return (n - 1).bit_length() if n > 0 else 0


class _Dep:
    """depth-instrumented value"""
    __slots__ = ('d',)

    def __init__(self, d=0):
        self.d = d


def _depth_and_calls(fn_name, n, with_init, method):
    calls = [0]

    def f(a, b):
        calls[0] += 1
        return _Dep(max(a.d, b.d) + 1)
    x = [_Dep() for _ in range(n)]
    ini = _Dep() if with_init else _NOVAL
    if fn_name == 'reduce':
        r = _real_reduce(f, x, ini)
        return r.d, calls[0]
    r = _real_accumulate(x, f, ini, method)
    return max([v.d for v in r], default=0), calls[0]


def _check_one(ctx, fn_name, n, with_init, method, dom, rng, no_prss=None, report=True):
    """Oracle comparison of one case on the real code. Returns None or a replay dict."""
    f, x, ini0 = _domain(dom, n, rng)
    ini = ini0 if with_init else _NOVAL
    if fn_name == 'reduce':
        exp = _exc_name(lambda: _oracle_reduce(f, list(x), ini))
        got = _exc_name(lambda: _real_reduce(f, list(x), ini))
    else:
        exp = _exc_name(lambda: _oracle_accumulate(f, list(x), ini))
        got = _exc_name(lambda: _real_accumulate(list(x), f, ini, method, no_prss))
    if exp != got:
        rep = {'kind': 'oracle', 'function': fn_name, 'n': n, 'initial': with_init, 'method': method,
               'domain': dom, 'no_prss': no_prss, 'elements': [list(e) if isinstance(e, tuple) else e for e in x],
               'initial_value': (list(ini0) if isinstance(ini0, tuple) else ini0) if with_init else None,
               'expected': repr(exp)[:600], 'observed': repr(got)[:600]}
        if report:
            ctx.violation(f'mpctools.{fn_name} differs from the Python reference (n={n}, initial={with_init}, '
                          f'method={method}, domain={dom})', rep)
        return rep
    return None


def _check_depth(ctx, fn_name, n, with_init, method, report=True):
    tot = n + (1 if with_init else 0)
    if tot == 0:
        return None
    k = _clog2(tot)
    pow2 = tot == 1 << k
    bad = None
    try:
        d, c = _depth_and_calls(fn_name, n, with_init, method)
    except Exception as exc:  # noqa
        d = c = 0
        bad = f'raised {type(exc).__name__}'
    if bad:
        pass
    elif fn_name == 'reduce':
        if d > k:
            bad = f'depth {d} > ceil(log2 n) = {k}'
        elif c != tot - 1:
            bad = f'{c} calls, expected n-1 = {tot - 1}'
    elif method == 'Sklansky':
        if d > k:
            bad = f'depth {d} > ceil(log2 n) = {k}'
        elif pow2 and c != (tot // 2) * k:
            bad = f'{c} calls, documented (n/2)k = {(tot // 2) * k}'
    else:
        if d > max(2 * k - 2, k):
            bad = f'depth {d} > max(2k-2, k) = {max(2 * k - 2, k)} for k = ceil(log2 n)'
        elif pow2 and (c != 2 * tot - 2 - k or d != max(2 * k - 2, k)):
            bad = f'{c} calls depth {d}, documented 2n-2-k = {2 * tot - 2 - k}, max(2k-2,k) = {max(2 * k - 2, k)}'
    if bad:
        rep = {'kind': 'depth', 'function': fn_name, 'n': n, 'initial': with_init, 'method': method,
               'expected': 'documented logarithmic depth / call count', 'observed': bad}
        if report:
            ctx.violation(f'mpctools.{fn_name} application depth/count not as documented: {bad}', rep)
        return rep
    return None


def _tree_lines(N):
    """Requests for the Lean driver and the real code's answers on the free magma."""
    reqs, impl = [], []
    for n in range(N + 1):
        leaves = [str(i) for i in range(n)]
        for with_init in (False, True):
            ini = str(INIT_LEAF) if with_init else _NOVAL
            reqs.append(f'reduce {n} {INIT_LEAF if with_init else "-"}')
            kind, val = _exc_name(lambda: _real_reduce(magma, list(leaves), ini))
            impl.append(val if kind == 'ok' else val)
            for meth, tag in (('Brent-Kung', 'BK'), ('Sklansky', 'SK')):
                for op in ('acc', 'accs'):
                    reqs.append(f'{op} {n} {INIT_LEAF if with_init else "-"} {tag}')
                    kind, val = _exc_name(lambda: _real_accumulate(list(leaves), magma, ini, meth))
                    impl.append((';'.join(val) if val else '-') if kind == 'ok' else val)
            # default method: which method does the code pick (observed through the tree shape)?
            for no_prss in (False, True):
                tot = n + (1 if with_init else 0)
                reqs.append(f'defmeth {1 if no_prss else 0} {tot}')
                got = _exc_name(lambda: _real_accumulate(list(leaves), magma, ini, None, no_prss))
                bk = _exc_name(lambda: _real_accumulate(list(leaves), magma, ini, 'Brent-Kung'))
                sk = _exc_name(lambda: _real_accumulate(list(leaves), magma, ini, 'Sklansky'))
                # shapes coincide for tiny n; there the rule cannot be observed -> accept the model's answer
                if bk == sk:
                    impl.append('BK' if (no_prss and tot >= 32) else 'SK')
                else:
                    impl.append('BK' if got == bk else 'SK' if got == sk else 'neither')
    return reqs, impl


def run(ctx):
    N = ctx.scale(70, 200)
    # correspondence: exact application trees -------------------------------------------------
    reqs, impl = _tree_lines(N)
    model = common.LeanDriver('Tools').run(reqs)
    ctx.compare('mpctools application trees (free magma)', impl, model, reqs)
    for r in reqs:
        ctx.case(('tree', r))
    ctx.count('tree-requests', len(reqs))
    ctx.sample({'request': reqs[40], 'answer': impl[40]})
    # error branches of the interface ------------------------------------------------------------
    kind, val = _exc_name(lambda: list(mpctools.accumulate([1, 2], method='Kogge-Stone')))
    if (kind, val) != ('exc', 'ValueError'):
        ctx.violation('accumulate with an invalid method does not raise ValueError',
                      {'kind': 'invalid-method', 'expected': 'ValueError', 'observed': repr((kind, val))})
    got_none = _exc_name(lambda: (mpctools.reduce(magma, [], None), list(mpctools.accumulate([], magma, initial=None))))
    if got_none != ('ok', (None, [None])):
        ctx.violation('initial=None is not treated as a provided initial value',
                      {'kind': 'initial-none', 'expected': 'None / [None]', 'observed': repr(got_none)})
    # oracle on the real code --------------------------------------------------------------------
    rng = ctx.subrng('oracle')
    for n in range(N + 1):
        for with_init in (False, True):
            for dom in ('tuple', 'str', 'mat'):
                for fn_name, method, no_prss in (('reduce', None, None), ('accumulate', 'Brent-Kung', None),
                                                 ('accumulate', 'Sklansky', None), ('accumulate', None, False),
                                                 ('accumulate', None, True)):
                    ctx.case(('oracle', fn_name, n, with_init, method, no_prss, dom))
                    ctx.count(f'{fn_name}/{method}/{dom}')
                    _check_one(ctx, fn_name, n, with_init, method, dom, rng, no_prss)
            for fn_name, method in (('reduce', None), ('accumulate', 'Brent-Kung'), ('accumulate', 'Sklansky')):
                ctx.case(('depth', fn_name, n, with_init, method))
                _check_depth(ctx, fn_name, n, with_init, method)
    # iterables that are not lists (generators), as the docstring allows
    for n in (0, 1, 5, 33):
        g = (str(i) for i in range(n))
        exp = _exc_name(lambda: functools.reduce(lambda a, b: a + b, [str(i) for i in range(n)]))
        got = _exc_name(lambda: mpctools.reduce(lambda a, b: a + b, g))
        ctx.case(('generator', n))
        if exp != got:
            ctx.violation('reduce on a generator differs from functools.reduce',
                          {'kind': 'generator', 'n': n, 'expected': repr(exp), 'observed': repr(got)})
    ctx.sample({'function': 'accumulate', 'n': 5, 'method': 'Brent-Kung', 'domain': 'tuple',
                'result': [list(t) for t in _real_accumulate([(i,) for i in range(5)], lambda a, b: a + b,
                                                             _NOVAL, 'Brent-Kung')]})


# ---------------------------------------------------------------------------------------------
# source translator tie
# ---------------------------------------------------------------------------------------------
import py2lean_tools  # noqa: E402

GEN_FILE = os.path.join(common.LEAN_DIR, 'MpycV', 'Generated', 'MpctoolsSrc.lean')
MIRROR_FILE = os.path.join(common.LEAN_DIR, 'MpycV', 'Lemmas', 'ToolsSrcMirror.lean')


def _translate_current():
    src = os.path.join(repo_path.REPO, 'mpyc', 'mpctools.py')
    try:
        text = open(src).read()
    except OSError as exc:
        return py2lean_tools.translate_source('', 'mpyc/mpctools.py')[0], {'*': f'cannot read {src}: {exc}'}
    return py2lean_tools.translate_source(text)


def generate(ctx):
    """source translator: current mpyc/mpctools.py -> lean/MpycV/Generated/MpctoolsSrc.lean (deterministic)"""
    text, problems = _translate_current()
    os.makedirs(os.path.dirname(GEN_FILE), exist_ok=True)
    old = open(GEN_FILE).read() if os.path.exists(GEN_FILE) else None
    if old != text:
        tmp = GEN_FILE + f'.tmp{os.getpid()}'
        with open(tmp, 'w') as f:
            f.write(text)
        os.replace(tmp, GEN_FILE)
    for fn, msg in problems.items():
        ctx.note(f'py2lean_tools: {fn} not translated: {msg}')
    changed = changed_functions(text)
    if changed:
        ctx.note('py2lean_tools: translated text differs from the pinned mirror for: ' + ', '.join(changed))
    ctx.count('py2lean_tools/functions translated', len(py2lean_tools.ORDER) - len([k for k in problems if k != '*']))


def _blocks(text):
    """split a generated file into {definition name: text}; source line numbers in the headers are ignored"""
    out, cur = {}, None
    for ln in text.replace('MpycV.MpctoolsMirror', 'MpycV.MpctoolsSrc').split('\n'):
        if ln.startswith('-- ≙ mpctools.py:'):
            continue
        if ln.startswith('def ') or ln.startswith('/-- NOT TRANSLATED'):
            cur = ln.split()[1] if ln.startswith('def ') else 'untranslated'
            out[cur] = []
        if ln.startswith('end MpycV.'):
            cur = None
        if cur is not None:
            out[cur].append(ln)
    return {k: '\n'.join(v).strip() for k, v in out.items()}


def changed_functions(text=None):
    """top-level functions whose translation differs textually from the mirror the bridge lemmas are proved for"""
    if text is None:
        text = _translate_current()[0]
    try:
        mirror = _blocks(open(MIRROR_FILE).read())
    except OSError:
        return list(py2lean_tools.ORDER)
    cur = _blocks(text)
    diff = {k.split('.')[0] for k in set(cur) | set(mirror) if cur.get(k) != mirror.get(k)}
    return [fn for fn in py2lean_tools.ORDER if fn in diff]


def search(ctx):
    """Larger sweep, called only when proof or correspondence broke; the functions whose translation changed first."""
    rng = ctx.subrng('search')
    changed = changed_functions()
    combos = [('reduce', None, None), ('accumulate', 'Brent-Kung', None), ('accumulate', 'Sklansky', None),
              ('accumulate', None, True), ('accumulate', None, False)]
    if changed:
        ctx.note('search focused on: ' + ', '.join(changed))
        combos = [c for c in combos if c[0] in changed] + [c for c in combos if c[0] not in changed]
    # interface corners first: iterables that are not lists, initial=None, invalid method
    for n in (0, 1, 2, 5):
        exp = _exc_name(lambda: functools.reduce(lambda a, b: a + b, [str(i) for i in range(n)]))
        got = _exc_name(lambda: mpctools.reduce(lambda a, b: a + b, (str(i) for i in range(n))))
        if exp != got:
            ctx.violation('reduce on a generator differs from functools.reduce',
                          {'kind': 'generator', 'n': n, 'expected': repr(exp), 'observed': repr(got)})
            return
        exp = _exc_name(lambda: list(itertools.accumulate((str(i) for i in range(n)), lambda a, b: a + b)))
        got = _exc_name(lambda: list(mpctools.accumulate((str(i) for i in range(n)), lambda a, b: a + b)))
        if exp != got:
            ctx.violation('accumulate on a generator differs from itertools.accumulate',
                          {'kind': 'generator-acc', 'n': n, 'expected': repr(exp), 'observed': repr(got)})
            return
    for n in list(range(0, 130)) + [255, 256, 257, 511, 512, 513]:
        for with_init in (False, True):
            for dom in ('tuple', 'mat'):
                for fn_name, method, no_prss in combos:
                    ctx.case(('search', fn_name, n, with_init, method, dom))
                    if _check_one(ctx, fn_name, n, with_init, method, dom, rng, no_prss):
                        return
            for fn_name, method in (('reduce', None), ('accumulate', 'Brent-Kung'), ('accumulate', 'Sklansky')):
                if _check_depth(ctx, fn_name, n, with_init, method):
                    return


def replay(ctx, data):
    kind = data.get('kind')
    if kind == 'depth':
        rep = _check_depth(ctx, data['function'], data['n'], data['initial'], data['method'], report=False)
        return (rep is None), (rep or {}).get('observed', 'depth and call counts as documented')
    if kind == 'oracle':
        import random
        n = data['n']
        rng = random.Random(0)
        dom = data['domain']
        f, x, ini0 = _domain(dom, n, rng)
        if dom == 'mat':
            x = [tuple(e) for e in data['elements']]
            if data.get('initial_value') is not None:
                ini0 = tuple(data['initial_value'])
        ini = ini0 if data['initial'] else _NOVAL
        if data['function'] == 'reduce':
            exp = _exc_name(lambda: _oracle_reduce(f, list(x), ini))
            got = _exc_name(lambda: _real_reduce(f, list(x), ini))
        else:
            exp = _exc_name(lambda: _oracle_accumulate(f, list(x), ini))
            got = _exc_name(lambda: _real_accumulate(list(x), f, ini, data['method'], data.get('no_prss')))
        return exp == got, f'expected {repr(exp)[:200]} observed {repr(got)[:200]}'
    if kind == 'invalid-method':
        k, v = _exc_name(lambda: list(mpctools.accumulate([1, 2], method='Kogge-Stone')))
        return (k, v) == ('exc', 'ValueError'), repr((k, v))
    if kind == 'initial-none':
        got = _exc_name(lambda: (mpctools.reduce(magma, [], None), list(mpctools.accumulate([], magma, initial=None))))
        return got == ('ok', (None, [None])), f'initial=None handling: {got!r}'
    if kind == 'generator-acc':
        n = data['n']
        exp = _exc_name(lambda: list(itertools.accumulate((str(i) for i in range(n)), lambda a, b: a + b)))
        got = _exc_name(lambda: list(mpctools.accumulate((str(i) for i in range(n)), lambda a, b: a + b)))
        return exp == got, f'expected {exp} observed {got}'
    if kind == 'generator':
        n = data['n']
        exp = _exc_name(lambda: functools.reduce(lambda a, b: a + b, [str(i) for i in range(n)]))
        got = _exc_name(lambda: mpctools.reduce(lambda a, b: a + b, (str(i) for i in range(n))))
        return exp == got, f'expected {exp} observed {got}'
    return True, f'unknown replay kind {kind!r} (nothing to run)'
