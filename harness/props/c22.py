"""C22 — field elements survive serialisation.

Model: PrimeF.toBytes/fromBytes/byteLength/signed/unsigned/toInt/reduce/rebuild, ExtF/BinF.toBytes/fromBytes.
Theorems: MpycV.C22 (from_to_bytes, encoding_little_endian, to_bytes_overflow, byte_length_rule, signed_view,
int_roundtrip, pickle_roundtrip).  Tie: real to_bytes/from_bytes/byte_length/signed_/unsigned_/int/abs/__reduce__
vs the Lean driver.  Oracle: independent little-endian encoder/decoder, range/congruence of the signed view,
pickle round trip compared for equality and type identity (pickle itself is outside Lean).
"""
import os
import pickle
import sys

sys.path.insert(0, os.path.dirname(os.path.dirname(os.path.abspath(__file__))))
import finfld_common as fc  # noqa: E402
import finfld_oracle as fo  # noqa: E402
import common  # noqa: E402
from finfld_common import finfields, gfpx  # noqa: E402

LEVEL = 'proof'
LEAN_MODULES = ['MpycV.Props.C22']
LEAN_NAMESPACES = ['MpycV.C22']
REQUIRED_THEOREMS = ['from_to_bytes', 'encoding_little_endian', 'to_bytes_overflow', 'byte_length_rule', 'signed_view',
                     'int_roundtrip', 'pickle_roundtrip', 'ext_from_to_bytes', 'ext_int_view', 'bin_from_to_bytes']
RULE = ('bytes: (field, list of elements) for every field of C20 (orders 2,3,5,7,11,4,8,9,16,25,27, GF(2^8), GF(3^5), 64/255/256-bit '
        'primes) and list lengths 0..64 (quick: a spread of lengths incl. 0,1,64), values incl. 0 and q-1; round trip '
        'F(from_bytes(to_bytes(values))) and exact bytes vs an independent encoder; arbitrary byte strings (lengths not a multiple '
        'of byte_length) and out-of-range values (OverflowError) for the tie; views: all elements of small prime fields, random of big '
        'ones, int(F(x)) for x in the signed and unsigned canonical ranges; pickle: elements of GF(p), GF((p,n,w)) with reduced, '
        'unreduced and negative w, extension and binary fields; distinct = distinct (field, payload)')
EXPLANATION = 'pickle clause: correspondence (record model of __reduce__/createGF) + round trip on the real code; pickle itself is not modelled'
ASSUMPTIONS = ['int.to_bytes / int.from_bytes (little endian) as re-implemented in the model (leBytes/ofLE) and compared byte for byte',
               'pickle: loads(dumps(x)) rebuilds x from its __reduce__ data (callable, args, state)',
               'functools.cache keys pGF/xGF by the argument values']
TRUSTED = ['harness/finfld_common.py', 'harness/finfld_oracle.py']


def fdesc(w):
    return {'p': w.p, 'modulus': w.mod}


def hx(b):
    return bytes(b).hex() if len(b) else '-'


def values_of(w, ns):
    """the values handed to to_bytes by the runtime: `.value` of each element"""
    return [w.elem(n).value for n in ns]


def real_tobytes(w, vals):
    try:
        return hx(w.F.to_bytes(vals))
    except OverflowError:
        return 'OverflowError'


def elems_txt(w, es):
    if w.kind == 'ext':
        return '|'.join(w.txt(e) for e in es) if es else '.'
    return ','.join(w.txt(e) for e in es) if es else '-'


def real_frombytes(w, data):
    """from_bytes, then (extension/binary fields) F(int) as the runtime does"""
    ints = w.F.from_bytes(data)
    if w.kind == 'prime':
        return ','.join(map(str, ints)) if ints else '-'
    return elems_txt(w, [w.F(v) for v in ints])


def line_tobytes(w, ns):
    if w.kind == 'prime':
        return f'tobytes {w.q} ' + (','.join(map(str, ns)) if ns else '-')
    if w.kind == 'bin':
        return f'btobytes {w.fld} ' + (','.join(map(str, ns)) if ns else '-')
    return f'xtobytes {w.fld} ' + ('|'.join(w.ntxt(n) for n in ns) if ns else '.')


def line_frombytes(w, data):
    pre = {'prime': f'frombytes {w.q}', 'bin': f'bfrombytes {w.fld}', 'ext': f'xfrombytes {w.fld}'}[w.kind]
    return f'{pre} {hx(data)}'


def bytes_failures(w, ns):
    """round trip + exact encoding on the real code against the independent encoder"""
    bad = []
    vals = values_of(w, ns)
    r = fo.byte_length(w.q)
    if w.F.byte_length != r:
        bad.append(f'byte_length={w.F.byte_length}, expected {r}')
    try:
        data = w.F.to_bytes(vals)
    except Exception as exc:   # noqa: BLE001
        return [f'to_bytes raised {type(exc).__name__} for reduced values']
    if not isinstance(data, (bytes, bytearray)):
        return [f'to_bytes returned {type(data).__name__}']
    if len(data) != r * len(ns):
        bad.append(f'encoded length {len(data)} != {r}*{len(ns)}')
    if bytes(data) != fo.encode(ns, r):
        bad.append('bytes differ from fixed-width little-endian encoding')
    ints = w.F.from_bytes(data)
    if list(ints) != list(ns):
        bad.append(f'from_bytes gives {list(ints)[:6]}.. instead of {list(ns)[:6]}..')
    back = [w.F(v) for v in ints]
    orig = [w.elem(n) for n in ns]
    if len(back) != len(orig) or any(not (x == y) for x, y in zip(back, orig)):
        bad.append('decoded elements differ from the originals')
    return bad


def views_failures(w, a):
    bad = []
    e = w.elem(a)
    p = w.p
    s, u, i = e.signed_(), e.unsigned_(), int(e)
    if not (-p < 2 * s <= p and (s - a) % p == 0):
        bad.append(f'signed_()={s} not the representative of {a} in (-p/2, p/2]')
    if u != a:
        bad.append(f'unsigned_()={u} != {a}')
    if i != (s if w.F.is_signed else u):
        bad.append(f'int()={i} inconsistent with is_signed={w.F.is_signed}')
    if abs(e) != abs(i):
        bad.append(f'abs()={abs(e)}')
    if not (w.F(s) == e and w.F(u) == e):
        bad.append('F(signed_()) or F(unsigned_()) differs from the element')
    return bad


def make_field(spec):
    """spec: ['int', p] | ['tuple', p, n, w] | ['poly', p, modulus list]"""
    if spec[0] == 'int':
        return finfields.GF(int(spec[1]))
    if spec[0] == 'tuple':
        return finfields.GF((int(spec[1]), int(spec[2]), int(spec[3])))
    return finfields.GF(gfpx.GFpX(int(spec[1]))([int(c) for c in spec[2]]))


def pickle_failures(spec, a):
    F = make_field(spec)
    e = F(a)
    bad = []
    for proto in range(2, pickle.HIGHEST_PROTOCOL + 1):
        b = pickle.loads(pickle.dumps(e, protocol=proto))
        if type(b) is not type(e):
            bad.append(f'protocol {proto}: unpickled type {type(b).__name__} is not the original class object')
        if not (b == e) or (b != e):
            bad.append(f'protocol {proto}: unpickled element != original')
        if b.value != e.value:
            bad.append(f'protocol {proto}: value {b.value} != {e.value}')
        if bad:
            break
    return bad


def pickle_real_line(spec, a):
    """canonical form of the __reduce__ data and of the rebuilt class (prime fields)"""
    F = make_field(spec)
    e = F(a)
    f, args, state = e.__reduce__()
    b = pickle.loads(pickle.dumps(e))
    p, n, w_ = args
    return f'{p} {n} {w_} {b.value} {"same" if type(b) is type(e) else "differs"}'


def run(ctx):
    rng = ctx.rng
    lines, reals, meta = [], [], []

    def tie(line, real, m):
        lines.append(line)
        reals.append(real)
        meta.append(m)

    fields = fc.small_fields() + fc.big_fields()
    lengths = list(range(0, 65)) if ctx.thorough else [0, 1, 2, 3, 5, 8, 13, 21, 33, 64]
    reps = ctx.scale(1, 3)
    for w in fields:
        r = w.F.byte_length
        ctx.count(f'field:{w.kind}:byte_length={r}')
        tie(f'bytelen {w.q}', str(r), [w.name, 'bytelen'])
        for ln in lengths:
            for _ in range(reps):
                ns = [rng.choice((0, 1, w.q - 1, rng.randrange(w.q), rng.randrange(w.q))) for _ in range(ln)]
                ctx.case((w.name, 'bytes', tuple(ns)), nontrivial=ln > 0)
                ctx.count(f'bytes:len={"0" if ln == 0 else "1" if ln == 1 else "2-16" if ln <= 16 else "17-64"}')
                bad = bytes_failures(w, ns)
                if bad:
                    ctx.violation(f'{w.name} list {ns[:8]}..: ' + '; '.join(bad),
                                  {'kind': 'bytes', 'field': fdesc(w), 'values': ns, 'failed': bad})
                vals = values_of(w, ns)
                enc = real_tobytes(w, vals)
                tie(line_tobytes(w, ns), enc, [w.name, 'to_bytes', ns])
                if enc != 'OverflowError':
                    data = w.F.to_bytes(vals)
                    tie(line_frombytes(w, data), real_frombytes(w, data), [w.name, 'from_bytes', enc])
        ctx.sample({'field': w.name, 'values': [1, w.q - 1], 'bytes': real_tobytes(w, values_of(w, [1, w.q - 1]))})
        # arbitrary byte strings, incl. lengths that are not a multiple of byte_length and unreduced contents
        for _ in range(ctx.scale(6, 60)):
            data = bytes(rng.randrange(256) for _ in range(rng.randrange(0, 3 * r + 3)))
            ctx.case((w.name, 'rawbytes', data))
            tie(line_frombytes(w, data), real_frombytes(w, data), [w.name, 'from_bytes(raw)', hx(data)])
        # out-of-range ints (prime fields take plain ints)
        if w.kind == 'prime':
            for v in (-1, 256 ** r, 256 ** r - 1, w.p, -w.p):
                ns = [0, v]
                ctx.case((w.name, 'overflow', v))
                tie(f'tobytes {w.q} ' + ','.join(map(str, ns)), real_tobytes(w, ns), [w.name, 'to_bytes(out of range)', v])
    # signed / unsigned views (prime fields)
    for w in [fc.field(p) for p in (2, 3, 5, 7, 11, 13, 17, 251, 257)] + [fc.field(fc.P64), fc.field(fc.P256), fc.field(fc.P255)]:
        els = range(w.q) if w.q <= 300 else [0, 1, w.q - 1, w.q // 2, w.q // 2 + 1, w.q // 2 - 1] + \
            [rng.randrange(w.q) for _ in range(ctx.scale(60, 2000))]
        for a in els:
            ctx.case((w.name, 'views', a))
            ctx.count('views')
            bad = views_failures(w, a)
            if bad:
                ctx.violation(f'{w.name} element {a}: ' + '; '.join(bad), {'kind': 'views', 'field': fdesc(w), 'a': a,
                                                                          'failed': bad})
            e = w.elem(a)
            tie(f'un signed {w.p} {a}', str(e.signed_()), [w.name, 'signed_', a])
            tie(f'un unsigned {w.p} {a}', str(e.unsigned_()), [w.name, 'unsigned_', a])
            tie(f'un int {w.p} {a}', str(int(e)), [w.name, 'int', a])
            tie(f'un abs {w.p} {a}', str(abs(e)), [w.name, 'abs', a])
        # int(F(x)) = x on the canonical signed range
        p = w.p
        lo, hi = -((p - 1) // 2), p // 2
        xs = range(lo, hi + 1) if p <= 300 else [lo, hi, 0, -1, 1] + [rng.randrange(lo, hi + 1) for _ in range(50)]
        for x in xs:
            ctx.case((w.name, 'int-roundtrip', x))
            if int(w.F(x)) != x:
                ctx.violation(f'{w.name}: int(F({x})) = {int(w.F(x))}', {'kind': 'int', 'field': fdesc(w), 'x': x})
    # pickling
    specs = []
    for p in (2, 3, 7, 11, 101, fc.P64, fc.P256):
        specs.append(['int', p])
        if p > 2:
            for w_ in (p - 1, 1, p + p - 1, -1, 13 * p + 5, rng.randrange(-10 * p, 10 * p)):
                specs.append(['tuple', p, 2, w_])
    nroot = finfields.find_prime_root(12, n=5)
    specs.append(['tuple'] + list(nroot))
    specs.append(['tuple', nroot[0], nroot[1], nroot[2] + 7 * nroot[0]])
    for spec in specs:
        p = int(spec[1])
        for a in sorted({0, 1, p - 1, rng.randrange(p), rng.randrange(p)}):
            ctx.case(('pickle', tuple(spec), a))
            ctx.count(f'pickle:{spec[0]}')
            bad = pickle_failures(spec, a)
            if bad:
                ctx.violation(f'GF{tuple(spec[1:])} element {a}: ' + '; '.join(bad),
                              {'kind': 'pickle', 'spec': spec, 'a': a, 'failed': bad})
            n_, w_ = (spec[2], spec[3]) if spec[0] == 'tuple' else (0, 0)
            tie(f'pickle {spec[0]} {p} {n_} {w_} {a % p}', pickle_real_line(spec, a), ['pickle', spec, a])
    for w in [f for f in fields if f.kind != 'prime']:
        for a in sorted({0, 1, w.q - 1, rng.randrange(w.q)}):
            ctx.case(('pickle', w.name, a))
            ctx.count('pickle:poly')
            bad = pickle_failures(['poly', w.p, w.mod], a)
            if bad:
                ctx.violation(f'{w.name} element {a}: ' + '; '.join(bad),
                              {'kind': 'pickle', 'spec': ['poly', w.p, w.mod], 'a': a, 'failed': bad})
    # extension fields built from a NON-MONIC irreducible modulus (c*f defines the same field as f; GF accepts it)
    for spec in (['poly', 3, [2, 0, 2]], ['poly', 5, [1, 0, 3]], ['poly', 7, [3, 0, 0, 5]], ['poly', 3, [2, 1, 0, 2]]):
        try:
            make_field(spec)
        except ValueError:
            continue          # not irreducible: not a field
        for a in (0, 1, 2, 5, 7):
            ctx.case(('pickle', tuple(map(str, spec)), a))
            ctx.count('pickle:poly-nonmonic')
            bad = pickle_failures(spec, a)
            if bad:
                ctx.violation(f'GF{tuple(spec[1:])} (non-monic modulus) element {a}: ' + '; '.join(bad),
                              {'kind': 'pickle', 'spec': spec, 'a': a, 'failed': bad})
                break
    for spec in (['int', 101], ['poly', 2, [1, 1, 0, 1, 1, 0, 0, 0, 1]], ['tuple', 7, 2, 6]):
        ctx.case(('pickle-after-many-fields', tuple(map(str, spec))))
        ctx.count('pickle:after-many-other-fields')
        bad = pickle_after_many_fields(spec, ctx.scale(160, 600))
        if bad:
            ctx.violation(f'GF{tuple(spec[1:])}: ' + '; '.join(bad), {'kind': 'pickle-history', 'spec': spec, 'failed': bad})
    out = common.LeanDriver('FinFld').run(lines)
    ctx.compare('to_bytes / from_bytes / byte_length / views / __reduce__', reals, out, meta)


def pickle_after_many_fields(spec, n_other):
    """history dependence: an element created EARLIER must still round-trip to the same class after many other fields of the
    same kind were created in the process (the class is not pickled: it is looked up again from (p, n, w) / the modulus)"""
    F = make_field(spec)
    e = F(3)
    blob = pickle.dumps(e)
    primes, x = [], 103
    while len(primes) < n_other:
        if all(x % q for q in range(2, int(x ** 0.5) + 1)):
            primes.append(x)
        x += 2
    if spec[0] == 'poly':
        poly = gfpx.GFpX(2)
        m_ = poly(2)
        for _ in range(n_other):
            m_ = poly.next_irreducible(m_)
            finfields.GF(m_)
    else:
        for q in primes:
            finfields.GF(q)
    bad = []
    for what, b in (('unpickled after the other fields', pickle.loads(blob)),
                    ('pickled and unpickled after the other fields', pickle.loads(pickle.dumps(e)))):
        if type(b) is not type(e):
            bad.append(f'{what}: class {type(b).__name__} is a different class object than the element\'s own field')
        try:
            if not (b == e) or (b + e).value != (e + e).value:
                bad.append(f'{what}: not equal to / not compatible with the original element')
        except TypeError as exc:
            bad.append(f'{what}: {type(exc).__name__}: {str(exc)[:80]}')
    return bad


def search(ctx):
    rng = ctx.subrng('search')
    for w in fc.small_fields() + fc.big_fields() + [fc.field(p) for p in (13, 127, 251, 257, 65521, 65537)]:
        for _ in range(60):
            ns = [rng.randrange(w.q) for _ in range(rng.randrange(0, 65))]
            ctx.case((w.name, 'bytes', tuple(ns)))
            bad = bytes_failures(w, ns)
            if bad:
                ctx.violation(f'{w.name} list {ns[:8]}..: ' + '; '.join(bad),
                              {'kind': 'bytes', 'field': fdesc(w), 'values': ns, 'failed': bad})
                return
        if w.kind == 'prime':
            for _ in range(200):
                a = rng.randrange(w.q)
                bad = views_failures(w, a) + pickle_failures(['int', w.p], a)
                if bad:
                    ctx.violation(f'{w.name} element {a}: ' + '; '.join(bad),
                                  {'kind': 'views', 'field': fdesc(w), 'a': a, 'failed': bad})
                    return


def replay(ctx, data):
    kind = data.get('kind')
    if kind == 'pickle-history':
        bad = pickle_after_many_fields(data['spec'], 600)
        return (not bad, f'GF{tuple(data["spec"][1:])} after 600 other fields: failed={bad}')
    if kind == 'pickle':
        bad = pickle_failures(data['spec'], int(data['a']))
        return (not bad, f'pickle GF{tuple(data["spec"][1:])} element {data["a"]}: failed={bad}')
    w = fc.field(data['field']['p'], data['field']['modulus'])
    if kind == 'bytes':
        bad = bytes_failures(w, [int(v) for v in data['values']])
        return (not bad, f'{w.name} bytes round trip: failed={bad}')
    if kind == 'views':
        bad = views_failures(w, int(data['a']))
        return (not bad, f'{w.name} views of {data["a"]}: failed={bad}')
    if kind == 'int':
        x = int(data['x'])
        return (int(w.F(x)) == x, f'{w.name}: int(F({x})) = {int(w.F(x))}')
    return (False, f'unknown replay kind {kind}')
