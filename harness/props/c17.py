"""C17 — the PRF is deterministic and its outputs lie in range.

Model: `byteLength`, `prfPost`, `prfCallE`, `shapeCount` of lean/MpycV/Model/Thresha.lean (the SHAKE-128 digest is
an input).  Theorems: MpycV.C17 (prf_range, prf_len, prf_len_shape, prf_prefix, prf_prefix_le, prf_deterministic,
prf_call_ok, prf_call_bound_zero, byteLength_one/_two_pow/_not_pow, bound_le_words, two_pow_dvd_words, spare_bytes).
Tie: the real thresha.PRF for random keys/inputs, bounds {1,2,3,100,2^16,2^16+1,2^127-1,2^128,...}, n in
{None,0,1,7,...} and shapes (numpy); the digest of an independent hashlib.shake_128 call (longer than needed) is
handed to the Lean driver which slices it with the model; byte_length compared through `blen`.
Oracle: independent reference (bit-length rule, little-endian words, % bound), range, length/shape, repeat calls,
fresh PRF objects, scalar = element 0, shape array = row-major reshape of the flat list.
"""
import hashlib
import os
import sys

sys.path.insert(0, os.path.dirname(os.path.dirname(os.path.abspath(__file__))))
import thresha_glue as G  # noqa: E402,F401
from thresha_glue import thresha, np, show_list, exc_name  # noqa: E402
import thresha_oracle as orc  # noqa: E402
import common  # noqa: E402

LEVEL = 'proof'
LEAN_MODULES = ['MpycV.Props.C17']
LEAN_NAMESPACES = ['MpycV.C17']
REQUIRED_THEOREMS = ['prf_range', 'prf_len', 'prf_len_shape', 'prf_prefix', 'prf_prefix_le', 'prf_deterministic',
                     'prf_call_ok', 'byteLength_one', 'byteLength_two_pow', 'byteLength_not_pow', 'bound_le_words',
                     'two_pow_dvd_words', 'spare_bytes']
RULE = ('case = (key bytes of length 0/1/16/32, bound, input bytes of length 0..20, n in {None, 0, 1, 2, 7, 33} or a '
        'numpy shape); bounds: 1, 2, 3, 100, 255, 256, 257, 2^16, 2^16+1, 2^127-1, 2^128, 2^k, 2^k +- 1, random; '
        'distinct = distinct (key, bound, input, n); non-trivial = bound >= 2 and n != 0')
ASSUMPTIONS = ['hashlib.shake_128 is a function of (key + s, length) with the XOF prefix property (trusted parameter `xof` of '
               'the model); the check recomputes it by an independent call and monitors the prefix property on every case',
               'numpy fromiter/reshape: row-major layout (validated by comparison with the flat list, not proved)']
TRUSTED = ['hashlib (OpenSSL/CPython SHAKE-128)']

BOUNDS = [1, 2, 3, 100, 255, 256, 257, 2**16, 2**16 + 1, 2**127 - 1, 2**128, 2**8 - 1, 2**31, 2**64 - 59, 7, 2**130 + 5]
SHAPES = [(), (0,), (1,), (3,), (2, 3), (2, 0, 3), (1, 1, 1), (4, 2)]


def n_desc(n):
    return list(n) if isinstance(n, tuple) else n


def flat(x):
    if np is not None and isinstance(x, np.ndarray):
        return [int(v) for v in x.reshape(-1).tolist()]
    if isinstance(x, list):
        return [int(v) for v in x]
    return int(x)


def one_case(ctx, key, bound, s, n, lines, impl, meta):
    rep = {'kind': 'prf', 'key': key.hex(), 'bound': bound, 's': s.hex(), 'n': n_desc(n)}
    ctx.case(('prf', key, bound, s, n), nontrivial=bound >= 2 and n != 0 and n != (0,))
    ctx.count('bound:' + ('pow2' if bound & (bound - 1) == 0 else 'other'))
    ctx.count('n:' + ('None' if n is None else ('shape' if isinstance(n, tuple) else 'int')))
    prf = thresha.PRF(key, bound)
    st, x = exc_name(prf, s, n)
    if st != 'ok':
        ctx.violation(f'PRF call raised {x}', dict(rep, observed=x))
        return
    if isinstance(n, tuple):
        count = 1
        for dim in n:
            count *= dim
    else:
        count = 1 if n is None else n
    want = orc.prf_reference(key, bound, s, count)
    # shape / length
    if isinstance(n, tuple):
        if not (np is not None and isinstance(x, np.ndarray) and x.shape == n):
            ctx.violation('PRF: shape request did not return an array of that shape',
                          dict(rep, expected=list(n), observed=repr(getattr(x, 'shape', type(x)))))
            return
        got = flat(x)
        # row-major consistency with the flat request
        if got != flat(prf(s, count)):
            ctx.violation('PRF: shape-s array is not the row-major reshape of the n = prod(s) list',
                          dict(rep, expected=flat(prf(s, count)), observed=got))
            return
    elif n is None:
        if isinstance(x, list):
            ctx.violation('PRF: n=None must return a single number', dict(rep, observed=repr(x)[:100]))
            return
        got = [int(x)]
    else:
        if not isinstance(x, list) or len(x) != n:
            ctx.violation('PRF: n values requested, different number returned',
                          dict(rep, expected=n, observed=len(x) if hasattr(x, '__len__') else repr(x)))
            return
        got = flat(x)
    if any(not (0 <= v < bound) for v in got):
        ctx.violation('PRF: output outside range(bound)', dict(rep, observed=got[:8]))
        return
    if got != want:
        ctx.violation('PRF: outputs differ from the SHAKE-128 reference (byte length rule / little-endian words / % bound)',
                      dict(rep, expected=want[:8], observed=got[:8]))
        return
    # determinism: same object again, fresh object
    again = flat(prf(s, n))
    fresh = flat(thresha.PRF(bytes(key), bound)(bytes(s), n))
    if again != flat(x) or fresh != flat(x):
        ctx.violation('PRF: repeated call gives a different result', dict(rep, expected=flat(x), observed=[again, fresh]))
        return
    # scalar consistent with element 0
    if count >= 1:
        x0 = int(prf(s))
        if x0 != got[0]:
            ctx.violation('PRF: scalar call differs from element 0 of the n-call', dict(rep, expected=got[0], observed=x0))
            return
    # model: byte_length and post-processing of an independently computed (longer) digest
    bits = (bound - 1).bit_length()
    generous = (bits + 7) // 8 + len(key) + 2
    dk = hashlib.shake_128(key + s).digest(max(1, count) * generous)
    if hashlib.shake_128(key + s).digest(5)[:3] != hashlib.shake_128(key + s).digest(3):
        ctx.violation('shake_128 prefix property fails', rep)
    lines.append(f'blen {bound} {len(key)}')
    impl.append(str(prf.byte_length))
    meta.append(rep)
    ntok = 'N' if n is None else str(count)
    lines.append(f'prf {bound} {len(key)} {ntok} {dk.hex() if dk else "-"}')
    impl.append(str(got[0]) if n is None else show_list(got))
    meta.append(rep)


def gen_cases(ctx, rng, total):
    for k in range(total):
        key = bytes(rng.getrandbits(8) for _ in range(rng.choice([16, 16, 16, 0, 1, 32])))
        if k < 4 * len(BOUNDS):
            bound = BOUNDS[k % len(BOUNDS)]
        else:
            e = rng.randrange(1, 140)
            bound = rng.choice([2**e, 2**e + 1, max(1, 2**e - 1), rng.randrange(1, 2**e + 1)])
        s = bytes(rng.getrandbits(8) for _ in range(rng.choice([0, 1, 8, 8, 20])))
        if k % 4 == 0:
            n = [None, 0, 1, 7][(k // 4) % 4]
        elif k % 4 == 3 and np is not None:
            n = rng.choice(SHAPES)
        else:
            n = rng.choice([None, 0, 1, 2, 7, 33])
        yield key, bound, s, n


def history_cases(ctx, rng, count=None):
    """determinism across a HISTORY of calls on one instance: every call must return what a fresh PRF object returns for the
    same (input, count), whatever was asked before (same input with larger / smaller / zero count, other inputs in between)"""
    for _ in range(count or ctx.scale(60, 600)):
        key = bytes(rng.getrandbits(8) for _ in range(16))
        bound = rng.choice([2, 3, 7, 2 ** 7, 2 ** 8, 2 ** 15, 101, 2 ** 31 - 1, 2 ** 61 - 1, 2 ** 64, 2 ** 127 + 1])
        prf = thresha.PRF(key, bound)
        inputs = [bytes(rng.getrandbits(8) for _ in range(rng.choice([0, 1, 8]))) for _ in range(2)]
        seq = []
        for _ in range(rng.randrange(2, 7)):
            seq.append((rng.choice(inputs) if rng.random() < 0.8 else inputs[0], rng.choice([None, 0, 1, 2, 3, 8, 8, 5, 1])))
        hist = []
        for s_, n in seq:
            st, x = exc_name(prf, s_, n)
            stf, xf = exc_name(thresha.PRF(bytes(key), bound), bytes(s_), n)
            hist.append([s_.hex(), n])
            ctx.case(('prf-history', key, bound, tuple(map(tuple, hist))), nontrivial=len(hist) > 1)
            ctx.count('history-call')
            a = x if st != 'ok' else (flat(x) if isinstance(x, list) else [int(x)])
            b = xf if stf != 'ok' else (flat(xf) if isinstance(xf, list) else [int(xf)])
            shape_ok = (st != 'ok') or (isinstance(x, list) == (n is not None)) and (n is None or len(x) == n)
            if a != b or not shape_ok:
                ctx.violation('PRF: the result of a call depends on the calls made before on the same object '
                              '(or has the wrong number of values)',
                              {'kind': 'prf-history', 'key': key.hex(), 'bound': bound, 'calls': hist,
                               'expected': b if isinstance(b, str) else b[:10], 'observed': a if isinstance(a, str) else a[:10]})
                return


def run(ctx):
    rng = ctx.rng
    lines, impl, meta = [], [], []
    for key, bound, s, n in gen_cases(ctx, rng, ctx.scale(1500, 15000)):
        one_case(ctx, key, bound, s, n, lines, impl, meta)
    # full grid of the bounds/n named in the design for one fixed key and the empty input (as in the unit test)
    key = bytes(range(16))
    for bound in BOUNDS:
        for n in [None, 0, 1, 7] + (SHAPES if np is not None else []):
            one_case(ctx, key, bound, b'', n, lines, impl, meta)
    history_cases(ctx, rng)
    # bound 0 (error behaviour, correspondence only)
    prf0 = thresha.PRF(key, 0)
    for n, tok in ((None, 'N'), (1, '1'), (0, '0')):
        st, x = exc_name(prf0, b'abc', n)
        lines.append(f'prf 0 16 {tok} 0102')
        impl.append(x if st == 'err' else show_list(flat(x)) if isinstance(x, list) else str(x))
        meta.append({'kind': 'prf-bound-zero', 'n': n})
    lines.append('blen 0 16')
    impl.append(str(prf0.byte_length))
    meta.append({'kind': 'blen-zero'})
    model = common.LeanDriver('Thresha').run(lines)
    ctx.compare('PRF vs MpycV.Thresha.byteLength/prfPost on independently computed SHAKE-128 digests', impl, model, meta)
    ctx.sample({'request': lines[1][:160], 'answer': impl[1][:160]})


def search(ctx):
    rng = ctx.subrng('search')
    for key, bound, s, n in gen_cases(ctx, rng, ctx.scale(20000, 100000)):
        one_case(ctx, key, bound, s, n, [], [], [])
        if ctx.violations:
            return


def replay(ctx, data):
    if data.get('kind') == 'prf-history':
        key, bound = bytes.fromhex(data['key']), int(data['bound'])
        prf = thresha.PRF(key, bound)
        for s_, n in data['calls']:
            st, x = exc_name(prf, bytes.fromhex(s_), n)
            stf, xf = exc_name(thresha.PRF(key, bound), bytes.fromhex(s_), n)
            a = x if st != 'ok' else (flat(x) if isinstance(x, list) else [int(x)])
            b = xf if stf != 'ok' else (flat(xf) if isinstance(xf, list) else [int(xf)])
            if a != b:
                return False, f'call ({s_}, {n}) after {data["calls"]} returns {str(a)[:80]}, a fresh object returns {str(b)[:80]}'
        return True, 'ok: results independent of the call history'
    if data.get('kind') != 'prf':
        return True, 'nothing to re-execute'
    n = data['n']
    n = tuple(n) if isinstance(n, list) else n
    before = len(ctx.violations)
    one_case(ctx, bytes.fromhex(data['key']), int(data['bound']), bytes.fromhex(data['s']), n, [], [], [])
    bad = ctx.violations[before:]
    del ctx.violations[before:]
    return (not bad), (bad[0][0] if bad else 'PRF agrees with the reference')
