"""C21 — field square roots and quadratic-residue tests are correct.

Model: PrimeF.sqrt/isSqr (+ gmpy stubs legendre/jacobi/powmod/invert), ExtF.sqrt/isSqr (Tonelli-Shanks),
BinF.sqrt/isSqr.  Theorems: MpycV.C21.  Tie: real `sqrt(INV=False/True)`, `is_sqr` vs the Lean driver on
every element.  Oracle: brute-force set of squares (Euler's criterion for big fields), result checked by
squaring / multiplying in the independent reference arithmetic.
"""
import os
import sys

sys.path.insert(0, os.path.dirname(os.path.dirname(os.path.abspath(__file__))))
import finfld_common as fc  # noqa: E402
import common  # noqa: E402

LEVEL = 'proof'
LEAN_MODULES = ['MpycV.Props.C21']
LEAN_NAMESPACES = ['MpycV.C21']
REQUIRED_THEOREMS = ['is_sqr_iff', 'is_sqr_euler', 'sqrt_zero_inv_raises', 'sqrt_blum', 'sqrt_blum_inv', 'sqrt_two',
                     'sqrt_cipolla_partial', 'ext_is_sqr_iff', 'ext_sqrt_zero_inv_raises', 'ext_sqrt_q3', 'ext_sqrt_q3_inv',
                     'ext_sqrt_ts_partial', 'bin_sqrt', 'bin_sqrt_inv']
RULE = ('case = (field, element, INV flag); EVERY element of every field of order q <= 128 (quick; all prime powers: '
        'p = 2, p = 3 mod 4, p = 1 mod 4, extension fields with q = 1 and 3 mod 4, binary fields) plus a seeded sample of '
        'fields with 128 < q <= 1000 (thorough: every q <= 500 and 64 sampled fields up to 1000), plus random squares x*x and random elements of '
        '64/255/256-bit primes (both residues mod 4), GF(2^8), GF(3^5), GF(5^4), GF(3^10), GF(2^16); is_sqr, sqrt, '
        'sqrt(INV=True) each compared real vs model, and real vs brute-force squares; distinct = distinct (field, element, op)')
EXPLANATION = ('proved for all inputs: is_sqr in every prime field (the jacobi stub equals the Legendre symbol), sqrt and '
               'sqrt(INV) for every prime p = 3 mod 4, p = 2, zero/INV raising; Cipolla-Lehmer branch (p = 1 mod 4): '
               'kernel-checked exhaustively for all 21 primes below 200, every element (`sqrt_cipolla_partial`), validated '
               'by correspondence + oracle beyond; extension fields (every prime, every irreducible modulus): is_sqr for odd q, '
               'sqrt and sqrt(INV) for q = 3 mod 4, zero/INV raising; binary fields: Frobenius root and its inverse; '
               'Tonelli-Shanks branch (q = 1 mod 4): kernel-checked for every element of GF(9), GF(25), GF(49), GF(81), GF(121), '
               'GF(125) (`ext_sqrt_ts_partial`), validated by correspondence + oracle beyond')
ASSUMPTIONS = ['gmpy2 modelled by the stubs of mpyc/gmpy.py (legendre = jacobi loop, powmod = built-in pow, invert = '
               'extended Euclid)', 'polynomial arithmetic of gfpx.py as modelled by area GFpX']
TRUSTED = ['harness/finfld_common.py', 'harness/finfld_oracle.py']
TIME_LIMIT = 10     # seconds per real-code call (a 256-bit sqrt takes milliseconds)


def fdesc(w):
    return {'p': w.p, 'modulus': w.mod}


def real_sqrt(w, a, inv):
    x = w.elem(a)
    try:
        with fc.time_limit(TIME_LIMIT):
            r = x.sqrt(INV=inv)
    except ZeroDivisionError:
        return 'ZeroDivisionError'
    except ValueError:
        return 'ValueError'
    except fc.RealCodeTimeout:
        return f'NO-RESULT-WITHIN-{TIME_LIMIT}s'
    if not w.reduced(r):
        return f'UNREDUCED:{r!r}'
    return w.txt(r)


def real_issqr(w, a):
    try:
        with fc.time_limit(TIME_LIMIT):
            r = w.elem(a).is_sqr()
    except fc.RealCodeTimeout:
        return f'NO-RESULT-WITHIN-{TIME_LIMIT}s'
    if r is True or r is False:
        return 'True' if r else 'False'
    return f'non-bool:{r!r}'


def parse_elem(w, txt):
    """canonical text -> oracle element"""
    if w.kind == 'ext':
        c = [] if txt == '-' else [int(t) for t in txt.split(',')]
        return w.O.from_poly(c + [0] * (w.d - len(c)))
    return w.oelem(int(txt))


def property_failures(w, a, issq, rt, rti):
    """C21 on one element given the real results (texts); returns list of failed clauses"""
    O = w.O
    x = w.oelem(a)
    bad = []
    sq = O.is_square(x)
    if issq != ('True' if sq else 'False'):
        bad.append(f'is_sqr={issq} but element is {"a" if sq else "not a"} square')
    if sq:
        try:
            r = parse_elem(w, rt)
            if O.mul(r, r) != x:
                bad.append(f'sqrt={rt}: square is {w.otxt(O.mul(r, r))}')
        except ValueError:
            bad.append(f'sqrt raised/returned {rt} for a square')
        if x == O.zero:
            if rti != 'ZeroDivisionError':
                bad.append(f'sqrt(0, INV=True) gave {rti} instead of ZeroDivisionError')
        else:
            try:
                ri = parse_elem(w, rti)
                if O.mul(O.mul(ri, ri), x) != O.one:
                    bad.append(f'sqrt(INV=True)={rti}: its square times a is {w.otxt(O.mul(O.mul(ri, ri), x))}, not 1')
            except ValueError:
                bad.append(f'sqrt(INV=True) raised/returned {rti} for a nonzero square')
    return bad


def fields_for(ctx):
    lim_all = 500 if ctx.thorough else 128
    fs = fc.prime_power_fields(lim_all)
    seen = {f.name for f in fs}
    more = [f for f in fc.prime_power_fields(1000) if f.name not in seen]
    rng = ctx.subrng('fields')
    picks = rng.sample(more, 60 if ctx.thorough else 8)
    # always some of each kind
    for want in (lambda f: f.kind == 'ext' and f.q % 4 == 1, lambda f: f.kind == 'ext' and f.q % 4 == 3,
                 lambda f: f.kind == 'bin', lambda f: f.kind == 'prime' and f.p % 4 == 1):
        c = [f for f in more if want(f)]
        if c:
            picks.append(rng.choice(c))
    for f in picks:
        if f.name not in seen:
            seen.add(f.name)
            fs.append(f)
    return fs


def big_jobs(ctx):
    rng = ctx.subrng('big')
    n = ctx.scale(40, 800)
    out = []
    bigs = [fc.field(fc.P64), fc.field(fc.P64B), fc.field(fc.P256), fc.field(fc.P255), fc.field(2, fc.AES),
            fc.field(3, fc.irreducible(3, 5)), fc.field(5, fc.irreducible(5, 4)), fc.field(3, fc.irreducible(3, 10)),
            fc.field(2, fc.irreducible(2, 16)), fc.field(7, fc.irreducible(7, 3))]
    for w in bigs:
        els = set([0, 1, w.q - 1])
        for _ in range(n):
            t = rng.randrange(w.q)
            els.add(t)
            if w.kind == 'prime':
                els.add(t * t % w.p)           # a square for sure
            else:
                e = w.O.from_int(t)
                els.add(w.O.to_int(w.O.mul(e, e)))
        out.append((w, sorted(els)))
    return out


def alt_modulus_fields(ctx):
    """fields of an order already used above, built from ANOTHER irreducible modulus (the second and third smallest): per-field
    state of the square-root code (cached non-residues, Tonelli-Shanks parameters) must not leak between fields of one order"""
    from mpyc import gfpx
    out = []
    for p, d in [(3, 2), (5, 2), (7, 2), (3, 4), (11, 2), (5, 3), (3, 3)] + ([(13, 2), (3, 6), (7, 3)] if ctx.thorough else []):
        poly = gfpx.GFpX(p)
        m = poly(irreducible_int(p, d))
        for _ in range(2):
            m = poly.next_irreducible(m)
            if m.degree() != d:
                break
            out.append(fc.field(p, list(m)))
    return out


def irreducible_int(p, d):
    from mpyc import finfields
    return finfields.find_irreducible(p, d)


def run(ctx):
    jobs = [(w, list(range(w.q))) for w in fields_for(ctx)] + big_jobs(ctx)
    jobs += [(w, list(range(w.q))) for w in alt_modulus_fields(ctx)]
    lines, meta, reals = [], [], []
    for w, els in jobs:
        ctx.count(f'field:{w.kind}:q%4={w.q % 4}')
        for a in els:
            issq = real_issqr(w, a)
            rt = real_sqrt(w, a, False)
            rti = real_sqrt(w, a, True)
            for op, r, ln in (('issqr', issq, w.line_issqr(a)), ('sqrt', rt, w.line_sqrt(a, False)),
                              ('sqrtinv', rti, w.line_sqrt(a, True))):
                ctx.case((w.name, op, a))
                lines.append(ln)
                reals.append(r)
                meta.append([w.name, op, a])
            ctx.count(f'{w.kind}:{"square" if issq == "True" else "non-square"}')
            bad = property_failures(w, a, issq, rt, rti)
            if bad:
                ctx.violation(f'{w.name} element {a}: ' + '; '.join(bad),
                              {'kind': 'sqrt', 'field': fdesc(w), 'a': a, 'is_sqr': issq, 'sqrt': rt, 'sqrt_inv': rti,
                               'failed': bad})
            if any(t.startswith('NO-RESULT') for t in (issq, rt, rti)):
                ctx.note(f'{w.name}: real code did not return within {TIME_LIMIT}s for element {a}; field abandoned')
                break
        ctx.sample({'field': w.name, 'a': els[len(els) // 2], 'sqrt': real_sqrt(w, els[len(els) // 2], False)})
    out = common.LeanDriver('FinFld').run(lines)
    ctx.compare('sqrt / sqrt(INV) / is_sqr', reals, out, meta)


def search(ctx):
    rng = ctx.subrng('search')
    fs = fc.prime_power_fields(1000)
    rng.shuffle(fs)
    for w in fs[:80]:
        for a in range(w.q):
            ctx.case((w.name, 'search', a))
            bad = property_failures(w, a, real_issqr(w, a), real_sqrt(w, a, False), real_sqrt(w, a, True))
            if bad:
                ctx.violation(f'{w.name} element {a}: ' + '; '.join(bad),
                              {'kind': 'sqrt', 'field': fdesc(w), 'a': a, 'failed': bad})
                return


def replay(ctx, data):
    w = fc.field(data['field']['p'], data['field']['modulus'])
    a = int(data['a'])
    bad = property_failures(w, a, real_issqr(w, a), real_sqrt(w, a, False), real_sqrt(w, a, True))
    return (not bad, f'{w.name} element {a}: failed={bad}')
