"""C15 — pseudorandom secret sharing is consistent for every key assignment.

Model: `fSi`, `prssShare`, `prssZero` of lean/MpycV/Model/Thresha.lean.  Theorems: MpycV.C15 (fS_spec,
prss_consistent, prss_zero_consistent, their modP versions, outside_count, prss_length).
Tie: the real pseudorandom_share / pseudorandom_share_zero (+ np_ variants) are called for EVERY party with the
keys it would hold (random 16-byte keys per subset, real PRF objects, random uci bytes); the PRF outputs are
handed to the Lean driver which computes each party's share with the model.  Independent oracle: the shares
of all parties must lie on a polynomial of degree <= t (<= 2t for zero sharings) whose value at 0 is the sum of
the subset PRF outputs (resp. 0), the PRF outputs being recomputed by an independent SHAKE-128 reference, and
each share must equal sum_S r_S * prod_{j not in S} (j+1-x)/(j+1) at x = i+1 (product formula for f_S).
"""
import itertools
import os
import sys

sys.path.insert(0, os.path.dirname(os.path.dirname(os.path.abspath(__file__))))
import thresha_glue as G  # noqa: E402
from thresha_glue import Fld, thresha, np, show_list, exc_name  # noqa: E402
import thresha_oracle as orc  # noqa: E402
import common  # noqa: E402

LEVEL = 'proof'
LEAN_MODULES = ['MpycV.Props.C15', 'MpycV.PropsGen.C15Src']   # + source tie of thresha.py (see props/c12.py)
LEAN_NAMESPACES = ['MpycV.C15', 'MpycV.C15Src']
REQUIRED_THEOREMS = ['fS_spec', 'prss_consistent', 'prss_zero_consistent', 'prss_consistent_modP',
                     'prss_zero_consistent_modP', 'outside_count', 'prss_length',
                     # source tie (PropsGen/C15Src.lean, generated from the current thresha.py)
                     'f_S_i_src_eq', 'pseudorandom_share_src_eq', 'pseudorandom_share_zero_src_eq']
RULE = ('case = (field, m, t with 2t < m, key per subset of size m-t (random 16 bytes), PRF bound (field order, 2, 2^k), '
        'uci bytes, batch size n in {0,1,5}, function share/zero, variant list/np, order of the prfs dict); every party '
        'is run; fields GF(7), GF(11), GF(2^3), GF(3^2), GF(2^4) (Lean via tables), 64/128-bit primes (Lean via modP), '
        'GF(2^8), GF(3^5) (oracle only); all (m,t) <= 5 in quick (m <= 7 thorough, some 6/7 in quick); distinct = '
        '(field, m, t, keys, uci, n, function, variant); non-trivial = t >= 1 and n >= 1')
ASSUMPTIONS = ['the keys held by party i are exactly those of the subsets containing i (C16)',
               'PRF outputs are arbitrary values to the theorems (any key assignment); SHAKE-128 itself is trusted (C17)',
               'np_ variants: numpy object-array semantics; covered by correspondence/oracle only']
TRUSTED = ['harness/thresha_oracle.py prf_reference / lagrange_at / product formula for f_S']


_FS_CACHE = {}


def f_S_at(F, m, S, x):
    """textbook f_S(x) = prod_{j not in S} (j+1 - x)/(j+1)"""
    key = (F.name, m, tuple(S), x)
    if key not in _FS_CACHE:
        _FS_CACHE[key] = _f_S_at(F, m, S, x)
    return _FS_CACHE[key]


def _f_S_at(F, m, S, x):
    of = F.of
    r = of.from_int(1)
    for j in range(m):
        if j not in S:
            xj = of.from_int(j + 1)
            r = of.mul(r, of.mul(of.sub(xj, x), of.inv(xj)))
    return r


def make_keys(rng, m, t):
    return {S: bytes(rng.getrandbits(8) for _ in range(16)) for S in itertools.combinations(range(m), m - t)}


def party_prfs(rng, keys, i, bound, shuffle):
    items = [(S, k) for S, k in keys.items() if i in S]
    if shuffle:
        rng.shuffle(items)
    return {S: thresha.PRF(k, bound) for S, k in items}


def run_config(ctx, rng, F, m, t, bound, n, fn, variant, lines, impl, meta, keys=None, uci=None, shuffle=None):
    """one key assignment, all parties; fn in {'share', 'zero'}"""
    f = F.field
    if keys is None:
        keys = make_keys(rng, m, t)
        uci = bytes(rng.getrandbits(8) for _ in range(rng.choice([0, 1, 8, 8])))
        shuffle = rng.random() < 0.5
    d = t
    count = n if fn == 'share' else n * d
    real = {'share': {'list': thresha.pseudorandom_share, 'np': thresha.np_pseudorandom_share},
            'zero': {'list': thresha.pseudorandom_share_zero, 'np': thresha.np_pseudorandom_share_0}}[fn][variant]
    rep = {'kind': 'prss', 'field': F.desc(), 'm': m, 't': t, 'bound': bound, 'n': n, 'fn': fn, 'variant': variant,
           'keys': [[list(S), k.hex()] for S, k in keys.items()], 'uci': uci.hex(), 'shuffle': shuffle}
    ctx.case(('prss', F.name, m, t, bound, n, fn, variant, tuple(sorted(k.hex() for k in keys.values())), uci),
             nontrivial=t >= 1 and n >= 1)
    ctx.count(f'{fn}:{variant}:m{m}t{t}')
    ctx.count(f'field:{F.name}')
    ctx.count(f'n:{n}')
    # independent PRF outputs
    r_ref = {S: orc.prf_reference(k, bound, uci, count) for S, k in keys.items()}
    # coefficient layout: both variants evaluate sum_j r[h*d+j] x^(d-j) (the list variant by Horner, np_pseudorandom_share_0 as
    # r.reshape(n,d) @ [x^d..x^1] since repo fix d7e87af; before that the np variant used the reversed order x^1..x^d, so that
    # the two variants gave different zero sharings for t >= 2)
    rev = False

    def blk(prl):
        prl = [int(v) for v in prl]
        if not rev:
            return prl
        return [prl[h * d + (d - 1 - j)] for h in range(n) for j in range(d)]
    r_ref = {S: blk(v) for S, v in r_ref.items()}
    shares = []
    for i in range(m):
        prfs = party_prfs(rng, keys, i, bound, shuffle)
        st, res = exc_name(real, f, m, i, prfs, uci, n)
        if st != 'ok':
            ctx.violation(f'{real.__name__} raised {res}', dict(rep, party=i, observed=res))
            return
        res = F.canon_list(res)
        if len(res) != n:
            ctx.violation(f'{real.__name__} returned {len(res)} shares for n = {n}', dict(rep, party=i, observed=res))
            return
        shares.append(res)
        if F.lean is not None:
            ents = []
            for S, prf in prfs.items():
                st_p, prl = exc_name(prf, uci, count)      # outputs of the real PRF handed to the model
                if st_p != 'ok':
                    ctx.violation(f'PRF call raised {prl}', dict(rep, party=i, observed=prl))
                    return
                ents.append(show_list(list(S)) + ':' + show_list(blk(prl)))
            lines.append(f'{"prss" if fn == "share" else "prss0"} {m} {i} {n} ' + ('|'.join(ents) if ents else '-'))
            impl.append(show_list(res))
            meta.append(dict(rep, party=i))
    of = F.of
    for h in range(n):
        pts = [(of.from_int(i + 1), shares[i][h]) for i in range(m)]
        if fn == 'share':
            deg, secret = t, of.sum(of.from_int(r_ref[S][h]) for S in keys)
        else:
            deg, secret = 2 * t, 0
        if not orc.degree_at_most(of, pts, deg):
            ctx.violation(f'{real.__name__}: the shares of the {m} parties do not lie on a polynomial of degree <= {deg}',
                          dict(rep, entry=h, expected=f'degree <= {deg}', observed=[s[h] for s in shares]))
            return
        got0 = orc.lagrange_at(of, pts[:deg + 1], of.from_int(0))
        if got0 != secret:
            ctx.violation(f'{real.__name__}: the shared value is not ' +
                          ('the sum of the subset PRF outputs' if fn == 'share' else '0'),
                          dict(rep, entry=h, expected=secret, observed=got0, shares=[s[h] for s in shares]))
            return
        # exact expected share through the product formula for f_S
        for i in range(m):
            x = of.from_int(i + 1)
            tot = 0
            for S in keys:
                if fn == 'share':
                    g = of.from_int(r_ref[S][h])
                else:
                    g = 0
                    for j in range(d):      # sum_j r[h*d+j] x^(d-j)
                        g = of.add(g, of.mul(of.from_int(r_ref[S][h * d + j]), of.pow(x, d - j)))
                tot = of.add(tot, of.mul(g, f_S_at(F, m, S, x)))
            if tot != shares[i][h]:
                ctx.violation(f'{real.__name__}: share of party {i} differs from sum_S g_S(i+1) f_S(i+1)',
                              dict(rep, entry=h, party=i, expected=tot, observed=shares[i][h]))
                return
    return shares


def configs(ctx):
    mt = [(m, t) for m in range(1, 6) for t in range(0, m) if 2 * t < m]
    if ctx.thorough:
        mt += [(m, t) for m in (6, 7) for t in range(0, m) if 2 * t < m]
    else:
        mt += [(6, 2), (7, 3), (7, 1)]
    return mt


def generate(ctx):
    """source translator tie shared with C12: regenerate lean/MpycV/Generated/ThreshaSrc.lean from the current source"""
    from props import c12
    c12.generate(ctx)


def run(ctx):
    rng = ctx.rng
    flds = [Fld(7), Fld(11), Fld(2, 3), Fld(3, 2), Fld(2, 4), Fld(G.P64), Fld(G.P128), Fld(2, 8), Fld(3, 5)]
    batches = []
    reps = ctx.scale(1, 4)
    for F in flds:
        lines, impl, meta = [], [], []
        for m, t in configs(ctx):
            if m >= F.q:
                continue
            for _ in range(reps):
                for n in (0, 1, 5):
                    for fn in ('share', 'zero'):
                        if n == 0 and rng.random() < 0.5:
                            continue
                        bounds = [F.q]
                        if fn == 'share' and F.d == 1:
                            bounds += [2, 2**rng.choice([8, 31, 70])]   # random bits / s_field-t_field style bounds
                        bound = rng.choice(bounds)
                        variants = ['list'] + (['np'] if np is not None else [])
                        state = rng.getstate()
                        for variant in variants:
                            rng.setstate(state)       # identical keys/uci for the list and the np variant
                            res = run_config(ctx, rng, F, m, t, bound, n, fn, variant, lines, impl, meta)
                            if res is None and ctx.violations:
                                break
                            if variant == 'list':
                                first = res
                            elif fn == 'zero' and t >= 2:
                                ctx.count('zero-sharing-np-vs-list-layout-differs(not compared)')
                            elif res != first:
                                ctx.violation('list and np variants of pseudorandom sharing disagree',
                                              {'kind': 'prss-variants', 'field': F.desc(), 'm': m, 't': t, 'n': n,
                                               'fn': fn, 'bound': bound, 'expected': first, 'observed': res})
        batches.append((F, lines, impl, meta))
    req, exp, info = [], [], []
    for F, lines, impl, meta in batches:
        if F.lean is None or not lines:
            continue
        req.append(F.lean)
        exp.append('ok')
        info.append({'field': F.name})
        req += lines
        exp += impl
        info += meta
    ctx.note('list and array variants of the PRSS functions are checked against ONE oracle layout and one Lean model '
             '(np_pseudorandom_share_0 used the reversed coefficient order before repo fix d7e87af)')
    model = common.LeanDriver('Thresha').run(req)
    ctx.compare('pseudorandom_share(_zero) of every party vs MpycV.Thresha.prssShare/prssZero', exp, model, info)
    if req:
        ctx.sample({'request': req[-1][:300], 'answer': exp[-1][:200]})
    # f_S_i itself (correspondence + product-formula oracle)
    F = Fld(11)
    lines, impl, meta = [F.lean], ['ok'], [{}]
    for m in range(1, ctx.scale(6, 8)):
        for t in range(0, m):
            if 2 * t >= m:
                continue
            for S in itertools.combinations(range(m), m - t):
                for i in range(m):
                    st, v = exc_name(thresha._f_S_i, F.field, m, i, S)
                    v = F.canon(v) if st == 'ok' else v
                    want = f_S_at(F, m, S, F.of.from_int(i + 1))
                    ctx.count('f_S_i')
                    if v != want:
                        ctx.violation('_f_S_i is not the polynomial that is 1 at 0 and 0 outside S',
                                      {'kind': 'fsi', 'field': F.desc(), 'm': m, 'i': i, 'S': list(S),
                                       'expected': want, 'observed': v})
                    lines.append(f'fsi {m} {i} {show_list(list(S))}')
                    impl.append(str(v))
                    meta.append({'m': m, 'i': i, 'S': list(S)})
    model = common.LeanDriver('Thresha').run(lines)
    ctx.compare('_f_S_i vs MpycV.Thresha.fSi', impl, model, meta)
    runtime_threshold_change(ctx)


def runtime_threshold_change(ctx):
    """PRSS inside the runtime across a change of mpc.threshold (two sessions in one process): the PRFs must belong to the
    keys of the CURRENT threshold, otherwise the parties' pseudorandom shares are inconsistent.  Uses the share-consistency
    machinery of C11 (harness/props/c11.py two_sessions)."""
    from props import c11
    rng = ctx.subrng('threshold-change')
    ctx._max_lines = 0
    for (m, t1, t2) in [(3, 1, 0), (5, 2, 1)] + ([(5, 1, 2), (4, 1, 0), (7, 3, 2)] if ctx.thorough else []):
        seed = rng.randrange(10**9)
        msg = c11.two_sessions(ctx, 'arith', m, t1, t2, seed, [], [], [])
        ctx.count('runtime-threshold-change')
        if msg:
            ctx.violation('C15: PRSS after a threshold change: ' + msg,
                          {'kind': 'two-sessions', 'program': 'arith', 'm': m, 't': t1, 't2': t2, 'seed': seed})
            return


def fsi_sweep(ctx):
    """oracle-only: _f_S_i against the product formula for all (m, t, S, i), m <= 6, GF(11)"""
    F = Fld(11)
    for m in range(1, 7):
        for t in range(0, m):
            if 2 * t >= m:
                continue
            for S in itertools.combinations(range(m), m - t):
                for i in range(m):
                    st, v = exc_name(thresha._f_S_i, F.field, m, i, S)
                    v = F.canon(v) if st == 'ok' else v
                    want = f_S_at(F, m, S, F.of.from_int(i + 1))
                    if v != want:
                        ctx.violation('_f_S_i is not the polynomial that is 1 at 0 and 0 outside S',
                                      {'kind': 'fsi', 'field': F.desc(), 'm': m, 'i': i, 'S': list(S),
                                       'expected': want, 'observed': v})
                        return


def search(ctx):
    try:
        from props import c12
        changed = [f for f in c12.changed_functions() if f in ('f_S_i', 'pseudorandom_share', 'pseudorandom_share_zero',
                                                               'recombine_one', 'recombination_vector')]
        if changed:
            ctx.note('source tie: translation differs from the mirror for ' + ', '.join(changed))
    except Exception as exc:  # noqa: BLE001
        ctx.note(f'source tie status unavailable: {exc}')
    fsi_sweep(ctx)
    if ctx.violations:
        return
    rng = ctx.subrng('search')
    flds = [Fld(7), Fld(11), Fld(3, 2), Fld(G.P64), Fld(2, 8)]
    for _ in range(ctx.scale(300, 3000)):
        F = rng.choice(flds)
        m = rng.randrange(1, min(F.q - 1, 7) + 1)
        t = rng.randrange(0, (m + 1) // 2)
        if 2 * t >= m:
            continue
        run_config(ctx, rng, F, m, t, F.q, rng.choice([1, 2, 5]), rng.choice(['share', 'zero']),
                   rng.choice(['list', 'np'] if np is not None else ['list']), [], [], [])
        if ctx.violations:
            return


def replay(ctx, data):
    import random
    if data.get('kind') == 'fsi':
        F = Fld.from_desc(data['field'])
        m, i, S = int(data['m']), int(data['i']), tuple(int(x) for x in data['S'])
        v = F.canon(thresha._f_S_i(F.field, m, i, S))
        want = f_S_at(F, m, S, F.of.from_int(i + 1))
        return v == want, f'_f_S_i -> {v}, product formula -> {want}'
    if data.get('kind') == 'two-sessions':
        from props import c11
        ctx._max_lines = 0
        msg = c11.two_sessions(ctx, data['program'], data['m'], data['t'], data['t2'], data['seed'], [], [], [])
        return msg is None, msg or 'ok'
    if data.get('kind') != 'prss':
        return True, 'nothing to re-execute'
    F = Fld.from_desc(data['field'])
    m, t, n = int(data['m']), int(data['t']), int(data['n'])
    bound = int(data['bound'])
    keys = {tuple(int(x) for x in S): bytes.fromhex(k) for S, k in data['keys']}
    uci = bytes.fromhex(data['uci'])

    before = len(ctx.violations)
    run_config(ctx, random.Random(0), F, m, t, bound, n, data['fn'], data['variant'], [], [], [],
               keys=keys, uci=uci, shuffle=bool(data.get('shuffle')))
    bad = ctx.violations[before:]
    del ctx.violations[before:]
    return (not bad), (bad[0][0] if bad else 'all parties consistent')
