"""C08 — results and termination do not depend on the schedule.

Model: lean/MpycV/Model/Pc.lean (program-counter machine); theorems MpycV.C08: wrapped_frame, run_eq_den
(operational = denotational labelling), labels_schedule_independent, nonWF_counterexample (shape of F1),
siblings_distinct.
Tie: (a) skeleton replay — every fork / PRSS input / send / receive label of every task of every party in
real simulator runs is reproduced by the Lean machine (with CPython's tuple hash as hop) from the recorded
step structure alone; (b) well-formedness monitor — no coroutine without own program counter performs a
pc-action in its task body (hypothesis WFRun of the theorems; this is what F1 violated);
(c) schedule exploration with an independent oracle: all parties complete and produce the outputs of the
reference schedule under adversarial per-party interleavings, delays and byte-stream chunkings
(thorough: plus exhaustive enumeration of all schedules up to a bounded number of choice points).
Termination for all programs is NOT proved (progress_partial: the wait-for acyclicity of a program is a
hypothesis); it is explored.
"""
import os
import sys
sys.path.insert(0, os.path.dirname(os.path.dirname(os.path.abspath(__file__))))
import simnet
from simnet import SimNet, Scheduler, Deadlock, PartyError
import obs
import programs
import common

LEVEL = 'other'
LEAN_MODULES = ['MpycV.Props.C08']
LEAN_NAMESPACES = ['MpycV.C08']
REQUIRED_THEOREMS = ['wrapped_frame', 'run_eq_den', 'labels_schedule_independent', 'nonWF_counterexample',
                     'siblings_distinct']
RULE = ('case = (program of the corpus, m, t, PRSS on/off, scheduler mode in {random, starve, lazynet, eagernet}, seed); '
        'every scheduling choice (which party runs its next ready handle, which channel delivers how many bytes) comes '
        'from the seeded scheduler and is recorded; distinct = distinct (program, cfg, schedule trace hash); '
        'non-trivial = m >= 2 and the trace differs from the reference schedule')
EXPLANATION = ('PROVED (Lean, all programs/schedules): label determinism — in every well-formed run the labels of all '
               'messages, forks and PRSS inputs of every task are a function of the per-task action sequences only '
               '(run_eq_den, labels_schedule_independent), the frame rule, necessity of the well-formedness condition '
               '(nonWF_counterexample), sibling pcs distinct under an injective hop. TIED to the code on every run by exact '
               'label replay through the Lean machine and by the well-formedness monitor. VALIDATED ONLY (exploration): '
               'completion of all parties and equality of outputs across schedules (Kahn-style determinacy and progress '
               'are not proved in general: progress depends on the program).')
ASSUMPTIONS = ['asyncio: a task step is atomic, ready handles of one party run FIFO, await on a completed future does not '
               'yield (enforced by harness/simnet.py)',
               '_hop = CPython hash of a 2-tuple of ints (re-implemented in the model, compared on every fork)',
               'hop collisions between different tasks are not excluded by proof; the wire monitor of C09 checks label '
               'uniqueness per run']
MODES = ['random', 'starve', 'lazynet', 'eagernet']


def cfg_list(ctx):
    base = [(2, 0, False), (3, 1, False), (3, 1, True), (4, 1, False), (5, 2, False)]
    if ctx.thorough:
        base += [(3, 0, False), (5, 1, True), (5, 2, True), (6, 2, False), (7, 3, False), (7, 2, True)]
    return base


def run_once(name, m, t, no_prss, seed, mode, replay=None, record=False, max_steps=1_500_000):
    prog = programs.PROGRAMS[name][0]()
    sched = Scheduler(seed, mode, replay=replay) if mode != 'ref' else Scheduler(seed, 'fifo', chunk_mode='whole')
    net = SimNet(m, t, no_prss=no_prss, seed=seed if mode != 'ref' else 0, sched=sched, max_steps=max_steps)
    rec = obs.Recorder(m, track_pc=True) if record else None
    try:
        if rec:
            with rec:
                res = net.run(prog)
        else:
            res = net.run(prog)
        return 'ok', res, net, rec
    except Deadlock as exc:
        return 'deadlock', str(exc)[:400], net, rec
    except PartyError as exc:
        return 'error', str(exc)[:400], net, rec


def usable(name, m, no_prss):
    tags = programs.PROGRAMS[name][1]
    if 'np' in tags:
        try:
            import numpy  # noqa: F401
        except ImportError:
            return False
    return True


def run(ctx):
    rng = ctx.rng
    names = [n for n in programs.PROGRAMS]
    n_sched = ctx.scale(10, 120)
    lines, exps, metas = [], [], []
    refs = {}
    for (m, t, no_prss) in cfg_list(ctx):
        for name in names:
            if not usable(name, m, no_prss):
                continue
            # reference schedule (also: same randomness seed 0 -> outputs must not depend on it either)
            st, ref, net, _ = run_once(name, m, t, no_prss, 0, 'ref')
            if st != 'ok':
                ctx.violation(f'C08: program {name} fails under the reference schedule ({st}): {ref}',
                              {'kind': 'schedule', 'program': name, 'm': m, 't': t, 'no_prss': no_prss,
                               'seed': 0, 'mode': 'ref'})
                return
            refs[(name, m, t, no_prss)] = ref
            for k in range(n_sched if m <= 3 else max(2, n_sched // 3)):
                seed = rng.randrange(10**9)
                mode = MODES[k % len(MODES)]
                record = (k == 0)
                st, res, net, rec = run_once(name, m, t, no_prss, seed, mode, record=record)
                ctx.case((name, m, t, no_prss, hash(tuple(net.sched.trace))), nontrivial=m >= 2)
                ctx.count('program:' + name)
                ctx.count(f'cfg:m{m}t{t}{"np" if no_prss else ""}')
                ctx.count('mode:' + mode)
                rep = {'kind': 'schedule', 'program': name, 'm': m, 't': t, 'no_prss': no_prss, 'seed': seed,
                       'mode': mode, 'trace_len': len(net.sched.trace)}
                if st != 'ok':
                    rep['trace'] = net.sched.trace[:20000]
                    ctx.violation(f'C08: program {name} m={m} t={t} does not complete under schedule ({mode},{seed}): '
                                  f'{st}: {res}', rep)
                    return
                if res != ref:
                    rep['trace'] = net.sched.trace[:20000]
                    rep['expected'], rep['observed'] = ref, res
                    ctx.violation(f'C08: outputs of {name} m={m} t={t} differ from the reference schedule', rep)
                    return
                if record:
                    for p in range(m):
                        req, exp, wf = obs.to_steps(rec.ev[p])
                        if req is None:
                            ctx.count('replay-skipped:' + exp)
                            continue
                        lines.append(req)
                        exps.append(exp)
                        metas.append(f'{name} m={m} t={t} party {p} seed {seed}')
                        if wf:
                            ctx.mismatch(f'well-formedness: a coroutine without own program counter performs a pc-action '
                                         f'in its task body ({wf[0][1]}) in program {name}',
                                         {'kind': 'wf', 'program': name, 'm': m, 't': t, 'no_prss': no_prss,
                                          'what': [w[1] for w in wf[:5]]})
                    if len(ctx.samples) < 2:
                        ctx.sample({'program': name, 'm': m, 't': t, 'seed': seed, 'mode': mode,
                                    'steps_request_prefix': lines[-1][:300]})
    model = common.LeanDriver('Pc').run(lines)
    ctx.compare('label replay (runtime labels vs MpycV.Pc machine)', exps, model, metas)
    if ctx.thorough:
        exhaustive(ctx)


def exhaustive(ctx, depth=9):
    """All schedules of tiny programs up to `depth` choice points (rest: reference policy)."""
    for name, (m, t) in (('f1', (3, 1)), ('output_subset', (2, 0)), ('barrier', (2, 0))):
        st, ref, _, _ = run_once(name, m, t, False, 0, 'ref')
        stack = [[]]
        n = 0
        while stack and n < 60000:
            prefix = stack.pop()
            prog = programs.PROGRAMS[name][0]()
            sched = Scheduler(0, 'fifo', replay=prefix, chunk_mode='whole')
            net = SimNet(m, t, seed=0, sched=sched, max_steps=400000)
            try:
                res = net.run(prog)
                ok = res == ref
                why = 'outputs differ'
            except (Deadlock, PartyError) as exc:
                ok, why = False, str(exc)[:300]
            n += 1
            ctx.case(('dfs', name, tuple(prefix)))
            if not ok:
                ctx.violation(f'C08: exhaustive schedule enumeration: {name} fails: {why}',
                              {'kind': 'schedule', 'program': name, 'm': m, 't': t, 'no_prss': False, 'seed': 0,
                               'mode': 'fifo', 'trace': prefix})
                return
            if len(prefix) < depth and len(sched.widths) > len(prefix):
                w = sched.widths[len(prefix)]
                for c in range(w):
                    if c != sched.trace[len(prefix)] or True:
                        stack.append(prefix + [c])
        ctx.count(f'dfs:{name}', n)


def search(ctx):
    rng = ctx.subrng('search')
    names = list(programs.PROGRAMS)
    for k in range(ctx.scale(1500, 10000)):
        name = names[k % len(names)]
        m, t, no_prss = rng.choice(cfg_list(ctx))
        if not usable(name, m, no_prss):
            continue
        key = (name, m, t, no_prss)
        st, ref, _, _ = run_once(name, m, t, no_prss, 0, 'ref')
        seed = rng.randrange(10**9)
        mode = rng.choice(MODES)
        st2, res, net, _ = run_once(name, m, t, no_prss, seed, mode)
        if st != 'ok' or st2 != 'ok' or res != ref:
            ctx.violation(f'C08: {name} m={m} t={t}: {st2}: {res if st2 != "ok" else "outputs differ"}',
                          {'kind': 'schedule', 'program': name, 'm': m, 't': t, 'no_prss': no_prss, 'seed': seed,
                           'mode': mode, 'trace': net.sched.trace[:20000]})
            return


def replay(ctx, data):
    name, m, t, no_prss = data['program'], data['m'], data['t'], data['no_prss']
    st, ref, _, _ = run_once(name, m, t, no_prss, 0, 'ref')
    if st != 'ok':
        return False, f'reference schedule: {st}: {ref}'
    mode = data.get('mode', 'random')
    if mode == 'ref':
        return True, 'ok'
    st, res, _, _ = run_once(name, m, t, no_prss, data['seed'], mode if mode != 'fifo' else 'fifo',
                             replay=data.get('trace') if mode == 'fifo' else None)
    if st != 'ok':
        return False, f'{st}: {res}'
    return res == ref, 'ok' if res == ref else f'outputs differ: {res} vs {ref}'
