"""C09 — every message is labelled uniquely and consumed exactly once.

Theorems MpycV.C09: exactly_once / all_consumed (any interleaving of arrivals and receive calls with
unique labels leaves a label in `buffers` iff exactly one of its two events happened), kind_after,
sends_share_label; plus C07 (no repeated peer per primitive) and C08.siblings_distinct.
Tie: for every endpoint of every connection in real multi-party runs (program corpus x adversarial
schedules and chunkings) the observed sequence of data_received chunks and receive() calls is replayed
through the Lean frame model (driver Frame) and must end in the same state as the real endpoint.
Oracle (independent frame parser on the raw wire bytes): labels unique per directed connection; frames
sent = receives performed, label by label; after shutdown every endpoint has empty `buffers` and no
leftover bytes.  Uniqueness across different coroutines relies on the 64-bit hop being collision free
on the pcs of a run (not provable; this monitor checks it on every run).
"""
import math
import os
import sys
sys.path.insert(0, os.path.dirname(os.path.dirname(os.path.abspath(__file__))))
import simnet
from simnet import SimNet, Scheduler, Deadlock, PartyError, asyncoro, parse_frames
import programs
import common
from props import c08

LEVEL = 'proof'
LEAN_MODULES = ['MpycV.Props.C09']
LEAN_NAMESPACES = ['MpycV.C09']
REQUIRED_THEOREMS = ['exactly_once', 'all_consumed', 'kind_after', 'sends_share_label']
RULE = ('case = one directed connection endpoint in a run (program of the corpus, m, t, PRSS on/off, scheduler mode, seed); '
        'distinct = distinct (program, cfg, seed, endpoint); non-trivial = at least two frames on the connection')
ASSUMPTIONS = ['label uniqueness across different coroutines assumes the 64-bit hop (CPython tuple hash) has no collision on the '
               'program counters of a run: monitored on the wire in every run, not proved',
               'sender/receiver lists without repetitions (hypothesis shared with C07)']


def hx(b):
    return bytes(b).hex() if len(b) else '-'


class EndpointLog:
    """Patches MessageExchanger.data_received / receive to log the op order per endpoint."""

    def __enter__(self):
        self.ops = {}
        self.o_dr = asyncoro.MessageExchanger.data_received
        self.o_rc = asyncoro.MessageExchanger.receive
        log = self

        def data_received(ex, data):
            log.ops.setdefault(id(ex), (ex, []))[1].append('f:' + hx(data))
            return log.o_dr(ex, data)

        def receive(ex, pc):
            log.ops.setdefault(id(ex), (ex, []))[1].append(f'r:{pc}')
            return log.o_rc(ex, pc)
        asyncoro.MessageExchanger.data_received = data_received
        asyncoro.MessageExchanger.receive = receive
        return self

    def __exit__(self, *exc):
        asyncoro.MessageExchanger.data_received = self.o_dr
        asyncoro.MessageExchanger.receive = self.o_rc
        return False


def run_case(name, m, t, no_prss, seed, mode, no_barrier=False):
    prog = FIRE_AND_FORGET if name == 'fire_and_forget' else programs.PROGRAMS[name][0]()
    net = SimNet(m, t, no_prss=no_prss, seed=seed, sched=Scheduler(seed, mode), max_steps=1_500_000,
                 no_barrier=no_barrier)
    with EndpointLog() as elog:
        try:
            net.run(prog)
        except (Deadlock, PartyError) as exc:
            return None, f'{type(exc).__name__}: {str(exc)[:300]}', None
    return net, None, elog


async def FIRE_AND_FORGET(mpc):
    """reaches shutdown with coroutines pending that still need communication rounds"""
    secint = mpc.SecInt(16)
    x = mpc.input(secint(mpc.pid + 2))
    y = x[0]
    for _ in range(6):
        y = y * x[-1]
    mpc.output(y)            # never awaited
    return await mpc.output(x[0])


def check_wire(net, elog):
    """Oracle on raw bytes and endpoint states. Returns (message or None, per-endpoint info list)."""
    m = net.m
    info = []
    for (a, b), stream in net.wire.items():
        hs_len = 0
        if a < b:  # a is client: pid + keys
            # keys of the subsets of size m - t with least element a that contain b, t the threshold AT CONNECT TIME
            tc = getattr(net, 't_connect', net.t)
            hs_len = 2 + (0 if net.no_prss else 16 * (math.comb(m - a - 2, m - tc - 2) if m - tc >= 2 else 0))
        hs, frames, rest = parse_frames(stream, hs_len)
        if rest:
            return f'channel {a}->{b}: {len(rest)} trailing bytes that do not form a frame', info
        labels = [pc for pc, _ in frames]
        if len(set(labels)) != len(labels):
            dup = [x for x in set(labels) if labels.count(x) > 1][:3]
            return f'channel {a}->{b}: labels {dup} used for more than one message', info
        ex = net.protos[(b, a)]   # receiving endpoint at b for peer a
        if ex.buffers:
            kinds = {k: ('future' if hasattr(v, 'done') else 'payload') for k, v in list(ex.buffers.items())[:3]}
            return f'endpoint {b}<-{a}: buffers not empty after shutdown: {kinds}', info
        if len(ex.bytes):
            return f'endpoint {b}<-{a}: {len(ex.bytes)} unparsed bytes left after shutdown', info
        ops = elog.ops.get(id(ex), (ex, []))[1]
        recvd = [int(o[2:]) for o in ops if o.startswith('r:')]
        if sorted(recvd) != sorted(labels):
            missing = sorted(set(labels) - set(recvd))[:3]
            extra = sorted(set(recvd) - set(labels))[:3]
            return (f'endpoint {b}<-{a}: frames sent and receives performed differ '
                    f'(unreceived {missing}, unmatched receives {extra})'), info
        info.append((a, b, len(frames), ops, ex))
    return None, info


def run(ctx):
    rng = ctx.rng
    lines, exps, metas = [], [], []
    names = list(programs.PROGRAMS) + ['fire_and_forget']
    n_sched = ctx.scale(3, 30)
    for (m, t, no_prss) in c08.cfg_list(ctx):
        for name in names:
            if name != 'fire_and_forget' and not c08.usable(name, m, no_prss):
                continue
            for k in range(n_sched):
                seed = rng.randrange(10**9)
                mode = c08.MODES[k % 4]
                nb = (k % 3 == 1)
                net, err, elog = run_case(name, m, t, no_prss, seed, mode, nb)
                rep = {'kind': 'wire', 'program': name, 'm': m, 't': t, 'no_prss': no_prss, 'seed': seed, 'mode': mode,
                       'no_barrier': nb}
                if err:
                    ctx.violation(f'C09: run does not complete: {err}', rep)
                    return
                msg, info = check_wire(net, elog)
                ctx.count('program:' + name)
                ctx.count(f'cfg:m{m}t{t}{"np" if no_prss else ""}')
                if msg:
                    ctx.violation('C09: ' + msg, rep)
                    return
                for a, b, nfr, ops, ex in info:
                    ctx.case((name, m, t, no_prss, seed, a, b), nontrivial=nfr >= 2)
                    ctx.count('frames', nfr)
                    if k == 0 and nfr and sum(len(o) for o in ops) < 400000:
                        role = 'server' if a < b else f'client:{a}'
                        tc = getattr(net, 't_connect', net.t)
                        keyblock = 0 if net.no_prss or a > b or m - tc < 2 else 16 * math.comb(m - a - 2, m - tc - 2)
                        # keyLen pid = ka*((pid*7)%5)+kb : use ka=0, kb=keyblock
                        lines.append(f'run {role} {1 if net.no_prss else 0} 0 {keyblock} ' + ' '.join(ops))
                        exps.append(f'|buf=-|peer={a}|buffers=')
                        metas.append(f'{name} m={m} t={t} seed={seed} endpoint {b}<-{a}')
                if len(ctx.samples) < 2 and info:
                    a, b, nfr, ops, ex = info[0]
                    ctx.sample({'program': name, 'm': m, 't': t, 'seed': seed, 'endpoint': f'{b}<-{a}', 'frames': nfr,
                                'ops_prefix': ops[:6]})
    model = common.LeanDriver('Frame').run(lines)
    if isinstance(model, common.DriverFailure):
        ctx.compare('endpoint replay', exps, model, metas)
    else:
        tails = ['|' + o.split('|', 1)[1] if '|' in o else o for o in model]
        ctx.compare('endpoint replay (final state of real endpoints vs MpycV.Frame on the observed op order)',
                    exps, tails, metas)
        # no duplicate-label error event may occur in the model run either
        for o, meta in zip(model, metas):
            if ';E:' in o or o.startswith('E:'):
                ctx.mismatch('model run of observed traffic hits a duplicate-label exception', {'endpoint': meta})


def search(ctx):
    rng = ctx.subrng('search')
    names = list(programs.PROGRAMS)
    for k in range(ctx.scale(600, 4000)):
        name = names[k % len(names)]
        m, t, no_prss = rng.choice(c08.cfg_list(ctx))
        if not c08.usable(name, m, no_prss):
            continue
        seed = rng.randrange(10**9)
        mode = rng.choice(c08.MODES)
        net, err, elog = run_case(name, m, t, no_prss, seed, mode)
        rep = {'kind': 'wire', 'program': name, 'm': m, 't': t, 'no_prss': no_prss, 'seed': seed, 'mode': mode}
        if err:
            ctx.violation(f'C09: run does not complete: {err}', rep)
            return
        msg, _ = check_wire(net, elog)
        if msg:
            ctx.violation('C09: ' + msg, rep)
            return


def replay(ctx, data):
    net, err, elog = run_case(data['program'], data['m'], data['t'], data['no_prss'], data['seed'], data['mode'],
                              data.get('no_barrier', False))
    if err:
        return False, err
    msg, _ = check_wire(net, elog)
    return msg is None, msg or 'ok'
