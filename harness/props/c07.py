"""C07 — input, output and transfer reach exactly the designated parties.

Model: lean/MpycV/Model/Comm.lean; theorems MpycV.C07 (exactly-one-consumer for output/_reshare/
_distribute/transfer, recombination points, routing).  Tie: the send/receive/recombination patterns the
REAL coroutines produce in multi-party simulator runs (recorded through harness/obs.py) vs the Lean driver;
oracle: per-party results vs the definition (designated senders' objects in sender order, None/[] for
non-receivers, all receivers agree, input opens to the sender's value).
"""
import os
import sys
sys.path.insert(0, os.path.dirname(os.path.dirname(os.path.abspath(__file__))))
import simnet
from simnet import SimNet, Scheduler, Deadlock, PartyError, thresha
import obs
import common
import comm_src

LEVEL = 'proof'
LEAN_MODULES = ['MpycV.Props.C07', 'MpycV.PropsGen.CommSrcTie']
LEAN_NAMESPACES = ['MpycV.C07', 'MpycV.CommSrcTie']
REQUIRED_THEOREMS = ['output_exactly_one_consumer', 'output_exactly_one_consumer_dedup', 'output_points', 'reshare_exactly_one_consumer',
                     'reshare_points', 'distribute_exactly_one_consumer', 'transfer_exactly_one_consumer',
                     'transfer_arcs_exactly_one_consumer', 'transfer_routes',
                     # source tie (PropsGen/CommSrcTie.lean): routing generated from the current runtime.py = model
                     'outSends_src_eq', 'outRecvs_src_eq', 'outPoints_src_eq', 'reshSends_src_eq', 'reshRecvs_src_eq',
                     'distSends_src_eq', 'distRecvs_src_eq', 'transferSends_src_eq', 'transferRecvs_src_eq',
                     'output_exactly_one_consumer_src', 'output_points_src', 'transfer_exactly_one_consumer_src',
                     'transfer_arcs_exactly_one_consumer_src', 'transfer_dict_mem_src']
RULE = ('scenario = (m in 1..7, t with 2t<m, PRSS on/off, delivery schedule seed, operation in {transfer lists/arcs/dict, '
        'input, output with receiver subset and threshold t..2t, reshare}, sender/receiver subsets incl. ints, ranges, '
        'unsorted lists, empty sets, payload types); distinct = distinct scenario tuples; non-trivial = m >= 2 and at '
        'least one message on the wire')
ASSUMPTIONS = ['simulator enforces the documented asyncio rules (harness/simnet.py); pickle round-trips the payloads used',
               'sender/receiver lists without repetitions (with repetitions the code sends two messages under one label: '
               'documented hypothesis of the theorems)']

PAYLOADS = [lambda p: p, lambda p: f'str{p}', lambda p: bytes([p, 255, 0]), lambda p: [p, [p + 1, (p, 'x')]],
            lambda p: None, lambda p: {'k': p}, lambda p: 2**200 + p, lambda p: (p, -p, 0.5)]



def generate(ctx):
    """source translator: routing expressions of the current mpyc/runtime.py -> lean/MpycV/Generated/CommSrc.lean"""
    comm_src.generate(ctx)

def subset(rng, m, allow_empty=True):
    k = rng.randrange(0 if allow_empty else 1, m + 1)
    s = rng.sample(range(m), k)
    if rng.random() < 0.5:
        s.sort()
    return s


def cfgs(ctx):
    ms = [1, 2, 3, 4, 5] if not ctx.thorough else [1, 2, 3, 4, 5, 6, 7]
    out = []
    for m in ms:
        for t in range(0, (m - 1) // 2 + 1):
            out.append((m, t))
    return out


def spec_str(x):
    if x is None:
        return 'None'
    if isinstance(x, int):
        return f'int:{x}'
    if isinstance(x, range):
        return 'range:' + ','.join(map(str, x))
    return 'list:' + ','.join(map(str, x))


def lst(x):
    return ','.join(map(str, x)) if len(x) else '-'


def run_scenario(sc, ctx, lines, impl):
    """Run one scenario on the simulator; append pattern correspondence lines; return oracle failure or None."""
    m, t, no_prss, seed, kind = sc['m'], sc['t'], sc['no_prss'], sc['seed'], sc['kind']
    mode = sc.get('mode', 'random')
    net = SimNet(m, t, no_prss=no_prss, seed=seed, sched=Scheduler(seed, mode), max_steps=400000)
    rec = obs.Recorder(m)
    points_log = [[] for _ in range(m)]
    o_recombine = thresha.recombine

    def recombine(field, points, x_rs=0):
        points_log[simnet.CUR.get()].append([p[0] for p in points])
        return o_recombine(field, points, x_rs)

    pay = PAYLOADS[sc.get('payload', 0)]

    async def prog(mpc):
        pid = mpc.pid
        if kind in ('tr', 'arcs', 'dict'):
            rec.mark('a')
            if kind == 'tr':
                S, R = sc['S'], sc['R']
                S_ = range(S[1], S[2]) if isinstance(S, tuple) else S
                R_ = range(R[1], R[2]) if isinstance(R, tuple) else R
                res = await mpc.transfer(pay(pid), senders=S_, receivers=R_)
            elif kind == 'arcs':
                res = await mpc.transfer(pay(pid), sender_receivers=[tuple(a) for a in sc['arcs']])
            else:
                res = await mpc.transfer(pay(pid), sender_receivers={int(k): v for k, v in sc['dict'].items()})
            rec.mark('b')
            return res
        secint = mpc.SecInt(16)
        if kind == 'input':
            S = sc['S']
            vals = [pid * 10 + i + 1 for i in range(sc['n'])]
            x = [secint(v) for v in vals]
            if sc['n'] == 1 and sc.get('scalar'):
                x = x[0]
            rec.mark('a')
            y = mpc.input(x, senders=S)
            if sc.get('mutate') and isinstance(x, list):
                # the caller reuses its buffer right after the call: must not affect what was input
                x[0] = secint(9999)
                x.reverse()
                x.append(secint(-1))
            yy = await mpc.gather(y)
            rec.mark('b')
            return await mpc.output(flatten(y))
        if kind == 'output':
            x = mpc.input([secint(3 + pid), secint(-5)], senders=0)
            await mpc.gather(x)
            thr = sc['thr']
            if thr == 2 * t and t > 0:   # open a degree-2t sharing: local product of shares
                a, b = await mpc.gather(x[0]), await mpc.gather(x[1])
                val = [a * b]
            else:
                val = x if sc['n'] == 2 else x[0]
            rec.mark('a')
            tlog = len(points_log[pid])
            fut = mpc.output(val, receivers=sc['R'], threshold=None if sc.get('thr_default') else thr)
            if sc.get('mutate') and isinstance(val, list):
                val[0] = val[0] - val[0] + 12345 if hasattr(val[0], 'share') else val[0]
                val.append(val[0])
            res = await fut
            rec.mark('b')
            return res, points_log[pid][tlog:]
        if kind == 'reshare':
            x = mpc.input([secint(7), secint(11 + pid)], senders=0)
            a, b = await mpc.gather(x[0]), await mpc.gather(x[1])
            rec.mark('a')
            tlog = len(points_log[pid])
            z = await mpc._reshare([a * b, a * a])
            rec.mark('b')
            pts = points_log[pid][tlog:]
            return await mpc.output([secint(z[0]), secint(z[1])]), pts
        raise ValueError(kind)

    thresha.recombine = recombine
    try:
        with rec:
            res = net.run(prog)
    except (Deadlock, PartyError) as exc:
        return f'{type(exc).__name__}: {str(exc)[:300]}'
    finally:
        thresha.recombine = o_recombine

    nmsg = 0
    # ---- pattern correspondence + oracle ------------------------------------------------------
    for pid in range(m):
        w = rec.window(pid, 'a', 'b')
        sends = [e[1] for e in w if e[0] == 'S']
        recvs = [e[1] for e in w if e[0] == 'R']
        nmsg += len(sends)
        if kind == 'tr':
            S, R = sc['S'], sc['R']
            Sl = [S] if isinstance(S, int) else list(range(m)) if S is None else list(range(S[1], S[2])) if isinstance(S, tuple) else S
            Rl = [R] if isinstance(R, int) else list(range(m)) if R is None else list(range(R[1], R[2])) if isinstance(R, tuple) else R
            lines.append(f'tr {pid} {lst(Sl)} {lst(Rl)}')
            ms = Sl if pid in Rl else []
            mr = Rl if pid in Sl else []
            impl.append(f'{lst(ms)}|{lst(mr)}|{lst(sends)}|{lst(recvs)}')
            exp = [pay(i) for i in Sl] if pid in Rl else []
            if isinstance(S, int):
                exp = exp[0] if exp else None
            if norm(res[pid]) != norm(exp):
                return f'transfer result at party {pid}: {res[pid]!r} expected {exp!r}'
        elif kind == 'arcs':
            arcs = [tuple(a) for a in sc['arcs']]
            lines.append(f'arcs {pid} ' + (','.join(f'{a}:{b}' for a, b in arcs) if arcs else '-'))
            ms = [a for a, b in arcs if b == pid]
            mr = [b for a, b in arcs if a == pid]
            impl.append(f'{lst(ms)}|{lst(mr)}|{lst(sends)}|{lst(recvs)}')
            exp = [pay(a) for a, b in arcs if b == pid]
            if norm(res[pid]) != norm(exp):
                return f'transfer(arcs) result at party {pid}: {res[pid]!r} expected {exp!r}'
        elif kind == 'dict':
            d = {int(k): v for k, v in sc['dict'].items()}
            exp = [pay(a) for a, bs in d.items() if pid in bs]
            if norm(res[pid]) != norm(exp):
                return f'transfer(dict) result at party {pid}: {res[pid]!r} expected {exp!r}'
            if sorted(sends) != sorted(b for b in d[pid] if b != pid):
                return f'transfer(dict) party {pid} sent to {sends}, designated {d[pid]}'
        elif kind == 'input':
            S = sc['S']
            Sl = [S] if isinstance(S, int) else list(range(m)) if S is None else S
            lines.append(f'dist {m} {pid} {lst(Sl)}')
            impl.append(f'{lst(sends)}|{lst(recvs)}')
            exp = [v for i in Sl for v in [i * 10 + k + 1 for k in range(sc['n'])]]
            if res[pid] != exp:
                return f'input opens to {res[pid]} at party {pid}, senders supplied {exp}'
        elif kind == 'output':
            R = sc['R']
            Rl = [R] if isinstance(R, int) else list(range(m)) if R is None else R
            thr = sc['thr']
            out, pts = res[pid]
            lines.append(f'out {m} {thr} {pid} {lst(Rl)}')
            impl.append(f'{lst(sends)}|{lst(recvs)}|{lst(pts[0]) if pts else lst(model_points(m, thr, pid))}')
            if pts and len(pts) != 1:
                return f'output recombined {len(pts)} times at party {pid}'
            if thr == 2 * t and t > 0:
                exp = [-5 * 3]
            else:
                exp = [3, -5] if sc['n'] == 2 else 3
            if pid in Rl:
                if out != exp:
                    return f'output at receiver {pid}: {out} expected {exp}'
            else:
                none = [None] * len(exp) if isinstance(exp, list) else None
                if out != none:
                    return f'output at non-receiver {pid}: {out} expected {none}'
                if recvs:
                    return f'non-receiver {pid} awaits messages from {recvs}'
        elif kind == 'reshare':
            out, pts = res[pid]
            labels = [e[2] for e in w if e[0] in 'SR']
            if m > 1 and t > 0:
                if not labels:
                    return f'reshare without traffic at party {pid}'
                uci = labels[0] % m
                if any(l_ != labels[0] for l_ in labels):
                    return 'reshare used several labels'
                sc['uci'] = uci
                lines.append(f'resh {m} {t} {pid} {uci}')
                impl.append(f'{lst(sends)}|{lst(recvs)}|{lst(pts[0]) if len(pts) == 1 else "?"}')
            if out != [7 * (11 + 0), 49]:
                return f'reshared product opens to {out} at party {pid}, expected {[77, 49]}'
    # every message has exactly one consumer: sent multiset == awaited multiset per directed pair
    sent = sorted((p, e[1], e[2]) for p in range(m) for e in rec.window(p, 'a', 'b') if e[0] == 'S')
    want = sorted((e[1], p, e[2]) for p in range(m) for e in rec.window(p, 'a', 'b') if e[0] == 'R')
    if sent != want:
        return f'sent {sent[:6]} vs awaited {want[:6]}: some message has no (or more than one) consumer'
    sc['_msgs'] = nmsg
    return None


def model_points(m, t, pid):
    return [(pid - t + j) % m + 1 for j in range(t)] + [pid + 1]


def flatten(y):
    out = []
    for a in y if isinstance(y, list) else [y]:
        if isinstance(a, list):
            out.extend(flatten(a))
        else:
            out.append(a)
    return out


def norm(x):
    if isinstance(x, (list, tuple)):
        return [norm(a) for a in x]
    if isinstance(x, bytes):
        return 'b:' + x.hex()
    return x


def gen(ctx, rng, k):
    m, t = rng.choice(cfgs(ctx))
    sc = {'m': m, 't': t, 'no_prss': rng.random() < 0.3, 'seed': rng.randrange(10**6),
          'mode': rng.choice(['random', 'random', 'starve', 'lazynet', 'eagernet'])}
    kind = ['tr', 'tr', 'arcs', 'dict', 'input', 'output', 'output', 'reshare'][k % 8]
    sc['kind'] = kind
    sc['payload'] = rng.randrange(len(PAYLOADS))

    def spec(allow_empty):
        r = rng.random()
        if r < 0.2:
            return None
        if r < 0.4:
            return rng.randrange(m)
        if r < 0.5:
            a = rng.randrange(m)
            return ('range', a, rng.randrange(a, m + 1)) if allow_empty or a < m else None
        return subset(rng, m, allow_empty)
    if kind == 'tr':
        sc['S'], sc['R'] = spec(True), spec(True)
    elif kind == 'arcs':
        arcs = [(a, b) for a in range(m) for b in range(m) if rng.random() < 0.4]
        rng.shuffle(arcs)
        sc['arcs'] = arcs
    elif kind == 'dict':
        sc['dict'] = {str(a): subset(rng, m) for a in rng.sample(range(m), m)}
    elif kind == 'input':
        s = spec(False)
        if isinstance(s, tuple):
            s = list(range(s[1], s[2])) or [0]
        sc['S'] = s
        sc['n'] = rng.choice([1, 1, 2, 3])
        sc['scalar'] = rng.random() < 0.5
        sc['mutate'] = rng.random() < 0.5
        if sc['n'] == 1 and sc['scalar']:
            pass
    elif kind == 'output':
        r = spec(True)
        if isinstance(r, tuple):
            r = list(range(r[1], r[2]))
        sc['R'] = r
        sc['thr'] = rng.randrange(t, 2 * t + 1)
        sc['thr_default'] = sc['thr'] == t and rng.random() < 0.5
        sc['n'] = rng.choice([1, 2])
        sc['mutate'] = rng.random() < 0.5
    return sc


def run(ctx):
    rng = ctx.rng
    lines, impl, meta = [], [], []
    n = ctx.scale(320, 4000)
    for k in range(n):
        sc = gen(ctx, rng, k)
        a = len(lines)
        msg = run_scenario(sc, ctx, lines, impl)
        meta.extend([sc] * (len(lines) - a))
        key = {kk: v for kk, v in sc.items() if not kk.startswith('_')}
        ctx.case(repr(sorted(key.items())), nontrivial=sc['m'] >= 2 and sc.get('_msgs', 0) > 0)
        ctx.count('kind:' + sc['kind'])
        ctx.count(f"m:{sc['m']},t:{sc['t']}")
        if msg:
            ctx.violation('C07: ' + msg, {'kind': 'scenario', 'scenario': key})
            break
        if k < 3:
            ctx.sample(key)
    model = common.LeanDriver('Comm').run(lines)
    ctx.compare('communication pattern (runtime vs MpycV.Comm)', impl, model, lines)


def search(ctx):
    rng = ctx.subrng('search')
    for k in range(ctx.scale(3000, 20000)):
        sc = gen(ctx, rng, k)
        msg = run_scenario(sc, ctx, [], [])
        if msg:
            key = {kk: v for kk, v in sc.items() if not kk.startswith('_')}
            ctx.violation('C07: ' + msg, {'kind': 'scenario', 'scenario': key})
            return


def replay(ctx, data):
    sc = dict(data['scenario'])
    for k in ('S', 'R'):
        if isinstance(sc.get(k), list) and sc[k] and sc[k][0] == 'range':
            sc[k] = tuple(sc[k])
    msg = run_scenario(sc, ctx, [], [])
    return msg is None, msg or 'ok'
