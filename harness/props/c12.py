"""C12 — Shamir split and recombine are inverse for all fields and thresholds.

Model: lean/MpycV/Model/Thresha.lean (randomSplit / recombVec / recombine transcribed from thresha.py).
Theorems: MpycV.C12 (recombVec_eq_lagrange, recombine_eval, recombine_split(_at), recombine_split_modP(_at),
recombVecE_ok/_dup, randomSplit_poly, ...).  Tie: the real random_split / recombine (and the np_ variants)
on patched dealer randomness vs the Lean driver `Drv/Thresha.lean` (prime fields through `modP`, GF(2^2),
GF(3^2), ... through explicit field tables); independent oracle: naive polynomial evaluation and textbook
Lagrange interpolation over an independent field implementation (harness/thresha_oracle.py).
"""
import itertools
import os
import sys

sys.path.insert(0, os.path.dirname(os.path.dirname(os.path.abspath(__file__))))
import thresha_glue as G  # noqa: E402
from thresha_glue import Fld, Dealer, thresha, np, show_list, show_matrix, exc_name  # noqa: E402
import thresha_oracle as orc  # noqa: E402
import common  # noqa: E402
import repo_path  # noqa: E402
import py2lean_thresha  # noqa: E402

LEVEL = 'proof'
LEAN_MODULES = ['MpycV.Props.C12', 'MpycV.PropsGen.C12Src']
LEAN_NAMESPACES = ['MpycV.C12', 'MpycV.C12Src']
REQUIRED_THEOREMS = ['recombVec_eq_lagrange', 'recombine_eval', 'recombine_split', 'recombine_split_at',
                     'recombine_split_modP', 'recombine_split_modP_at', 'recombVecE_ok', 'recombVecE_dup',
                     'randomSplit_poly', 'randomSplit_shape', 'modP_hom',
                     # source tie (PropsGen/C12Src.lean): definitions generated from the current thresha.py = model
                     'recombination_vector_src_eq', 'random_split_src_eq', 'recombine_one_src_eq',
                     'recombine_list_src_eq', 'intModP_hom', 'recombVecE_intModP_ok',
                     'recombination_vector_src_lagrange', 'split_recombine_src',
                     # error behaviour of the model = the guards of the code (repo fixes 33ae55a, fe2a0ec)
                     'randomSplitE_ok', 'randomSplitE_refuses']
RULE = ('case = (field, t, m, secrets, dealer coefficients, variant list/np, int or field-element inputs) for random_split '
        'and (points = subset of parties in some order, x_rs) for recombine; exhaustive part: GF(5), GF(7), GF(2^2), '
        'GF(3^2), t <= 2, m < |F| (m <= 5, thorough 6), EVERY subset of >= t+1 parties, EVERY x_r of the field, plus the '
        'default scalar x_rs=0; random part: 64/128-bit primes, GF(2^8), GF(3^5), m <= 8, random subsets/x_rs (incl. '
        'x_r among the nodes and >= p), arbitrary (non-split) share matrices; distinct = distinct argument tuples; '
        'non-trivial = t >= 1 and a proper subset or x_r != 0')
ASSUMPTIONS = ['finite field arithmetic of mpyc.finfields (checked by C20) — the Lean side uses its own GF(p) (`modP`, proved '
               'homomorphic to ZMod p) and, for GF(p^d), tables computed by the independent oracle field',
               'party i has x-coordinate i+1 embedded by field(int); injective for m < |F| (hypothesis of the theorems)',
               'np_ variants: numpy object-array semantics (matmul, vander); covered by correspondence/oracle only']
TRUSTED = ['harness/thresha_glue.py Dealer: replacement of thresha.secrets.randbelow by a recorded stream']
EXHAUSTIVE = False


# ---------------------------------------------------------------------------------------------
# one split case on the real code
# ---------------------------------------------------------------------------------------------
def expected_polys(F, secrets, stream, t, variant):
    """sharing polynomials (coefficients low first, oracle encoding) the dealer randomness defines"""
    n = len(secrets)
    of = F.of
    polys = []
    for h, s in enumerate(secrets):
        if variant == 'list':
            c = stream[h * t:(h + 1) * t]                # c[k] = coefficient of X^(t-k)
            low = [of.from_int(s)] + [of.from_int(x) for x in reversed(c)]
        else:
            low = [of.from_int(s)] + [of.from_int(stream[j * n + h]) for j in range(t)]   # C[j][h] X^(j+1)
        polys.append(low)
    return polys


def lean_coeffs(stream, t, n, variant):
    """coefficient stream in the model's (list variant) order"""
    if variant == 'list':
        return list(stream[:t * n])
    return [stream[(t - 1 - k) * n + h] for h in range(n) for k in range(t)]


def real_split(F, secrets, stream, t, m, variant, elt):
    """run the real random_split / np_random_split; returns (status, canonical matrix or error name, dealer calls)"""
    f = F.field
    if variant == 'list':
        s_arg = [f(x) for x in secrets] if elt else list(secrets)
        fn = thresha.random_split
    else:
        s_arg = f.array(list(secrets)) if elt else np.array(list(secrets), dtype=object)
        fn = thresha.np_random_split
    with Dealer(stream) as D:
        st, res = exc_name(fn, f, s_arg, t, m)
    if st == 'ok':
        raw = res
        res = F.canon_matrix(res)
    else:
        raw = None
    return st, res, D.calls, raw


def real_recombine(F, points, x_rs, variant):
    f = F.field
    fn = thresha.recombine if variant == 'list' else thresha.np_recombine
    st, res = exc_name(fn, f, points, x_rs)
    if st != 'ok':
        return st, res
    if isinstance(x_rs, list):
        return st, F.canon_matrix(res)
    return st, F.canon_list(res)


def check_split(ctx, F, secrets, stream, t, m, variant, elt, lines, impl, meta):
    """oracle check of one split + correspondence lines; returns (raw shares, canonical shares, polys) or None"""
    n = len(secrets)
    st, res, calls, raw = real_split(F, secrets, stream, t, m, variant, elt)
    rep = {'kind': 'split', 'field': F.desc(), 't': t, 'm': m, 'secrets': list(secrets), 'stream': list(stream),
           'variant': variant, 'elt': elt}
    ctx.case(('split', F.name, t, m, tuple(secrets), tuple(stream[:t * n]), variant, elt), nontrivial=t >= 1)
    ctx.count(f'split:{variant}:{F.name}')
    if F.lean is not None:
        lines.append(f'split {t} {m} {show_list(list(secrets))} {show_list(lean_coeffs(stream, t, n, variant))}')
        impl.append(show_matrix(res) if st == 'ok' else res)
        meta.append(rep)
    if st != 'ok':
        if n > 0:
            ctx.violation(f'random_split raised {res} on a valid request', dict(rep, expected='shares', observed=res))
        return None
    # shares are canonical field values (reduced `% p`): ints in range(p) / polynomials of degree < d
    try:
        enc = [[int(v) for v in (row.tolist() if hasattr(row, 'tolist') else row)] for row in raw]
    except Exception:  # noqa: BLE001
        enc = None
    if enc is not None and enc != res:
        ctx.violation(f'{"np_" if variant == "np" else ""}random_split: a share is not reduced modulo the field modulus',
                      dict(rep, expected=res, observed=enc))
        return None
    polys = expected_polys(F, secrets, stream, t, variant)
    want = [[orc.poly_eval(F.of, polys[h], F.of.from_int(i + 1)) for h in range(n)] for i in range(m)]
    if res != want:
        ctx.violation(f'{"np_" if variant == "np" else ""}random_split: shares are not the values of the sharing '
                      f'polynomial (degree <= t, constant term = secret) at 1..m',
                      dict(rep, expected=want, observed=res))
        return None
    used = [c for c in calls if c[0] == 'randbelow']
    if len(used) != t * n or any(a != F.q for _k, a, _v in used):
        ctx.violation('random_split did not draw exactly t coefficients per secret from range(order)',
                      dict(rep, expected=[t * n, F.q], observed=[len(used), sorted({a for _k, a, _v in used})]))
        return None
    return raw, res, polys


def check_recombine(ctx, F, xs, rows_raw, rows_canon, x_rs, variant, want, lines, impl, meta, rep_extra):
    """rows_raw: share rows handed to the real code; want: expected canonical result (oracle) or None"""
    points = list(zip(xs, rows_raw))
    st, res = real_recombine(F, points, x_rs, variant)
    rep = dict(rep_extra, kind='recombine', field=F.desc(), xs=list(xs), rows=[list(r) for r in rows_canon],
               x_rs=x_rs, variant=variant)
    ctx.count(f'recombine:{variant}:{F.name}')
    if F.lean is not None:
        if isinstance(x_rs, list):
            lines.append(f'recomb {show_list(xs)} {show_matrix(rows_canon)} {show_list(x_rs)}')
            impl.append(show_matrix(res) if st == 'ok' else res)
        else:
            lines.append(f'recomb1 {show_list(xs)} {show_matrix(rows_canon)} {x_rs}')
            impl.append(show_list(res) if st == 'ok' else res)
        meta.append(rep)
    if want is not None:
        if st != 'ok' or res != want:
            ctx.violation(f'{"np_" if variant == "np" else ""}recombine: result differs from the value of the '
                          'interpolating polynomial', dict(rep, expected=want, observed=res))
            return False
    return True


def recombine_from_split(ctx, F, t, m, sres, subset, x_rs, variant, wrap, lines, impl, meta, base_rep):
    raw, canon, polys = sres
    f = F.field
    xs = [i + 1 for i in subset]
    rows_raw = []
    for i in subset:
        row = list(raw[i]) if variant == 'list' else raw[i]
        if wrap and variant == 'list':
            row = [f(v) for v in row]
        rows_raw.append(row)
    rows_canon = [canon[i] for i in subset]
    n = len(polys)
    if isinstance(x_rs, list):
        want = [[orc.poly_eval(F.of, polys[h], F.of.from_int(x)) for h in range(n)] for x in x_rs]
    else:
        want = [orc.poly_eval(F.of, polys[h], F.of.from_int(x_rs)) for h in range(n)]
    nontriv = t >= 1 and (len(subset) < m or x_rs != 0)
    ctx.case(('rec', F.name, t, m, tuple(subset), tuple(x_rs) if isinstance(x_rs, list) else x_rs, variant, wrap,
              tuple(map(tuple, rows_canon))), nontrivial=nontriv)
    return check_recombine(ctx, F, xs, rows_raw, rows_canon, x_rs, variant, want, lines, impl, meta,
                           dict(base_rep, subset=list(subset), wrap=wrap, t=t, m=m))


# ---------------------------------------------------------------------------------------------
def small_fields():
    return [Fld(5), Fld(7), Fld(2, 2), Fld(3, 2)]


def run(ctx):
    rng = ctx.rng
    batches = []   # (Fld, lines, impl, meta)

    # -- exhaustive part ----------------------------------------------------------------------
    mmax = ctx.scale(5, 6)
    reps = ctx.scale(2, 5)
    for F in small_fields():
        lines, impl, meta = [], [], []
        for t in range(0, 3):
            for m in range(t + 1, min(F.q - 1, mmax) + 1):
                for rep_i in range(reps):
                    n = 1 if rep_i % 2 == 0 else 2
                    secrets = [rng.randrange(F.q) for _ in range(n)]
                    stream = [rng.randrange(F.q) for _ in range(t * n)]
                    if rep_i == 1 and t >= 1:
                        stream[0] = 0          # leading coefficient zero: degree < t
                    elt = rep_i % 2 == 1
                    base = {'secrets': secrets, 'stream': stream, 'elt': elt}
                    sres = check_split(ctx, F, secrets, stream, t, m, 'list', elt, lines, impl, meta)
                    if sres is None:
                        continue
                    allx = list(range(F.q))
                    for k in range(t + 1, m + 1):
                        for subset in itertools.combinations(range(m), k):
                            subset = list(subset)
                            if rng.random() < 0.5:
                                rng.shuffle(subset)
                            wrap = rng.random() < 0.3
                            recombine_from_split(ctx, F, t, m, sres, subset, allx, 'list', wrap, lines, impl, meta, base)
                            recombine_from_split(ctx, F, t, m, sres, subset, 0, 'list', wrap, lines, impl, meta, base)
                    if np is not None and rep_i == 0:
                        nres = check_split(ctx, F, secrets, stream, t, m, 'np', True, lines, impl, meta)
                        if nres is not None:
                            for k in range(t + 1, m + 1):
                                for subset in itertools.combinations(range(m), k):
                                    recombine_from_split(ctx, F, t, m, nres, list(subset), allx, 'np', False,
                                                         lines, impl, meta, base)
        batches.append((F, lines, impl, meta))

    # -- random part --------------------------------------------------------------------------
    big = [Fld(G.P64), Fld(G.P128), Fld(2, 8), Fld(3, 5), Fld(2**31 - 1), Fld(11), Fld(2, 4, lean_tables=True),
           Fld(3, 3, lean_tables=True)]
    ncase = ctx.scale(40, 400)
    for F in big:
        lines, impl, meta = [], [], []
        for _ in range(ncase):
            m = rng.randrange(1, min(F.q - 1, 8) + 1)
            t = rng.randrange(0, m)
            n = rng.choice([1, 1, 2, 5])
            secrets = [rng.choice([0, 1, F.q - 1, rng.randrange(F.q)]) for _ in range(n)]
            stream = [rng.choice([0, F.q - 1, rng.randrange(F.q), rng.randrange(F.q)]) for _ in range(t * n)]
            elt = rng.random() < 0.5
            variant = 'np' if (np is not None and rng.random() < 0.35) else 'list'
            if variant == 'np':
                elt = True if F.d > 1 else elt
            base = {'secrets': secrets, 'stream': stream, 'elt': elt}
            sres = check_split(ctx, F, secrets, stream, t, m, variant, elt, lines, impl, meta)
            if sres is None:
                continue
            for _ in range(3):
                k = rng.randrange(t + 1, m + 1)
                subset = rng.sample(range(m), k)
                xr_pool = [0, 1, m, m + 1, F.q - 1, rng.randrange(F.q)] + [i + 1 for i in subset]
                if F.d == 1:
                    xr_pool += [F.q, F.q + 3, 2 * F.q + 1]      # field(x_r) reduces
                if rng.random() < 0.3:
                    x_rs = 0 if rng.random() < 0.5 else rng.choice(xr_pool)
                else:
                    x_rs = [rng.choice(xr_pool) for _ in range(rng.choice([0, 1, 2, 4]))]
                wrap = rng.random() < 0.4
                if variant == 'np' and x_rs == []:
                    x_rs = [0]     # np_recombine raises ValueError on an empty x_rs list (degenerate, see report)
                recombine_from_split(ctx, F, t, m, sres, subset, x_rs, variant, wrap, lines, impl, meta, base)
                if np is not None and rng.random() < 0.3 and x_rs != []:   # same points through the other variant
                    other = 'np' if variant == 'list' else 'list'
                    raw, canon, polys = sres
                    if other == 'np':
                        sres2 = ([np.array(list(r), dtype=object) for r in raw], canon, polys)
                    else:
                        sres2 = ([list(r) for r in raw], canon, polys)
                    recombine_from_split(ctx, F, t, m, sres2, subset, x_rs, other, False, lines, impl, meta, base)
        # arbitrary share matrices and nodes (interpolation of arbitrary data, error cases)
        for _ in range(ncase // 2):
            k = rng.randrange(1, 7)
            dup = rng.random() < 0.15
            pool = list(range(0, min(F.q, 12))) + ([rng.randrange(F.q) for _ in range(3)] if F.q > 12 else [])
            if dup or k > len(set(pool)):
                xs = [rng.choice(pool) for _ in range(k)]
            else:
                xs = rng.sample(sorted(set(pool)), k)
            n = rng.choice([1, 2, 3])
            rows = [[rng.randrange(F.q) for _ in range(n)] for _ in range(k)]
            x_rs = [rng.choice(pool) for _ in range(rng.choice([1, 2, 3]))]
            ofx = [F.of.from_int(x) for x in xs]
            if len(set(ofx)) == len(ofx):
                want = [[orc.lagrange_at(F.of, [(ofx[i], rows[i][h]) for i in range(k)], F.of.from_int(x))
                         for h in range(n)] for x in x_rs]
            else:
                want = None   # duplicate nodes: ZeroDivisionError expected from both sides (correspondence only)
                ctx.count('duplicate-nodes')
            ctx.case(('arb', F.name, tuple(xs), tuple(map(tuple, rows)), tuple(x_rs)), nontrivial=k >= 2)
            check_recombine(ctx, F, xs, [list(r) for r in rows], rows, x_rs, 'list', want, lines, impl, meta, {})
        batches.append((F, lines, impl, meta))

    # -- error behaviour (correspondence only) ---------------------------------------------------
    F = Fld(7)
    lines, impl, meta = [], [], []
    st, res, _c, _r = real_split(F, [], [], 1, 3, 'list', False)
    lines.append('split 1 3 - -')
    impl.append(res if st == 'err' else show_matrix(res))
    meta.append({'kind': 'split-empty'})
    # a field with at most m elements is refused when t > 0 (one party would evaluate the polynomial at 0); t = 0 is dealt
    for (t_, m_) in ((1, 7), (2, 9), (0, 7), (1, 6)):
        c_ = [3] * t_
        st, res, _c, _r = real_split(F, [2], c_, t_, m_, 'list', False)
        lines.append(f'split {t_} {m_} 2 ' + (','.join(map(str, c_)) if c_ else '-'))
        impl.append(res if st == 'err' else show_matrix(res))
        meta.append({'kind': 'split-small-field', 't': t_, 'm': m_})
    batches.append((F, lines, impl, meta))

    ctx.note('observations (triaged, no finding): (a) np_random_split lays the randbelow stream out as C.reshape(t,n) '
             '(coefficient of X^(j+1) of secret h = stream[j*n+h]) whereas random_split uses stream[h*t+k] for X^(t-k): on '
             'identical randomness the share matrices differ for t >= 2 or n >= 2 but recombine to the same secrets; each '
             'variant is checked against the oracle with its own layout; (b) np_recombine(field, points, x_rs=[]) raises '
             'ValueError where recombine returns [] (degenerate call, not generated for the np variant)')
    # -- run the model ------------------------------------------------------------------------
    req, exp, info = [], [], []
    for F, lines, impl, meta in batches:
        if F.lean is None or not lines:
            continue
        req.append(F.lean)
        exp.append('ok')
        info.append({'field': F.name})
        req += lines
        exp += impl
        info += meta
    model = common.LeanDriver('Thresha').run(req)
    ctx.compare('random_split/recombine vs MpycV.Thresha (randomSplit/recombine)', exp, model, info)
    for F, lines, impl, meta in batches[:2]:
        if lines:
            ctx.sample({'field': F.name, 'request': lines[-1][:300], 'answer': impl[-1][:300]})


# ---------------------------------------------------------------------------------------------
# source translator tie: current mpyc/thresha.py -> lean/MpycV/Generated/ThreshaSrc.lean
# ---------------------------------------------------------------------------------------------
GEN_FILE = os.path.join(common.LEAN_DIR, 'MpycV', 'Generated', 'ThreshaSrc.lean')
MIRROR_FILE = os.path.join(common.LEAN_DIR, 'MpycV', 'Lemmas', 'ThreshaSrcMirror.lean')
THRESHA_SRC = os.path.join(repo_path.REPO, 'mpyc', 'thresha.py')
# translated function -> functions whose behaviour changes with it (callers in the translated source)
DEPENDENTS = {'recombination_vector': ['recombine_list', 'recombine_one', 'f_S_i', 'pseudorandom_share',
                                       'pseudorandom_share_zero'],
              'recombine_list': [], 'recombine_one': ['f_S_i', 'pseudorandom_share', 'pseudorandom_share_zero'],
              'f_S_i': ['pseudorandom_share', 'pseudorandom_share_zero']}


def _translate_current():
    try:
        text = open(THRESHA_SRC).read()
    except OSError as exc:
        return py2lean_thresha.translate_source('')[0], {'*': f'cannot read {THRESHA_SRC}: {exc}'}
    return py2lean_thresha.translate_source(text)


def generate(ctx):
    """source translator: current mpyc/thresha.py -> lean/MpycV/Generated/ThreshaSrc.lean (deterministic)"""
    text, problems = _translate_current()
    os.makedirs(os.path.dirname(GEN_FILE), exist_ok=True)
    old = open(GEN_FILE).read() if os.path.exists(GEN_FILE) else None
    if old != text:
        tmp = GEN_FILE + f'.tmp{os.getpid()}'
        with open(tmp, 'w') as f:
            f.write(text)
        os.replace(tmp, GEN_FILE)
    for fn, msg in problems.items():
        ctx.note(f'py2lean_thresha: {fn} not translated: {msg}')
    changed = changed_functions(text)
    if changed:
        ctx.note('py2lean_thresha: translated text differs from the pinned mirror for: ' + ', '.join(changed))
    ctx.count('py2lean_thresha/functions translated',
              len(py2lean_thresha.ORDER) - len([k for k in problems if k != '*']))


def _blocks(text):
    out, cur = {}, None
    for ln in text.split('\n'):
        if ln.startswith('-- ≙ thresha.py:'):
            cur = None           # the line number may move without any change of the function
            continue
        if ln.startswith('def ') and ' ' in ln[4:]:
            cur = ln[4:].split()[0].split('.')[0]
            out[cur] = []
        if ln.startswith('end MpycV.'):
            cur = None
        if cur is not None:
            out[cur].append(ln)
    return {k: '\n'.join(v).strip() for k, v in out.items()}


def changed_functions(text=None):
    """translated functions whose Lean text differs from the mirror the bridge lemmas are proved for"""
    if text is None:
        text = _translate_current()[0]
    try:
        mirror = _blocks(open(MIRROR_FILE).read())
    except OSError:
        return list(py2lean_thresha.ORDER)
    cur = _blocks(text)
    return [fn for fn in py2lean_thresha.ORDER if cur.get(fn) != mirror.get(fn)]


def search(ctx):
    """oracle-only random search on the real code (bigger budget); when the source tie broke, the sweep concentrates on
    the functions whose translation changed and on their callers"""
    mine = {'recombination_vector', 'recombine_list', 'recombine_one', 'random_split'}
    focus = sorted(set(changed_functions()) & mine)
    if focus:
        ctx.note('source tie: translation differs from the mirror for ' + ', '.join(focus) +
                 ' -> oracle sweep on random_split / recombine (list, np, all fields)')
    rng = ctx.subrng('search')
    fields = small_fields() + [Fld(G.P64), Fld(2, 8), Fld(3, 5), Fld(11), Fld(2, 4)]
    # two fields of the SAME order with different moduli, used in turn with the same x-coordinates: anything cached per
    # (order, points) instead of per field shows up as a wrong recombination in the second field
    fields += [Fld(2, 8, lean_tables=False, modulus=m_) for m_ in (283, 285)] + \
              [Fld(3, 2, lean_tables=False, modulus=m_) for m_ in (10, 14)]
    for _ in range(ctx.scale(3000, 20000)):
        F = rng.choice(fields)
        m = rng.randrange(1, min(F.q - 1, 8) + 1)
        t = rng.randrange(0, m)
        n = rng.choice([1, 2, 3])
        secrets = [rng.randrange(F.q) for _ in range(n)]
        stream = [rng.randrange(F.q) for _ in range(t * n)]
        variant = 'np' if (np is not None and rng.random() < 0.3) else 'list'
        elt = True if variant == 'np' else rng.random() < 0.5
        sres = check_split(ctx, F, secrets, stream, t, m, variant, elt, [], [], [])
        if sres is None:
            return
        k = rng.randrange(t + 1, m + 1)
        subset = rng.sample(range(m), k)
        x_rs = [rng.randrange(F.q) for _ in range(2)] if rng.random() < 0.7 else 0
        if not recombine_from_split(ctx, F, t, m, sres, subset, x_rs, variant, False, [], [], [],
                                    {'secrets': secrets, 'stream': stream, 'elt': elt}):
            return


def replay(ctx, data):
    """re-execute one replay dict on the real code"""
    if data.get('kind') in ('prss', 'fsi'):          # found by the C15 oracle sweep of the focused search
        from props import c15
        return c15.replay(ctx, data)
    F = Fld.from_desc(data['field'])
    if data.get('kind') == 'split':
        before = len(ctx.violations)
        check_split(ctx, F, [int(x) for x in data['secrets']], [int(x) for x in data['stream']], int(data['t']),
                    int(data['m']), data['variant'], bool(data['elt']), [], [], [])
        bad = ctx.violations[before:]
        del ctx.violations[before:]
        return (not bad), (bad[0][0] if bad else 'split agrees with the oracle')
    if data.get('kind') == 'recombine':
        xs = [int(x) for x in data['xs']]
        rows = [[int(v) for v in r] for r in data['rows']]
        x_rs = data['x_rs']
        x_rs = [int(x) for x in x_rs] if isinstance(x_rs, list) else int(x_rs)
        variant = data.get('variant', 'list')
        rows_raw = [list(r) for r in rows]
        if F.d > 1:
            rows_raw = [[F.field(v).value for v in r] for r in rows]
        if variant == 'np':
            rows_raw = [np.array(r, dtype=object) for r in rows_raw]
        st, res = real_recombine(F, list(zip(xs, rows_raw)), x_rs, variant)
        ofx = [F.of.from_int(x) for x in xs]
        n = len(rows[0])

        def at(x):
            return [orc.lagrange_at(F.of, [(ofx[i], rows[i][h]) for i in range(len(xs))], F.of.from_int(x))
                    for h in range(n)]
        want = [at(x) for x in x_rs] if isinstance(x_rs, list) else at(x_rs)
        ok = st == 'ok' and res == want
        return ok, f'recombine -> {res}, interpolation oracle -> {want}'
    return True, 'unknown replay kind (nothing to re-execute)'
