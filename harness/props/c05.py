"""C05 — secure floating-point arithmetic approximates float arithmetic.

Model: lean/MpycV/Model/Flt.lean (pair (significand : secure fixed point, exponent : secure int); `add` with
exponent alignment and renormalisation, `mul`, input conversion, output masking), built on
lean/MpycV/Model/Fxp.lean.  Theorems: MpycV.C05.
Tie: single operations and short chains on the real code (harness/simnet.py; m in {1,3,5}, PRSS on/off;
types (s,e) in {(11,5),(24,8),(53,11)}); operands and results are opened as raw (significand, exponent)
pairs; `+`, `-` (secure operands), `*`, negation and input conversion are replayed through lean/Drv/Fxp.lean
with the real randomness of the truncations (recovered from the parties' shares).
Oracle: exact `fractions.Fraction` arithmetic on the opened operand values with the bounds of the
property; normalisation invariant of every result; output conversion.
"""
import math
import os
import random
import sys
from fractions import Fraction as Fr

sys.path.insert(0, os.path.dirname(os.path.dirname(os.path.abspath(__file__))))
import fxp_lib as L  # noqa: E402
from fxp_lib import SimNet  # noqa: E402
from simnet import Scheduler  # noqa: E402
import common  # noqa: E402

LEVEL = 'other'
LEAN_MODULES = ['MpycV.Props.C05']
LEAN_NAMESPACES = ['MpycV.C05']
REQUIRED_THEOREMS = ['mul_value', 'norm_inv_mul', 'norm_inv_addNorm', 'add_renorm_core', 'normFactor_eval', 'neg_exact',
                     'cmp_sign', 'io_exact', 'io_bound', 'output_zero_exponent', 'recip_normal', 'recip_clamp_exact', 'select_components',
                     'align_shift_cap_not_needed', 'align_shift_cap_out_of_range']
RULE = ('case = (party configuration, type (s,e) in {(11,5),(24,8),(53,11)}, operation in {+,-,*,/ (secure and public float '
        'operand), <,<=,==,>=,>,!=, neg, abs, input/output}, operands): random significands (full double precision and s-bit), '
        'exponents within a quarter of the exponent range; adversarial: cancellation x + (-x(1+delta)), equal exponents, powers of '
        'two (|significand| = 1/2 and 1), exponent gaps around and beyond the significand length, zero operands, chains of two '
        'operations; distinct = distinct (type, op, operand raw pairs); non-trivial = both operands non-zero')
EXPLANATION = ('PROVED in Lean (MpycV.C05, relative to the fixed-point lemmas of C02/C03 and the specification of the bit protocols): '
               'product: the result denotes s*2^(E1+E2) with s within one unit 2^-f of the exact significand product (hence relative '
               'error < 4u <= 16u) and is normalised (0 or 1/2 <= |significand| <= 1) for normalised operands, for every randomness; '
               'negation exact; comparison bits are the sign/zero test of the significand of the difference; input conversion within '
               'u|x| <= 2u|x| given the exponent the code computes; output masks the exponent of zero; the renormalisation half of + and - '
               '(leading-bit search, scaling with one truncation) returns a normalised significand for every aligned sum |s| <= 2 and '
               'every randomness. VALIDATED ONLY (exploration '
               'against exact rationals): bounds for + and - (16u*max(|x|,|y|)), for / (16u*|x/y|, Newton reciprocal), exactness of '
               'comparisons for separated operands, the alignment half of addition.  Known finding C05-add-zero-operand: a zero operand '
               'carries an arbitrary exponent; adding it to a number with a smaller exponent shifts that number away.')
ASSUMPTIONS = ['to_bits/find/unit_vector/convert/comparison of exponents behave as specified (C01, C06, C30)',
               'math.ceil(math.log(|x|, 2)) returns an exponent e with 2^(e-1) <= |x| <= 2^e (checked per input)',
               'float division/multiplication by 2**e is exact (no overflow/subnormals in the tested range)']
TRUSTED = ['harness/fxp_lib.py randomness recovery; harness/props/c05.py interpreter and Fraction oracle']

TYPES = [(11, 5), (24, 8), (53, 11)]
KEY_ZERO = 'C05-add-zero-operand'
CMPS = {'lt': lambda a, b: a < b, 'le': lambda a, b: a <= b, 'eq': lambda a, b: a == b,
        'ne': lambda a, b: a != b, 'ge': lambda a, b: a >= b, 'gt': lambda a, b: a > b}


# ---------------------------------------------------------------------------------------------
# real code
# ---------------------------------------------------------------------------------------------
def run_cases(cfg, se, cases, seed):
    """cases: list of dicts {'op':, 'x': hex, 'y': hex|None, 'pub': bool, 'then': (op2, z hex)|None}"""
    m, t, no_prss = cfg
    s_, e_ = se
    L._install_logging()
    info = {}

    async def program(mpc):
        import operator
        secflt = mpc.SecFlt(s=s_, e=e_)
        sfx = secflt.significand_type
        info['p'] = int(sfx.field.modulus)
        info['k'] = int(mpc.options.sec_param)
        log = L._LOG[mpc.pid] if L._LOG is not None else None

        async def raw(v):
            S = await mpc.output(v.share[0], raw=True)
            E = await mpc.output(v.share[1])
            return [int(S), bool(v.share[0].integral), int(E)]

        def mark(tag):
            if log is not None:
                log.append(('mark', tag))

        async def apply(op, a, b):
            if op == 'add':
                return a + b
            if op == 'sub':
                return a - b
            if op == 'mul':
                return a * b
            if op == 'div':
                return a / b
            if op == 'radd':
                return b + a
            if op == 'rsub':
                return b - a
            if op == 'rdiv':
                return b / a
            if op in CMPS:
                return getattr(operator, op)(a, b)
            if op == 'neg':
                return -a
            if op == 'abs':
                return abs(a)
            if op == 'io':
                return a
            raise KeyError(op)

        out = []
        for ci, c in enumerate(cases):
            rec = {}
            try:
                x = float.fromhex(c['x'])
                a = secflt(x)
                rec['a'] = await raw(a)
                b = None
                if c.get('y') is not None:
                    y = float.fromhex(c['y'])
                    bs = secflt(y)
                    rec['b'] = await raw(bs)
                    b = y if c.get('pub') else bs
                mark(('pre', ci))
                r = await apply(c['op'], a, b)
                rec['r'] = await raw(r)
                mark(('op', ci))
                rec['out'] = float(await mpc.output(r)).hex()
                if c.get('then'):
                    op2, z = c['then']
                    zs = secflt(float.fromhex(z))
                    rec['z'] = await raw(zs)
                    mark(('pre2', ci))
                    r2 = await apply(op2, r, zs)
                    rec['r2'] = await raw(r2)
                    mark(('op2', ci))
                    rec['out2'] = float(await mpc.output(r2)).hex()
            except (AssertionError, ValueError, ZeroDivisionError, OverflowError) as exc:
                rec['error'] = f'{type(exc).__name__}: {str(exc)[:120]}'
                mark(('err', ci))
            out.append(rec)
        return out

    L._LOG = {i: [] for i in range(m)}
    try:
        net = SimNet(m, t, no_prss=no_prss, seed=seed)
        res = net.run(program)
        log, L._LOG = L._LOG, None
    except Exception as exc:
        L._LOG = None
        return {'error': f'{type(exc).__name__}: {str(exc)[:300]}', 'recs': [], 'p': info.get('p'), 'k': info.get('k')}
    recs = res[0]
    for other in res[1:]:
        if other != recs:
            return {'error': 'parties disagree on opened values', 'recs': recs, 'p': info['p'], 'k': info['k']}
    # split the trunc logs by marks
    seg = {pid: {} for pid in log}
    for pid, ents in log.items():
        cur = []
        for e in ents:
            if e[0] == 'mark':
                seg[pid][e[1]] = cur
                cur = []
            else:
                cur.append(e)
    for ci, rec in enumerate(recs):
        for tag, name in ((('op', ci), 'calls'), (('op2', ci), 'calls2')):
            if tag in seg[0]:
                sl = {pid: seg[pid].get(tag, []) for pid in seg}
                calls = L.recover_calls(sl, t, info['p']) if sl[0] else []
                if calls is not None:
                    rec[name] = calls
    return {'error': None, 'recs': recs, 'p': info['p'], 'k': info['k']}


def _job(job):
    key, cfg, se, seed, n, kind = job
    rng = random.Random(f'{seed}:{key}')
    cases = gen_cases(rng, se, n, kind)
    res = run_cases(tuple(cfg), tuple(se), cases, rng.randrange(1 << 30))
    return {'key': key, 'cfg': list(cfg), 'se': list(se), 'cases': cases, 'res': res}


# ---------------------------------------------------------------------------------------------
# generators
# ---------------------------------------------------------------------------------------------
def rnd_float(rng, s, emax, bits=None):
    bits = bits or rng.choice([s, s, 53, 53, 3, 1])
    mant = rng.getrandbits(bits) | (1 << (bits - 1)) if bits > 1 else 1
    x = mant / (1 << bits)            # in [1/2, 1)
    if rng.random() < 0.15:
        x = rng.choice([0.5, 1.0 - 2.0 ** -53, 0.75, 0.5 + 2.0 ** -(s - 1), 1.0 - 2.0 ** -(s - 1), 0.5 + 2.0 ** -s, 0.5 + 2.0 ** -53])
    e = rng.randrange(-emax, emax + 1)
    return rng.choice([-1, 1]) * x * 2.0 ** e


def gen_cases(rng, se, n, kind):
    s, e = se
    emax = max(1, (1 << (e - 1)) // 4)
    cases = []
    ops = ['add', 'sub', 'mul', 'div', 'add', 'sub', 'mul', 'lt', 'le', 'eq', 'ne', 'ge', 'gt', 'neg', 'abs', 'io',
           'radd', 'rsub', 'rdiv']
    for _ in range(n):
        op = rng.choice(ops)
        x = rnd_float(rng, s, emax)
        y = rnd_float(rng, s, emax)
        r = rng.random()
        if kind == 'adv' or r < 0.35:
            t = rng.random()
            if t < 0.25:      # cancellation
                y = -x * (1 + rng.choice([0, 1, -1, 2, 3, -5]) * 2.0 ** -rng.choice([s - 1, s, s - 2, s // 2, 3]))
                op = rng.choice(['add', 'sub', 'lt', 'eq', 'ge', 'ne']) if op not in ('add', 'sub') else op
                if op == 'sub' or op in CMPS:
                    y = -y
            elif t < 0.45:    # equal exponents
                y = math.copysign(rnd_float(rng, s, 0), rng.choice([-1, 1])) * 2.0 ** math.frexp(x)[1]
            elif t < 0.65:    # powers of two
                x = rng.choice([-1, 1]) * 2.0 ** rng.randrange(-emax, emax + 1)
                if rng.random() < 0.5:
                    y = rng.choice([-1, 1]) * 2.0 ** rng.randrange(-emax, emax + 1)
            elif t < 0.9:     # exponent gaps around the significand length
                gap = rng.choice([s - 2, s - 1, s, s + 1, s + 2, 2 * s, 1, 2])
                gap = min(gap, 2 * emax)
                ex = rng.randrange(-emax + gap, emax + 1) if emax >= gap else emax
                x = rng.choice([-1, 1]) * rnd_float(rng, s, 0).__abs__() * 2.0 ** ex
                y = rng.choice([-1, 1]) * rnd_float(rng, s, 0).__abs__() * 2.0 ** (ex - gap)
                if rng.random() < 0.5:
                    x, y = y, x
            else:             # zero operands (multiplication, comparison with itself, zero as SMALLER exponent side)
                if op in ('div', 'rdiv'):
                    op = 'mul'
                x = 0.0 if rng.random() < 0.5 else x
                if x != 0.0:
                    y = 0.0
        if op in ('div',) and y == 0:
            y = 1.5
        if op == 'rdiv' and x == 0:
            x = 1.5
        c = {'op': op, 'x': x.hex(), 'y': None if op in ('neg', 'abs', 'io') else y.hex(),
             'pub': op in ('radd', 'rsub', 'rdiv') or (op in ('add', 'sub', 'mul', 'div') and rng.random() < 0.2)}
        if c['pub'] and op == 'div' and y == 0:
            c['pub'] = False
        if kind != 'adv' and rng.random() < 0.2 and op in ('add', 'sub', 'mul'):
            c['then'] = (rng.choice(['add', 'mul', 'sub']), rnd_float(rng, s, emax).hex())
        cases.append(c)
    return cases


# inputs just above a power of two (constructor used math.log only; fixed by 60f2793)
DIRECTED_POW2 = [{'op': 'io', 'x': (256.00000000000006).hex(), 'y': None, 'pub': False},
                 {'op': 'io', 'x': (1024 * (1 + 2.0 ** -52)).hex(), 'y': None, 'pub': False},
                 {'op': 'add', 'x': (1.5).hex(), 'y': (2.0 ** -8 * (1 + 2.0 ** -52)).hex(), 'pub': True},
                 {'op': 'mul', 'x': (2.0 ** 5).hex(), 'y': (-(2.0 ** -8) * (1 + 2.0 ** -52)).hex(), 'pub': False},
                 {'op': 'io', 'x': ((1 - 2.0 ** -53) * 2.0 ** 9).hex(), 'y': None, 'pub': False}]
# just below a power of two where math.log rounds up (needs a 30+ bit exponent range: types with e >= 8)
DIRECTED_POW2_BIG = [{'op': 'io', 'x': ((1 - 2.0 ** -53) * 2.0 ** 29).hex(), 'y': None, 'pub': False},
                     {'op': 'mul', 'x': ((1 - 2.0 ** -53) * 2.0 ** 51).hex(), 'y': (0.75).hex(), 'pub': False}]
DIRECTED_ZERO = [{'op': 'add', 'x': (0.0).hex(), 'y': (1.5 * 2.0 ** -40).hex(), 'pub': False},
                 {'op': 'sub', 'x': (1.0).hex(), 'y': (1.0).hex(), 'pub': False, 'then': ('add', (1.5 * 2.0 ** -40).hex())}]


# ---------------------------------------------------------------------------------------------
# oracle
# ---------------------------------------------------------------------------------------------
def val(raw, f):
    S, _fl, E = raw
    return Fr(S, 1 << f) * (Fr(2) ** E)


def check_case(se, c, rec, p=None):
    """-> list of (kind, msg); kind 'zero' marks the known zero-operand class"""
    s, e = se
    f = s - 1
    u = Fr(1, 1 << (s - 1))
    out = []
    if 'error' in rec:
        return [('crash', f"{c['op']} raised {rec['error']}")]

    def normal(raw, what):
        S, _fl, E = raw
        if S != 0 and not ((1 << (f - 1)) <= abs(S) <= (1 << f)):
            out.append(('norm', f'{what}: significand {S}/2^{f} is not 0 and not in [1/2, 1]'))
        if not (-(1 << (e - 1)) <= E < (1 << (e - 1))) and S != 0:
            out.append(('norm', f'{what}: exponent {E} does not fit {e} bits'))

    def one(op, a, b, r, outhex, pub_y=None):
        xa = val(a, f)
        normal(a, 'operand')
        normal(r, f'result of {op}')
        xr = val(r, f)
        if outhex is not None:
            o = Fr(float.fromhex(outhex))
            if o != xr:
                out.append(('output', f'output {float(o)!r} differs from the opened pair {r} = {float(xr)!r}'))
        if op == 'io':
            return
        zero_class = (a[0] == 0) or (b is not None and b[0] == 0)
        if op in ('neg', 'abs'):
            want = -xa if op == 'neg' else abs(xa)
            if xr != want:
                out.append(('bound', f'{op} of {float(xa)!r} gave {float(xr)!r}'))
            return
        xb = val(b, f)
        if op in ('radd', 'rsub', 'rdiv'):
            xa, xb = xb, xa
            op = op[1:]
        if op in ('add', 'sub'):
            exact = xa + xb if op == 'add' else xa - xb
            bound = 16 * u * max(abs(xa), abs(xb))
        elif op == 'mul':
            exact = xa * xb
            bound = 16 * u * abs(exact)
        elif op == 'div':
            if xb == 0:
                return
            exact = xa / xb
            bound = 16 * u * abs(exact)
        elif op in CMPS:
            if abs(xa - xb) > 16 * u * max(abs(xa), abs(xb)) or xa == xb:
                want = int(CMPS[op](xa, xb))
                if xr != want:
                    kind = 'zero' if zero_class else 'bound'
                    out.append((kind, f'{float(xa)!r} {op} {float(xb)!r} gave {float(xr)!r}, expected {want}'))
            elif xr not in (0, 1):
                out.append(('bound', f'comparison result {float(xr)!r} is not a bit'))
            return
        else:
            return
        if abs(xr - exact) > bound:
            kind = 'zero' if (zero_class and op in ('add', 'sub')) else 'bound'
            out.append((kind, f'{float(xa)!r} {op} {float(xb)!r} gave {float(xr)!r}, exact {float(exact)!r}, '
                              f'error {float(abs(xr - exact)):.3g} > bound {float(bound):.3g}'))

    # input conversion
    for nm, hx in (('a', c['x']), ('b', c.get('y')), ('z', (c.get('then') or (None, None))[1])):
        if hx is None or nm not in rec:
            continue
        x = Fr(float.fromhex(hx))
        xh = val(rec[nm], f)
        if abs(xh - x) > 2 * u * abs(x):
            out.append(('io', f'input {float(x)!r} became {float(xh)!r}: error > 2u|x|'))
        S, _fl, E = rec[nm]
        if x != 0 and not (Fr(2) ** (E - 1) <= abs(x) <= Fr(2) ** E):
            out.append(('io', f'input {float(x)!r} got exponent {E}'))
        if x == 0 and (S != 0 or E != 0):
            out.append(('io', f'input 0 became {rec[nm]}'))
    one(c['op'], rec['a'], rec.get('b'), rec['r'], rec.get('out'))
    if c.get('then') and 'r2' in rec:
        one(c['then'][0], rec['r'], rec['z'], rec['r2'], rec.get('out2'))
    return out


# ---------------------------------------------------------------------------------------------
# correspondence
# ---------------------------------------------------------------------------------------------
def fstr(raw):
    return f'{raw[0]}:{1 if raw[1] else 0}:{raw[2]}'


def corr_items(se, c, rec, p, k):
    s, e = se
    T = f'{s + 1} {s - 1} {k} {p}'
    items = []
    if 'error' in rec:
        return items
    for nm, hx in (('a', c['x']), ('b', c.get('y')), ('z', (c.get('then') or (None, None))[1])):
        if hx is not None and nm in rec:
            items.append({'req': [f'fltin {T} {L.dy(float.fromhex(hx))} {rec[nm][2]}'], 'impl': fstr(rec[nm]), 'mode': 'exact',
                          'what': 'flt-input'})

    def one(op, a, b, r, calls):
        if op in ('radd', 'rsub'):
            a, b, op = b, a, op[1:]
        if op == 'neg':
            items.append({'req': [f'fltneg {T} {fstr(a)}'], 'impl': fstr(r), 'mode': 'exact', 'what': 'flt-neg'})
            return
        if op not in ('add', 'sub', 'mul') or calls is None:
            return
        rn = [L.calls_to_rnds([cl], p) for cl in calls]
        rn = [x[0] for x in rn if x]
        if op == 'mul':
            if len(rn) >= 1:
                items.append({'req': [f'fltmul {T} {fstr(a)} {fstr(b)} {L.rstr(rn[0])}'], 'impl': fstr(r), 'mode': 'exact', 'what': 'flt-mul'})
            return
        if op == 'sub':
            b = [-b[0], b[1], b[2]]
        if len(rn) >= 2:
            lines = [f'fltadd {T} {fstr(a)} {fstr(b)} {L.rstr(rn[0])} {L.rstr(r2)}' for r2 in rn[1:]]
            items.append({'req': lines, 'impl': fstr(r), 'mode': 'member', 'what': 'flt-add'})

    one(c['op'], rec['a'], rec.get('b'), rec['r'], rec.get('calls'))
    if c.get('then') and 'r2' in rec:
        one(c['then'][0], rec['r'], rec['z'], rec['r2'], rec.get('calls2'))
    return items


# ---------------------------------------------------------------------------------------------
def run(ctx):
    import multiprocessing as mp
    cfgs = [(1, 0, False), (3, 1, False), (3, 1, True)] + ([(1, 0, True), (5, 2, False), (5, 2, True)] if ctx.thorough else [(5, 2, False)])
    jobs = []
    for ci, cfg in enumerate(cfgs):
        for se in TYPES:
            reps = ctx.scale(4, 24) if ci < 3 else ctx.scale(1, 6)
            n = {11: 10, 24: 7, 53: 4}[se[0]]
            for i in range(reps):
                jobs.append((f'c05:{cfg}:{se}:{i}', cfg, se, ctx.seed, n, 'adv' if i % 2 else 'mix'))
    with mp.get_context('fork').Pool(8) as pool:
        results = pool.map(_job, jobs, chunksize=1)
    # directed: the known zero-operand finding
    for cfg in ((1, 0, False), (3, 1, False)):
        res = run_cases(cfg, (11, 8), DIRECTED_ZERO, ctx.seed + 5)
        results.append({'key': 'zero', 'cfg': list(cfg), 'se': [11, 8], 'cases': DIRECTED_ZERO, 'res': res})
    for se in TYPES:
        cs = DIRECTED_POW2 + (DIRECTED_POW2_BIG if se[1] >= 8 else [])
        res = run_cases((1, 0, False), se, cs, ctx.seed + 6)
        results.append({'key': 'pow2', 'cfg': [1, 0, False], 'se': list(se), 'cases': cs, 'res': res})
    items = []
    for r in results:
        handle(ctx, r, items)
    L.run_corr(ctx, items, 'secure float pair operations (sectypes.SecureFloat vs MpycV.Flt)')
    subset_outputs(ctx)
    placeholders(ctx)
    reciprocals(ctx)
    narrow_exponent_types(ctx)


SUBSET_LISTS = [[0.0, 3.5, -1250.0, 2.0 ** -7], [3.5, 0.0, 0.0], [0.0], [0.0, 0.0, 1.0], [-2.75, 1.5, 0.0, 96.0], [1024.0]]


def subset_output_case(m, t, no_prss, se, vals, R, sender, seed):
    """mpc.output of a LIST of secure floats (zeros at different positions) to a proper subset of the parties: receivers obtain
    the exact values (all dyadic, representable), the others None"""
    async def program(mpc):
        secflt = mpc.SecFlt(s=se[0], e=se[1])
        x = mpc.input([secflt(v) for v in vals], senders=sender)
        out = await mpc.output(x, receivers=R)
        one = await mpc.output(x[-1], receivers=R)
        return [None if v is None else float(v) for v in out], None if one is None else float(one)
    try:
        res = SimNet(m, t, no_prss=no_prss, seed=seed).run(program)
    except Exception as exc:  # noqa: BLE001
        return f'{type(exc).__name__}: {str(exc)[:200]}'
    Rl = [R] if isinstance(R, int) else list(R)
    for p in range(m):
        out, one = res[p]
        if p in Rl:
            if out != vals or one != vals[-1]:
                return f'receiver {p} obtained {out} / {one}, the secure floats hold {vals} / {vals[-1]}'
        elif any(v is not None for v in out) or one is not None:
            return f'non-receiver {p} obtained {out} / {one}'
    return None


def subset_outputs(ctx):
    rng = ctx.subrng('subset-output')
    for (m, t) in ((2, 0), (3, 1), (4, 1)) + (((5, 2),) if ctx.thorough else ()):
        for vals in SUBSET_LISTS:
            for _ in range(ctx.scale(1, 4)):
                k = rng.randrange(1, m)
                R = sorted(rng.sample(range(m), k)) if rng.random() < 0.8 else rng.randrange(m)
                sender = rng.randrange(m)
                no_prss = rng.random() < 0.3
                se = rng.choice(TYPES[:2])
                seed = rng.randrange(10**9)
                msg = subset_output_case(m, t, no_prss, se, vals, R, sender, seed)
                ctx.case(('subset-output', m, t, no_prss, tuple(se), tuple(vals), repr(R), sender), nontrivial=True)
                ctx.count('op:output-list-to-subset')
                if msg:
                    ctx.violation(f'C05: output of {vals} to receivers {R} (m={m}, sender {sender}): ' + msg,
                                  {'kind': 'subset-output', 'm': m, 't': t, 'no_prss': no_prss, 'se': list(se), 'vals': vals,
                                   'R': R, 'sender': sender, 'seed': seed})
                    return


def placeholder_case(m, t, no_prss, se, a, b, x, op, waiter, seed):
    """a secure float RETURNED BY A USER COROUTINE (a placeholder the caller gets at once) is consumed by the next operation
    before the coroutine has finished at some parties and after it at one (that party happens to wait for an opening of it
    first -- awaiting is a local decision): the result must be the same, and right, at every party"""
    async def program(mpc):
        secflt = mpc.SecFlt(s=se[0], e=se[1])

        @mpc.coroutine
        async def f(u, v) -> secflt:
            return (u < v) if op == 'lt' else (u * v) if op == 'mul' else (u + v)

        ua, ub, ux = mpc.input([secflt(a), secflt(b), secflt(x)], senders=0)
        c = f(ua, ub)
        probe = mpc.output(c)
        if mpc.pid == waiter:
            await probe
        y = c * ux
        z = c + ux
        return float(await mpc.output(y)), float(await mpc.output(z)), float(await probe)
    try:
        res = SimNet(m, t, no_prss=no_prss, seed=seed, sched=Scheduler(seed, 'random')).run(program)
    except Exception as exc:  # noqa: BLE001
        return f'{type(exc).__name__}: {str(exc)[:300]}'
    cv = float(a < b) if op == 'lt' else a * b if op == 'mul' else a + b
    u = 2.0 ** -(se[0] - 1)
    for p in range(m):
        y, z, c_ = res[p]
        if abs(c_ - cv) > 16 * u * abs(cv) or abs(y - cv * x) > 48 * u * abs(cv * x) or abs(z - (cv + x)) > 48 * u * max(abs(cv), abs(x)):
            return (f'party {p} obtained c={c_}, c*x={y}, c+x={z}; c = {op}({a}, {b}) = {cv}, x = {x}')
    return None


def reciprocal_case(m, t, no_prss, se, xs, seed):
    """1/x and x.reciprocal(): the significand of the result is NORMALISED (theorem recip_normal) and the value is within
    16u of 1/x; returns a message or None"""
    async def program(mpc):
        secflt = mpc.SecFlt(s=se[0], e=se[1])
        out = []
        for x in xs:
            a = secflt(x)
            for r in (1 / a, a.reciprocal()):
                s_raw = await mpc.output(r.share[0], raw=True)
                out.append((int(s_raw), int(await mpc.output(r.share[1]))))
        return out
    try:
        res = SimNet(m, t, no_prss=no_prss, seed=seed).run(program)
    except Exception as exc:  # noqa: BLE001
        return f'{type(exc).__name__}: {str(exc)[:300]}'
    f = se[0] - 1
    u = 2.0 ** -f
    for i, (s_raw, e_) in enumerate(res[0]):
        x = xs[i // 2]
        if not (2 ** (f - 1) <= abs(s_raw) <= 2 ** f):
            return f'reciprocal of {x}: significand {s_raw}/2^{f} is not normalised (1/2 <= |s| <= 1)'
        val = s_raw / 2 ** f * 2.0 ** e_
        if abs(val - 1 / x) > 16 * u * abs(1 / x):
            return f'reciprocal of {x}: {val}, exact {1 / x} (more than 16u off)'
    if any(r != res[0] for r in res):
        return 'parties disagree'
    return None


def reciprocals(ctx):
    rng = ctx.subrng('reciprocal')
    for se in TYPES[:2]:
        f = se[0] - 1
        edge = [2.0 ** k for k in (-3, 0, 1, 5)] + [-(2.0 ** k) for k in (-2, 0, 3)]           # significand exactly 1/2 ... 1
        edge += [2.0 ** k * (1 + 2.0 ** -(f - 1)) for k in (0, 2)] + [2.0 ** k * (1 - 2.0 ** -f) for k in (1, -1)]
        xs = edge + [rng.choice([-1, 1]) * rng.uniform(0.01, 100.0) for _ in range(4)]
        for (m, t, no_prss) in ((1, 0, False), (3, 1, rng.random() < 0.5)):
            for _ in range(ctx.scale(3, 12) if m == 1 else ctx.scale(1, 3)):
                seed = rng.randrange(10**9)
                msg = reciprocal_case(m, t, no_prss, se, xs, seed)
                ctx.case(('reciprocal', m, t, no_prss, tuple(se), seed), nontrivial=True)
                ctx.count('op:reciprocal-normalised', 2 * len(xs))
                if msg:
                    ctx.violation('C05: ' + msg, {'kind': 'reciprocal', 'm': m, 't': t, 'no_prss': no_prss, 'se': list(se), 'xs': xs,
                                                  'seed': seed})
                    return


NARROW_TYPES = [(6, 2), (24, 4), (53, 5), (6, 3)]     # s - 1 >= 2^e - 1 for the first three: SecFlt(8) is the first


def narrow_case(m, t, no_prss, se, pairs, seed):
    """+, -, <, == on dyadic operands whose results are exactly representable: exact answers expected"""
    async def program(mpc):
        T = mpc.SecFlt(s=se[0], e=se[1])
        out = []
        for a, b in pairs:
            x, y = T(a), T(b)
            out.append([float(v) for v in await mpc.output([x + y, x - y, x < y, x == y])])
        return out
    try:
        res = SimNet(m, t, no_prss=no_prss, seed=seed, sched=Scheduler(seed, 'random'), max_steps=6_000_000).run(program)
    except (Deadlock, PartyError) as exc:
        return f'secure float run over SecFlt(s={se[0]}, e={se[1]}) does not complete: {str(exc)[:300]}'
    for (a, b), got in zip(pairs, res[0]):
        want = [a + b, a - b, float(a < b), float(a == b)]
        if got != want:
            return (f'SecFlt(s={se[0]}, e={se[1]}): {a} (+, -, <, ==) {b} opens {got}, exact results {want} are representable '
                    f'(the alignment shift min(e1 - e2, s-1) needs s-1 to be in range of the e-bit exponent type)')
    if any(r != res[0] for r in res):
        return 'parties obtain different results'
    return None


def narrow_exponent_types(ctx):
    """types whose significand length exceeds the range of the exponent type (repo fix 1c40c3c), among them the DEFAULT
    SecFlt(8): operands and results inside the tiny exponent range"""
    rng = ctx.subrng('narrow')
    vals = [1.0, 0.5, 0.25, 0.75, 0.375, -0.25, -0.5, -0.75, 1.25, 1.5]
    ok = [(a, b) for a in vals for b in vals if all(abs(v) < 2 and not 0 < abs(v) < 0.125 for v in (a + b, a - b))]
    for se in NARROW_TYPES:
        for (m, t, no_prss) in ((1, 0, False), (3, 1, rng.random() < 0.5)):
            pairs = rng.sample(ok, ctx.scale(6, 30) if m == 1 else ctx.scale(3, 10))
            seed = rng.randrange(10**9)
            msg = narrow_case(m, t, no_prss, se, pairs, seed)
            ctx.case(('narrow', m, t, no_prss, tuple(se), seed), nontrivial=True)
            ctx.count('op:narrow-exponent-type', 4 * len(pairs))
            if msg:
                ctx.violation('C05: ' + msg, {'kind': 'narrow', 'm': m, 't': t, 'no_prss': no_prss, 'se': list(se),
                                              'pairs': [list(p_) for p_ in pairs], 'seed': seed})
                return


def placeholders(ctx):
    rng = ctx.subrng('placeholder')
    for (m, t) in ((3, 1), (2, 0)) + (((4, 1), (5, 2)) if ctx.thorough else ()):
        for op in ('lt', 'mul', 'add'):
            for _ in range(ctx.scale(1, 4)):
                se = rng.choice(TYPES[:2])
                a, b, x = (rng.choice([1.25, 2.5, -3.0, 0.75, 6.0]) for _ in range(3))
                waiter = rng.randrange(m)
                no_prss = rng.random() < 0.3
                seed = rng.randrange(10**9)
                msg = placeholder_case(m, t, no_prss, se, a, b, x, op, waiter, seed)
                ctx.case(('placeholder', m, t, no_prss, tuple(se), a, b, x, op, waiter), nontrivial=True)
                ctx.count('op:coroutine-result-consumed-early/late')
                if msg:
                    ctx.violation(f'C05: secure float returned by a user coroutine, consumed at a party-dependent moment '
                                  f'(m={m}, waiter {waiter}): ' + msg,
                                  {'kind': 'placeholder', 'm': m, 't': t, 'no_prss': no_prss, 'se': list(se), 'a': a, 'b': b,
                                   'x': x, 'op': op, 'waiter': waiter, 'seed': seed})
                    return


def handle(ctx, r, items=None):
    se = tuple(r['se'])
    res = r['res']
    ctx.count(f'cfg:m={r["cfg"][0]},t={r["cfg"][1]},{"noprss" if r["cfg"][2] else "prss"}')
    ctx.count(f'type:{se[0]},{se[1]}')
    if res['error']:
        ctx.violation(f'C05: run did not complete: {res["error"]}',
                      {'kind': 'flt', 'cfg': r['cfg'], 'se': r['se'], 'cases': r['cases'], 'seed': ctx.seed})
        return
    reported = set()
    for c, rec in zip(r['cases'], res['recs']):
        nz = 'a' in rec and rec['a'][0] != 0 and ('b' not in rec or rec['b'][0] != 0)
        ctx.case((se, c['op'], repr(rec.get('a')), repr(rec.get('b')), repr(rec.get('z'))), nontrivial=nz)
        ctx.count('op:' + c['op'] + (':pub' if c.get('pub') else ''))
        if len(ctx.samples) < 3 and c.get('y'):
            ctx.sample({'cfg': r['cfg'], 'se': r['se'], 'case': c, 'opened': {k: rec.get(k) for k in ('a', 'b', 'r', 'out')}})
        for kind, msg in check_case(se, c, rec):
            rep = {'kind': 'flt', 'cfg': r['cfg'], 'se': r['se'], 'cases': [c], 'seed': ctx.seed, 'check': kind,
                   'observed': {k: v for k, v in rec.items() if not k.startswith('calls')}}
            if kind == 'zero':
                if kind not in reported:
                    reported.add(kind)
                    rep['finding_key'] = KEY_ZERO
                    ctx.violation('C05: ' + msg, rep)
                continue
            ctx.violation('C05: ' + msg, rep)
            break
        if items is not None:
            its = corr_items(se, c, rec, res['p'], res['k'])
            for it in its:
                it['origin'] = {'cfg': r['cfg'], 'se': r['se'], 'case': c}
            items.extend(its)


def replay(ctx, data):
    if data.get('kind') == 'narrow':
        msg = narrow_case(data['m'], data['t'], data['no_prss'], tuple(data['se']), [tuple(p_) for p_ in data['pairs']], data['seed'])
        return msg is None, msg or 'ok: exact sums, differences and comparisons'
    if data.get('kind') == 'reciprocal':
        msg = reciprocal_case(data['m'], data['t'], data['no_prss'], tuple(data['se']), data['xs'], data['seed'])
        return msg is None, msg or 'ok'
    if data.get('kind') == 'placeholder':
        msg = placeholder_case(data['m'], data['t'], data['no_prss'], tuple(data['se']), data['a'], data['b'], data['x'],
                               data['op'], data['waiter'], data['seed'])
        return msg is None, msg or 'ok'
    if data.get('kind') == 'subset-output':
        msg = subset_output_case(data['m'], data['t'], data['no_prss'], tuple(data['se']), data['vals'], data['R'],
                                 data['sender'], data['seed'])
        return msg is None, msg or 'ok'
    res = run_cases(tuple(data['cfg']), tuple(data['se']), data['cases'], data.get('seed', 0))
    if res['error']:
        return False, res['error']
    key = data.get('finding_key')
    msgs = []
    for c, rec in zip(data['cases'], res['recs']):
        for kind, msg in check_case(tuple(data['se']), c, rec):
            if key:
                if kind == 'zero':
                    msgs.append(msg)
            elif kind != 'zero':
                msgs.append(msg)
    if msgs:
        return False, msgs[0]
    return True, 'ok'


def search(ctx):
    import multiprocessing as mp
    jobs = []
    for cfg in ((1, 0, False), (3, 1, False)):
        for se in TYPES:
            for i in range(ctx.scale(12, 40)):
                jobs.append((f'c05s:{cfg}:{se}:{i}', cfg, se, ctx.seed + 1, 10, 'adv' if i % 2 else 'mix'))
    with mp.get_context('fork').Pool(8) as pool:
        for r in pool.map(_job, jobs, chunksize=1):
            handle(ctx, r, None)
            if any(not (isinstance(rep, dict) and rep.get('finding_key')) for _, rep in ctx.violations):
                return
