"""C14 — sharings dealt during protocols have full threshold degree.

Model: lean/MpycV/Model/Share.lean + Thresha; theorems MpycV.C14 (dealt_degree_exact_generic,
payload_uniform, no_share_in_clear — corollaries of the C13 counting theorems).
Tie: every `thresha.random_split` call the runtime makes in multi-party simulator runs (input, resharing,
no-PRSS randomness, random bits) is monitored: threshold argument = the runtime's threshold, number of
parties, exactly t fresh `secrets.randbelow(order)` draws per secret; the dealt share columns are decided
by the Lean `consistentB` with t (must hold, secret = dealt value) and with t-1 (must FAIL unless the
leading coefficient drawn is 0): degree exactly t; the bytes put on the wire under the dealing's label
are exactly the serialisation of the subshare rows (independent decoder), and — in fields too large for
chance hits — no dealt row element equals the dealt secret or the dealer's own subshare.
"""
import os
import sys
sys.path.insert(0, os.path.dirname(os.path.dirname(os.path.abspath(__file__))))
import simnet
from simnet import SimNet, Scheduler, Deadlock, PartyError, parse_frames
import sharemon
import programs
import common

LEVEL = 'proof'
LEAN_MODULES = ['MpycV.Props.C14']
LEAN_NAMESPACES = ['MpycV.C14']
REQUIRED_THEOREMS = ['dealt_degree_exact_generic', 'payload_uniform', 'no_share_in_clear', 'point_zero_share_is_secret',
                     'last_row_is_secret_when_m_eq_p']
RULE = ('case = one random_split call made by the runtime (origin _distribute/_reshare/…, dealer, batch) in a run (corpus '
        'program, m, t >= 1, PRSS on/off, schedule seed); distinct = (run, dealer, call index); non-trivial = t >= 1 and the '
        'dealing reached the wire (m - 1 subshare rows found under its label)')
ASSUMPTIONS = ['secrets.randbelow is uniform and independent (the harness replaces it by a seeded stream and only checks how '
               'it is called)', 'chance equalities are excluded for field orders above 2^40 only']

CFGS = [(3, 1, False), (3, 1, True), (5, 2, False), (5, 2, True), (4, 1, True), (5, 1, False)]


def check_run(ctx, name, m, t, no_prss, seed, lines, exps, metas, t_initial=None):
    prog = programs.PROGRAMS[name][0]()
    net = SimNet(m, t, no_prss=no_prss, seed=seed, sched=Scheduler(seed, 'random'), max_steps=2_000_000, t_initial=t_initial)
    try:
        with sharemon.ShareMonitor(net, record_results=False) as mon:
            net.run(prog)
    except (Deadlock, PartyError) as exc:
        return f'program {name} does not run: {str(exc)[:300]}'
    # frames per directed channel, by label
    frames = {}
    for (a, b), stream in net.wire.items():
        hs_len = 0
        if a < b:
            hs_len = 2 + (0 if no_prss else 16 * len(net.rts[a]._prss_keys_to_peer(b)))
        _, fr, _ = parse_frames(stream, hs_len)
        frames[(a, b)] = dict(fr)
    for p in range(m):
        for ci, sp in enumerate(mon.splits[p]):
            if sp.get('monitor_error'):
                return f'np_random_split dealing #{ci} by party {p} in {name} could not be observed: {sp["monitor_error"]}'
            what = f'{sp["origin"]} {"array " if sp.get("np") else ""}dealing #{ci} by party {p} in {name}'
            ctx.count('origin:' + sp['origin'])
            if sp['t'] != t or sp['m'] != m:
                return f'{what}: random_split called with t={sp["t"]}, m={sp["m"]} but threshold is {t}, parties {m}'
            if t >= 1 and sp['order'] <= m:
                return (f'{what}: dealing over a field of order {sp["order"]} <= m={m}: the evaluation points 1..m are not distinct '
                        f'non-zero field elements (the party whose point is 0 receives the dealt value itself as its share)')
            draws = sp['draws']
            if len(draws) != t * sp['n'] or any(d[0] != 'randbelow' or d[1] != sp['order'] for d in draws):
                return (f'{what}: expected {t}*{sp["n"]} randbelow({sp["order"]}) draws, saw '
                        f'{[(d[0], d[1]) for d in draws][:6]} ({len(draws)} draws)')
            mod = sp['modulus']
            onwire = 0
            if mod is not None:
                for h in range(sp['n']):
                    col = [sp['shares'][i][h] for i in range(m)]
                    ok, secret = sharemon.consistent(col, t, mod)
                    if not ok or secret != sp['secrets'][h] % mod:
                        return f'{what}: dealt column {h} is not a degree-<= {t} sharing of the dealt value'
                    # coefficient of X^t: random_split draws c[0..t-1] per secret with c[0] leading; np_random_split draws a
                    # (t, n) matrix row by row, row j holding the coefficients of X^(j+1)
                    lead = draws[(t - 1) * sp['n'] + h][2] if sp.get('np') else draws[h * t][2]
                    low_ok = sharemon.consistent(col, t - 1, mod)[0]
                    if low_ok != (lead == 0):
                        return f'{what}: column {h} has degree < t although the leading coefficient {lead} is non-zero'
                    if len(lines) < ctx._max_lines:
                        lines.append('cons %d %d %s' % (mod, t, ','.join(map(str, col))))
                        exps.append(f'ok {secret}')
                        metas.append(what)
                        lines.append('cons %d %d %s' % (mod, t - 1, ','.join(map(str, col))))
                        exps.append(f'ok {secret}' if low_ok else 'bad')
                        metas.append(what + ' (t-1)')
                    if mod > 2**40 and m > 1:
                        for j in range(m):
                            if j != p and col[j] in (sp['secrets'][h] % mod, col[p]):
                                return f'{what}: subshare for party {j} equals the dealt value / the dealer\'s own subshare in the clear'
                # wire: rows under the dealing's label
                bl = sp['byte_length']
                if sp['origin'] in ('_distribute', '_reshare') and bl:
                    for j in range(m):
                        if j == p:
                            continue
                        pl = frames.get((p, j), {}).get(sp['label'])
                        if pl is None:
                            continue
                        exp = b''.join(int(v).to_bytes(bl, 'little') for v in sp['shares'][j])
                        # several dealings may share a label only if they are the same call; compare
                        if pl != exp:
                            # _distribute with several senders uses one label per call: other sender's rows differ; accept
                            # only exact equality for messages sent by THIS dealer
                            return f'{what}: bytes on the wire to party {j} under the dealing label differ from the subshare row'
                        if pl == exp:
                            onwire += 1
            ctx.case((name, m, t, no_prss, seed, p, ci), nontrivial=t >= 1 and onwire == m - 1)
    if len(ctx.samples) < 2 and mon.splits[0]:
        sp = mon.splits[0][0]
        ctx.sample({'run': f'{name} m={m} t={t} seed={seed}', 'origin': sp['origin'], 'draws': sp['draws'][:3],
                    'secrets': sp['secrets'][:2], 'shares': [r[:2] for r in sp['shares']]})
    return None


def run(ctx):
    rng = ctx.rng
    ctx._max_lines = ctx.scale(4000, 40000)
    lines, exps, metas = [], [], []
    names = ['arith', 'fxp', 'mixed_await', 'fld_conv', 'seclist_random', 'bits_sort', 'output_subset', 'np', 'smallfld']
    for (m, t, no_prss) in CFGS + ([(7, 3, False), (7, 2, True), (6, 2, False)] if ctx.thorough else []):
        for name in names:
            for _ in range(ctx.scale(1, 6)):
                seed = rng.randrange(10**9)
                msg = check_run(ctx, name, m, t, no_prss, seed, lines, exps, metas)
                ctx.count('program:' + name)
                if msg:
                    ctx.violation('C14: ' + msg, {'kind': 'deal', 'program': name, 'm': m, 't': t, 'no_prss': no_prss, 'seed': seed})
                    return
    # the program assigns mpc.threshold after the runtime was created with another threshold (PRSS on and off): every dealing
    # must use the CURRENT threshold
    for (m, t, no_prss, t0) in [(3, 1, True, 0), (5, 2, True, 1), (3, 1, False, 0), (5, 1, True, 2)] + \
            ([(4, 1, True, 0), (5, 2, False, 0), (7, 3, True, 1)] if ctx.thorough else []):
        for name in ('arith', 'fxp'):
            seed = rng.randrange(10**9)
            msg = check_run(ctx, name, m, t, no_prss, seed, lines, exps, metas, t_initial=t0)
            ctx.count('program:threshold-reassigned')
            if msg:
                ctx.violation('C14: ' + msg, {'kind': 'deal', 'program': name, 'm': m, 't': t, 'no_prss': no_prss, 'seed': seed,
                                              't_initial': t0})
                return
    model = common.LeanDriver('Share').run(lines)
    ctx.compare('dealt columns (independent interpolation vs MpycV.Share.consistentB, degree t and t-1)', exps, model, metas)


def search(ctx):
    rng = ctx.subrng('search')
    ctx._max_lines = 0
    names = [n for n in programs.PROGRAMS if 'threshold' not in programs.PROGRAMS[n][1]]   # deals use the CURRENT threshold
    for k in range(ctx.scale(200, 2000)):
        m, t, no_prss = rng.choice(CFGS)
        name = names[k % len(names)]
        seed = rng.randrange(10**9)
        msg = check_run(ctx, name, m, t, no_prss, seed, [], [], [])
        if msg:
            ctx.violation('C14: ' + msg, {'kind': 'deal', 'program': name, 'm': m, 't': t, 'no_prss': no_prss, 'seed': seed})
            return


def replay(ctx, data):
    ctx._max_lines = 0
    msg = check_run(ctx, data['program'], data['m'], data['t'], data['no_prss'], data['seed'], [], [], [],
                    t_initial=data.get('t_initial'))
    return msg is None, msg or 'ok'
