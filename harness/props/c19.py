"""C19 — parties outside the receivers learn nothing from an output.

Model: lean/MpycV/Model/Comm.lean; theorems MpycV.C19 (non-receivers are the target of no message of an
output/transfer and await none).  Tie: traffic recorded in simulator runs for every secure type family
(secint, secfxp, secfld incl. lifted small fields, secgrp, secflt) and transfer graphs: messages addressed
to non-receivers inside the operation window, by originating protocol, vs the Lean driver's send sets.
For secure floats output to a subset the only admissible traffic to a non-receiver are the leader's
`input` dealing and one `schur_prod` resharing (both fresh degree-t dealings: C13/C14).
"""
import os
import sys
sys.path.insert(0, os.path.dirname(os.path.dirname(os.path.abspath(__file__))))
import simnet
from simnet import SimNet, Scheduler, Deadlock, PartyError
import obs
import common
import comm_src

LEVEL = 'proof'
LEAN_MODULES = ['MpycV.Props.C19', 'MpycV.PropsGen.CommSrcTie']
LEAN_NAMESPACES = ['MpycV.C19', 'MpycV.CommSrcTie']
REQUIRED_THEOREMS = ['output_nonreceiver_silent', 'output_traffic_subset', 'transfer_nonreceiver_silent',
                     'transfer_arcs_nonreceiver_silent',
                     # source tie (PropsGen/CommSrcTie.lean): routing generated from the current runtime.py = model
                     'outSends_src_eq', 'outRecvs_src_eq', 'transferSends_src_eq', 'transferMySenders_src_eq',
                     'transferMyReceivers_src_eq', 'arcsMySenders_src_eq', 'arcsMyReceivers_src_eq',
                     'dictMySenders_src_eq', 'dictMyReceivers_src_eq', 'output_nonreceiver_silent_src',
                     'transfer_nonreceiver_silent_src', 'transfer_arcs_nonreceiver_silent_src',
                     'transfer_dict_nonreceiver_silent_src']
RULE = ('scenario = (m in 2..7, t, PRSS on/off, schedule seed, secure type family, receiver subset R (all subsets for '
        'm <= 4 in thorough, random otherwise) or transfer graph, output threshold); distinct = scenario tuples; '
        'non-trivial = some party is a non-receiver and some message is on the wire')
ASSUMPTIONS = ['secure floats: the two dealings that reach non-receivers are fresh degree-t sharings (properties C13/C14)',
               'message origin is read from the calling protocol frame (harness/obs.py)']
TYPES = ['secint', 'secfxp', 'secfld101', 'secfld256', 'secfld3', 'secgrp_sym', 'secgrp_qr', 'secflt', 'list_secint']



def generate(ctx):
    """source translator: routing expressions of the current mpyc/runtime.py -> lean/MpycV/Generated/CommSrc.lean"""
    comm_src.generate(ctx)

def mk_value(mpc, ty, pid):
    if ty == 'secint':
        return mpc.SecInt(16)(-77), -77
    if ty == 'list_secint':
        S = mpc.SecInt(16)
        return [S(5), S(-6), S(7)], [5, -6, 7]
    if ty == 'secfxp':
        return mpc.SecFxp(16, 8)(3.5), 3.5
    if ty == 'secfld101':
        F = mpc.SecFld(101)
        return F(42), 42
    if ty == 'secfld256':
        F = mpc.SecFld(2**8)
        return F(0x53), 0x53
    if ty == 'secfld3':
        F = mpc.SecFld(3)
        return F(2), 2
    if ty == 'secgrp_sym':
        G = mpc.SecGrp(simnet.secgroups.fg.SymmetricGroup(4))
        g = G.group((1, 2, 3, 0))
        return G(g), g
    if ty == 'secgrp_qr':
        G = mpc.SecGrp(simnet.secgroups.fg.QuadraticResidues(l=16))
        g = G.group.generator ^ 5
        return G(g), g
    if ty == 'secflt':
        return mpc.SecFlt(16)(-2.75), -2.75
    raise ValueError(ty)


def mk_nodes(spec):
    kind, v = spec
    return v if kind == 'int' else range(*v) if kind == 'range' else list(v)


def nodes_of(spec):
    kind, v = spec
    return [v] if kind == 'int' else list(range(*v)) if kind == 'range' else list(v)


def lst(x):
    return ','.join(map(str, x)) if len(x) else '-'


def run_scenario(sc, lines, impl):
    m, t, ty, R = sc['m'], sc['t'], sc['type'], sc['R']
    net = SimNet(m, t, no_prss=sc['no_prss'], seed=sc['seed'], sched=Scheduler(sc['seed'], sc['mode']),
                 max_steps=600000)
    rec = obs.Recorder(m)

    async def prog(mpc):
        if ty == 'transfer':
            rec.mark('a')
            form = sc.get('form', 'arcs')
            if form == 'dict':      # the same graph as a dict node -> receivers (every node is a key)
                g = {a: [b for a_, b in map(tuple, sc['arcs']) if a_ == a] for a in range(m)}
                res = await mpc.transfer(('secret', mpc.pid), sender_receivers=g)
            elif form == 'bip':     # complete bipartite graph senders x receivers (list / range / int arguments)
                res = await mpc.transfer(('secret', mpc.pid), senders=mk_nodes(sc['S']), receivers=mk_nodes(sc['Rv']))
                if not isinstance(res, list):
                    res = [] if res is None else [res]
            else:
                res = await mpc.transfer(('secret', mpc.pid), sender_receivers=[tuple(a) for a in sc['arcs']])
            rec.mark('b')
            return res, None
        x, plain = mk_value(mpc, ty, mpc.pid)
        # make the shares exist everywhere first (input from party 0), so that the window holds the output only
        if ty.startswith('secgrp') or ty == 'secflt':
            y = x
        else:
            y = mpc.input(x, senders=0)
        await mpc.gather(y if not (ty.startswith('secgrp') or ty == 'secflt') else [])
        await mpc.barrier()
        rec.mark('a')
        if sc.get('othr') is not None:  # explicit threshold= argument (equal to the default: same traffic expected)
            res = await mpc.output(y, receivers=R, threshold=sc['othr'])
        else:
            res = await mpc.output(y, receivers=R)
        rec.mark('b')
        return res, plain

    try:
        with rec:
            res = net.run(prog)
    except (Deadlock, PartyError) as exc:
        return f'{type(exc).__name__}: {str(exc)[:300]}'
    nmsg = 0
    if ty == 'transfer':
        arcs = [tuple(a) for a in sc['arcs']]
        targets = {b for a, b in arcs}
        for p in range(m):
            w = rec.window(p, 'a', 'b')
            sends = [e[1] for e in w if e[0] == 'S']
            nmsg += len(sends)
            lines.append(f'arcs {p} ' + (','.join(f'{a}:{b}' for a, b in arcs) if arcs else '-'))
            ms = [a for a, b in arcs if b == p]
            mr = [b for a, b in arcs if a == p]
            impl.append(f'{lst(ms)}|{lst(mr)}|{lst(sends)}|{lst([e[1] for e in w if e[0] == "R"])}')
            for j in sends:
                if j not in targets:
                    return f'transfer: party {p} sent a message to {j}, which has no incoming arc'
            if p not in targets and res[p][0] not in ([], None):
                return f'transfer: party {p} without incoming arc obtained {res[p][0]!r}'
            if p in targets and sorted(res[p][0]) != sorted(('secret', a) for a in ms):
                return f'transfer: party {p} obtained {res[p][0]!r}, expected the objects of its senders {ms}'
        sc['_msgs'] = nmsg
        return None
    Rl = [R] if isinstance(R, int) else list(range(m)) if R is None else list(R)
    for p in range(m):
        w = rec.window(p, 'a', 'b')
        for e in w:
            if e[0] != 'S':
                continue
            nmsg += 1
            j, origin = e[1], e[4]
            if j in Rl:
                continue
            if ty == 'secflt' and len(Rl) != m and origin in ('_distribute', '_reshare'):
                continue  # leader's input of [s != 0] and the schur_prod resharing: fresh dealings only
            return (f'output of {ty} to receivers {Rl}: party {p} sent a message ({origin}, {e[3]} bytes) '
                    f'to non-receiver {j}')
        out, plain = res[p]
        if p in Rl:
            ok = (out == plain) or (ty == 'secfxp' and abs(out - plain) < 1e-9) or \
                 (ty == 'secflt' and abs(out - plain) < 1e-2) or \
                 (ty.startswith('secfld') and int(out) == plain if not isinstance(out, list) else False)
            if not ok:
                return f'receiver {p} obtained {out!r}, expected {plain!r}'
        else:
            flat = out if isinstance(out, list) else [out]
            if any(v is not None for v in flat):
                return f'non-receiver {p} obtained {out!r}'
            if ty != 'secflt' and any(e[0] == 'R' for e in w):
                return f'non-receiver {p} awaits a message during the output'
    if ty in ('secint', 'secfxp', 'secfld101', 'secfld256', 'list_secint'):
        for p in range(m):
            w = rec.window(p, 'a', 'b')
            lines.append(f'out {m} {t} {p} {lst(Rl)}')
            pts = [(p - t + j) % m + 1 for j in range(t)] + [p + 1]
            impl.append(f'{lst([e[1] for e in w if e[0] == "S"])}|{lst([e[1] for e in w if e[0] == "R"])}|{lst(pts)}')
    sc['_msgs'] = nmsg
    return None


def reuse_scenario(sc):
    """two outputs of ONE caller-owned list object to different receiver sets, the list being overwritten in between (before
    the event loop runs): the first receivers must obtain the first value and must not learn the second one"""
    m, t, R0, R1 = sc['m'], sc['t'], sc['R0'], sc['R1']
    net = SimNet(m, t, no_prss=sc['no_prss'], seed=sc['seed'], sched=Scheduler(sc['seed'], sc['mode']), max_steps=600000)

    async def prog(mpc):
        S = mpc.SecInt(16)
        a, b = mpc.input([S(1111), S(2222)], senders=m - 1)
        await mpc.gather(a, b)
        buf = [a]
        if sc.get('reuse') == 'receivers':
            # the caller reuses its RECEIVERS list object: the designation in force at call time counts
            R = list(R0)
            f0 = mpc.output(buf, receivers=R)
            R[:] = R1
            f1 = mpc.output([b], receivers=R)
            return await f0, await f1
        f0 = mpc.output(buf, receivers=R0)
        buf[0] = b
        f1 = mpc.output(buf, receivers=R1)
        return await f0, await f1
    try:
        res = net.run(prog)
    except (Deadlock, PartyError) as exc:
        return f'{type(exc).__name__}: {str(exc)[:300]}'
    for p in range(m):
        o0, o1 = res[p]
        exp0 = [1111] if p in R0 else [None]
        exp1 = [2222] if p in R1 else [None]
        if list(o0) != exp0:
            extra = ' (the value of the SECOND output, of which it is not a receiver)' if list(o0) == [2222] and p not in R1 else ''
            return f'reused list: party {p} obtained {list(o0)} from output(buf, receivers={R0}), expected {exp0}{extra}'
        if list(o1) != exp1:
            return f'reused list: party {p} obtained {list(o1)} from output(buf, receivers={R1}), expected {exp1}'
    return None


def reuse_cases(ctx, rng):
    out = []
    for m, t in ((2, 0), (3, 1), (4, 1), (5, 2)):
        for _ in range(ctx.scale(2, 10)):
            R0 = sorted(rng.sample(range(m), rng.randrange(1, m)))
            R1 = sorted(rng.sample(range(m), rng.randrange(1, m)))
            if R0 == R1:
                R1 = [(R0[0] + 1) % m]
            out.append({'m': m, 't': t, 'no_prss': rng.random() < 0.3, 'seed': rng.randrange(10**6), 'type': 'reuse',
                        'mode': rng.choice(['random', 'starve', 'lazynet', 'eagernet']), 'R0': R0, 'R1': R1,
                        'reuse': 'receivers' if len(out) % 2 else 'values'})
    return out


def gen(ctx, rng, k):
    ms = [2, 3, 4, 5] if not ctx.thorough else [2, 3, 4, 5, 6, 7]
    m = rng.choice(ms)
    t = rng.randrange(0, (m - 1) // 2 + 1)
    ty = (TYPES + ['transfer', 'transfer'])[k % (len(TYPES) + 2)]
    sc = {'m': m, 't': t, 'no_prss': rng.random() < 0.3, 'seed': rng.randrange(10**6), 'type': ty,
          'mode': rng.choice(['random', 'starve', 'lazynet', 'eagernet'])}
    if ty == 'transfer':
        sc['form'] = rng.choice(['arcs', 'dict', 'bip'])
        if sc['form'] == 'bip':
            def nodes():
                r = rng.random()
                if r < 0.25:
                    return ['int', rng.randrange(m)]
                if r < 0.5:
                    lo = rng.randrange(m)
                    return ['range', [lo, rng.randrange(lo, m + 1)]]
                return ['list', rng.sample(range(m), rng.randrange(0, m + 1))]
            sc['S'], sc['Rv'] = nodes(), nodes()
            sc['arcs'] = [(a, b) for a in nodes_of(sc['S']) for b in nodes_of(sc['Rv'])]
        else:
            sc['arcs'] = [(a, b) for a in range(m) for b in range(m) if rng.random() < 0.3]
        sc['R'] = None
    else:
        r = rng.random()
        if r < 0.15:
            sc['R'] = rng.randrange(m)
        else:
            kk = rng.randrange(1, m + 1)
            sc['R'] = sorted(rng.sample(range(m), kk)) if rng.random() < 0.8 else rng.sample(range(m), kk)
    if ty == 'secfld3' and m > 4:
        sc['m'], sc['t'] = 3, 1
        if not isinstance(sc['R'], int):
            sc['R'] = [r_ for r_ in sc['R'] if r_ < 3] or [0]
        else:
            sc['R'] = sc['R'] % 3
    if sc['type'] in ('secint', 'secfxp', 'secfld101', 'secfld256', 'list_secint') and rng.random() < 0.4:
        sc['othr'] = sc['t']   # output(..., threshold=t) given explicitly together with the receiver subset
    return sc


def run(ctx):
    rng = ctx.rng
    lines, impl = [], []
    n = ctx.scale(160, 2500)
    for k in range(n):
        sc = gen(ctx, rng, k)
        msg = run_scenario(sc, lines, impl)
        key = {kk: v for kk, v in sc.items() if not kk.startswith('_')}
        Rl = sc['R']
        nonrecv = sc['type'] == 'transfer' or (not (Rl is None) and (isinstance(Rl, int) or len(Rl) < sc['m']))
        ctx.case(repr(sorted(key.items(), key=str)), nontrivial=nonrecv and sc.get('_msgs', 0) > 0)
        ctx.count('type:' + sc['type'])
        ctx.count(f"m:{sc['m']},t:{sc['t']}")
        if msg:
            ctx.violation('C19: ' + msg, {'kind': 'scenario', 'scenario': key})
            break
        if k < 3:
            ctx.sample(key)
    for sc in reuse_cases(ctx, rng):
        msg = reuse_scenario(sc)
        ctx.case(repr(sorted(sc.items(), key=str)), nontrivial=True)
        ctx.count('type:reuse')
        if msg:
            ctx.violation('C19: ' + msg, {'kind': 'scenario', 'scenario': sc})
            break
    model = common.LeanDriver('Comm').run(lines)
    ctx.compare('output/transfer traffic (runtime vs MpycV.Comm)', impl, model, lines)


def search(ctx):
    rng = ctx.subrng('search')
    for k in range(ctx.scale(1500, 8000)):
        sc = gen(ctx, rng, k)
        msg = run_scenario(sc, [], [])
        if msg:
            ctx.violation('C19: ' + msg, {'kind': 'scenario', 'scenario': {kk: v for kk, v in sc.items() if not kk.startswith('_')}})
            return


def replay(ctx, data):
    if data['scenario'].get('type') == 'reuse':
        msg = reuse_scenario(dict(data['scenario']))
        return msg is None, msg or 'ok'
    msg = run_scenario(dict(data['scenario']), [], [])
    return msg is None, msg or 'ok'
