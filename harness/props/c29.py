"""C29 -- secure sorting and selection are correct for every input order.

Lean: MpycV.Props.C29 (0-1 principle, bit-sliced evaluation lemma, tournaments for every n) and
MpycV.PropsGen.C29 (kernel-checked theorems about the comparator networks EXTRACTED from the running
code on every run: lean/MpycV/Generated/SortNet.lean).

generate(): runs the real Runtime._sort on a tracing list of symbolic elements; every `x[i]`, `x[j]`
read, every `key(a) < key(b)` and every value written back (`b + c*(a-b)`, `a - c*(a-b)`) is recorded
and turned into a comparator `(i, j)` with the exact semantics of `MpycV.Sort.cmpSwap`; anything
else makes the extraction fail (-> `extractionOk = false` -> the PropsGen build breaks).  The
(i, j) sequences used by seclist.sort (probe keys) and np_sort (index sets handed to np_update)
are extracted as well and must coincide.

run(): the REAL protocols on simnet (m = 1, sample m = 3): correspondence with the Lean model
(exact outputs incl. tie behaviour) and an independent oracle (permutation + key order; extreme
elements; first extreme index).
"""
import itertools
import os
import sys
from multiprocessing import Pool

sys.path.insert(0, os.path.dirname(os.path.dirname(os.path.abspath(__file__))))
import common  # noqa: E402

LEVEL = 'other'
LEAN_MODULES = ['MpycV.Props.C29', 'MpycV.PropsGen.C29']
LEAN_NAMESPACES = ['MpycV.C29', 'MpycV.C29Gen']
REQUIRED_THEOREMS = ['zero_one_principle', 'bit_sliced_evaluation', 'sorts_of_kernel_check',
                     'sorted_correct_of_sorts01', 'np_sorted_correct_of_sorts01',
                     'min_correct', 'max_correct', 'argmin_first', 'argmax_first', 'min_max_correct',
                     'selection_empty_valueError',
                     'extraction_ok', 'extracted_nets_sort_all_01', 'extracted_eq_model',
                     'seclist_and_np_same_network', 'sorted_correct_le_bound', 'np_sorted_correct_le_bound',
                     'sortNet_sorts_partial']
N01 = 24        # every extracted network with n <= N01 is proved (kernel) to sort all 2^n 0-1 inputs
NLEAN = 32      # extracted networks up to this n go into the Lean table and are proved equal to the model sortNet n
NCORR = 64      # extracted networks are compared with the model network (Lean driver) up to this n (thorough: 128)
RULE = ('lists of secure numbers / pairs [key, payload]: all orders of 0..n-1 for n <= 5 (quick) / 6 (thorough), '
        'random lists of length 0..12 with ties; key in {identity, negation, square}; reverse flag; containers '
        'list, seclist, secure array; secint and secfxp; functions sorted, seclist.sort, np_sort, min, max, argmin, '
        'argmax, min_max; m = 1 and a sample with m = 3 parties; a case is distinct by (function, container, '
        'type, key, reverse, elements, m)')
EXPLANATION = ('PROVED (kernel): the comparator sequences executed by the current code for n = 2..24 sort every input '
               '(0-1 principle + bit-sliced check of all 2^n 0-1 inputs) and output a permutation; min/max/argmin/'
               'argmax/min_max are correct for every length (argmin/argmax: first extreme index); the model network '
               'equals the extracted one for n <= 32 (kernel) and n <= 64 (driver comparison). NOT PROVED: that the merge-exchange network sorts for n > 24 '
               '(Batcher/Knuth 5.2.2M for general n): validated by the extracted-vs-model comparison and the runs only.')
ASSUMPTIONS = ['secure comparison key(a) < key(b), if_swap and if_else are exact on the values (C01/C04 cover the '
               'protocols); the value layer is what is modelled',
               'keys are totally ordered (integers / fixed-point numbers in range)',
               'for n > 24 the network is only compared with the model and exercised, not proved to sort']
TRUSTED = ['harness/props/c29.py: symbolic tracer that turns the executed _sort into comparator pairs '
           '(checks the exact selection semantics of every written value)',
           'harness/simnet.py in-process multi-party runs']
GEN_PATH = os.path.join(common.LEAN_DIR, 'MpycV', 'Generated', 'SortNet.lean')

KEYS = ('id', 'neg', 'sq')


# ---------------------------------------------------------------------------------------------
# independent oracle (Python built-ins)
# ---------------------------------------------------------------------------------------------
def _keyval(k, e):
    v = e[0]
    return -v if k == 'neg' else v * v if k == 'sq' else v


def _fmt_elem(e):
    return ','.join(str(v) for v in e)


def _fmt_elems(es):
    return ' '.join(_fmt_elem(e) for e in es) if es else '-'


def oracle_ok(case, out):
    """Does the observed output satisfy the property? -> (ok, expected description)"""
    fn, k, es = case['fn'], case['key'], [tuple(e) for e in case['elems']]
    if fn in ('sort', 'slsort', 'npsort'):
        if isinstance(out, str):
            return False, 'a sorted permutation'
        got = [tuple(e) for e in out]
        keys = [_keyval(k, e) for e in got]
        want = sorted((_keyval(k, e) for e in es), reverse=bool(case.get('reverse')))
        ok = sorted(got) == sorted(es) and keys == want
        return ok, f'permutation of the input with keys {want}'
    if not es:
        return out == 'ValueError', 'ValueError'
    if isinstance(out, str):
        return False, 'a value'
    kmin = min(_keyval(k, e) for e in es)
    kmax = max(_keyval(k, e) for e in es)
    if fn == 'min':
        return tuple(out) in es and _keyval(k, out) == kmin, f'an element with key {kmin}'
    if fn == 'max':
        return tuple(out) in es and _keyval(k, out) == kmax, f'an element with key {kmax}'
    if fn == 'minmax':
        a, b = out
        ok = tuple(a) in es and tuple(b) in es and _keyval(k, a) == kmin and _keyval(k, b) == kmax
        return ok, f'elements with keys {kmin} and {kmax}'
    if fn == 'argmin':
        i = [_keyval(k, e) for e in es].index(kmin)
        return (out[0] == i and tuple(out[1]) == es[i]), f'index {i} (first minimum) with element {es[i]}'
    if fn == 'argmax':
        i = [_keyval(k, e) for e in es].index(kmax)
        return (out[0] == i and tuple(out[1]) == es[i]), f'index {i} (first maximum) with element {es[i]}'
    raise ValueError(fn)


def canon(case, out):
    """Canonical line, same format as the Lean driver."""
    if isinstance(out, str):
        return out
    fn = case['fn']
    if fn in ('sort', 'slsort', 'npsort'):
        return _fmt_elems(out)
    if fn in ('min', 'max'):
        return _fmt_elem(out)
    if fn == 'minmax':
        return _fmt_elem(out[0]) + ' ' + _fmt_elem(out[1])
    return f'{out[0]} ' + _fmt_elem(out[1])


def request(case):
    fn = case['fn']
    es = _fmt_elems(case['elems']) if case['elems'] else ''
    if fn in ('sort', 'slsort'):
        return f"sort {case['key']} {1 if case.get('reverse') else 0} {es}".rstrip()
    return f"{fn} {case['key']} {es}".rstrip()


# ---------------------------------------------------------------------------------------------
# real execution on simnet
# ---------------------------------------------------------------------------------------------
def _run_batch(args):
    """Worker: run a batch of cases in one simnet run. -> list of outputs (python values or error names)."""
    cases, m, seed = args
    import simnet
    from mpyc.seclists import seclist

    async def prog(mpc):
        secint = mpc.SecInt(12)
        secfxp = mpc.SecFxp(16, 4)
        res = []
        for case in cases:
            fn, k, es = case['fn'], case['key'], case['elems']
            fxp = case.get('type') == 'secfxp'
            stype = secfxp if fxp else secint
            scale = 4 if fxp else 1           # fixed-point cases: integer v stands for v/4

            def enc(v):
                return stype(v / 4) if fxp else stype(v)

            def dec(v):
                return int(round(v * scale))
            pairs = bool(es) and len(es[0]) == 2
            if pairs:
                x = [[enc(e[0]), enc(e[1])] for e in es]
                key = {'id': (lambda a: a[0]), 'neg': (lambda a: -a[0]), 'sq': (lambda a: a[0] * a[0])}[k]
            else:
                x = [enc(e[0]) for e in es]
                key = {'id': None, 'neg': (lambda a: -a), 'sq': (lambda a: a * a)}[k]
            if case.get('explicit_id') and k == 'id' and not pairs:
                key = lambda a: a  # noqa: E731

            async def outv(e):
                if isinstance(e, list):
                    return [dec(v) for v in await mpc.output(e)]
                return [dec(await mpc.output(e))]
            try:
                if fn == 'sort':
                    y = mpc.sorted(x, key=key, reverse=bool(case.get('reverse')))
                    res.append([await outv(e) for e in y])
                elif fn == 'slsort':
                    sl = seclist(x, stype)
                    sl.sort(key=key, reverse=bool(case.get('reverse')))
                    res.append([await outv(e) for e in list(sl)])
                elif fn == 'npsort':
                    import numpy as np
                    a = stype.array(np.array([(e[0] / 4 if fxp else e[0]) for e in es]))
                    y = mpc.np_sort(a) if key is None else mpc.np_sort(a, key=key)
                    y = await mpc.output(y)
                    res.append([[dec(v)] for v in y.tolist()])
                elif fn in ('min', 'max'):
                    f = getattr(mpc, fn)
                    r = f(x) if key is None else f(x, key=key)
                    res.append(await outv(r))
                elif fn == 'minmax':
                    a, b = mpc.min_max(x) if key is None else mpc.min_max(x, key=key)
                    res.append((await outv(a), await outv(b)))
                elif fn in ('argmin', 'argmax'):
                    f = getattr(mpc, fn)
                    i, r = f(x) if key is None else f(x, key=key)
                    res.append((int(round(float(await mpc.output(i)))), await outv(r)))
                else:
                    res.append('bad-fn')
            except Exception as exc:  # noqa
                res.append(type(exc).__name__)
        return res

    try:
        out = simnet.SimNet(m, None, seed=seed).run(prog)
    except Exception as exc:  # noqa
        return [f'RUN-ERROR {type(exc).__name__}: {str(exc)[:200]}'] * len(cases)
    for o in out[1:]:
        if o != out[0]:
            return ['PARTIES-DISAGREE'] * len(cases)
    return out[0]


def run_cases(cases, m, seed, procs=12):
    if not cases:
        return []
    size = max(1, min(40, (len(cases) + procs - 1) // procs))
    chunks = [cases[i:i + size] for i in range(0, len(cases), size)]
    args = [(c, m, seed + 17 * i) for i, c in enumerate(chunks)]
    if len(chunks) == 1:
        outs = [_run_batch(args[0])]
    else:
        with Pool(min(procs, len(chunks))) as pool:
            outs = pool.map(_run_batch, args)
    return [o for chunk in outs for o in chunk]


# ---------------------------------------------------------------------------------------------
# case generation
# ---------------------------------------------------------------------------------------------
def _rand_elems(rng, n, k, pairs, small):
    lim = 7 if (k == 'sq' or small) else 40
    vals = [rng.randint(-lim, lim) for _ in range(n)]
    if n >= 2 and rng.random() < 0.6:      # force ties
        for _ in range(rng.randint(1, max(1, n // 2))):
            vals[rng.randrange(n)] = vals[rng.randrange(n)]
    if n >= 2 and k == 'sq' and rng.random() < 0.5:
        j = rng.randrange(n)
        vals[j] = -vals[rng.randrange(n)]  # equal keys, different elements
    if pairs:
        return [[v, i] for i, v in enumerate(vals)]
    return [[v] for v in vals]


def gen_cases(ctx):
    rng = ctx.subrng('cases')
    cases = []
    nperm = ctx.scale(5, 6)
    for n in range(0, nperm + 1):
        for perm in itertools.permutations(range(n)):
            cases.append({'fn': 'sort', 'key': 'id', 'reverse': False, 'elems': [[v] for v in perm]})
    if not ctx.thorough:
        for _ in range(60):
            perm = list(range(6))
            rng.shuffle(perm)
            cases.append({'fn': 'sort', 'key': 'id', 'reverse': False, 'elems': [[v] for v in perm]})
    reps = ctx.scale(2, 6)
    for n in range(0, 13):
        for _ in range(reps):
            for fn in ('sort', 'slsort', 'npsort', 'min', 'max', 'minmax', 'argmin', 'argmax'):
                k = rng.choice(KEYS)
                pairs = fn not in ('slsort', 'npsort') and rng.random() < 0.5
                if fn == 'npsort' and n == 0:
                    continue
                case = {'fn': fn, 'key': k, 'elems': _rand_elems(rng, n, k, pairs, False)}
                if fn in ('sort', 'slsort'):
                    case['reverse'] = rng.random() < 0.5
                if rng.random() < 0.15 and k != 'sq':
                    case['type'] = 'secfxp'
                if rng.random() < 0.2:
                    case['explicit_id'] = True
                cases.append(case)
    # all 0-1 inputs of small length through the real sort (the 0-1 principle's premise, on the real code)
    for n in range(2, ctx.scale(6, 8)):
        for bits in itertools.product((0, 1), repeat=n):
            if rng.random() < ctx.scale(0.5, 1.0):
                cases.append({'fn': 'sort', 'key': 'id', 'reverse': False, 'elems': [[b] for b in bits]})
    return cases


def gen_cases_m3(ctx):
    rng = ctx.subrng('m3')
    cases = []
    for n in (0, 1, 2, 3, 5, 7):
        for fn in ('sort', 'min', 'max', 'minmax', 'argmin', 'argmax'):
            k = rng.choice(KEYS)
            case = {'fn': fn, 'key': k, 'elems': _rand_elems(rng, n, k, rng.random() < 0.5, True)}
            if fn == 'sort':
                case['reverse'] = rng.random() < 0.5
            cases.append(case)
    cases.append({'fn': 'slsort', 'key': 'neg', 'reverse': True, 'elems': [[3], [1], [2], [1]]})
    cases.append({'fn': 'npsort', 'key': 'id', 'elems': [[3], [-1], [2], [2], [0]]})
    return cases


def _check(ctx, groups, nets):
    """groups: list of (cases, outs, m, seed, tag); plus the extracted networks; ONE Lean driver invocation"""
    reqs = []
    for cases, outs, m, seed, tag in groups:
        reqs += [request(c) for c in cases]
    nreqs = [f'net {n}' for n in sorted(nets)]
    model = common.LeanDriver('Tools').run(reqs + nreqs)
    failed = isinstance(model, common.DriverFailure)
    pos = 0
    for cases, outs, m, seed, tag in groups:
        impl = [canon(c, o) for c, o in zip(cases, outs)]
        ctx.compare(f'sorting/selection outputs ({tag})', impl, model if failed else model[pos:pos + len(cases)],
                    reqs[pos:pos + len(cases)])
        pos += len(cases)
        for c, o in zip(cases, outs):
            ctx.case((tag, c['fn'], c['key'], c.get('reverse'), c.get('type'), tuple(map(tuple, c['elems']))))
            ctx.count(f"{c['fn']}/{c['key']}/n={len(c['elems'])}")
            if isinstance(o, str) and (o.startswith('RUN-ERROR') or o == 'PARTIES-DISAGREE'):
                ctx.violation(f'real run failed: {o}', dict(c, kind='case', m=m, seed=seed, observed=o,
                                                           expected='a result'))
                continue
            ok, exp = oracle_ok(c, o)
            if not ok:
                ctx.violation(f"mpc {c['fn']} (key={c['key']}, reverse={c.get('reverse')}) wrong on "
                              f"{c['elems']}: observed {o}, expected {exp}",
                              dict(c, kind='case', m=m, seed=seed, observed=repr(o), expected=exp))
    # the model network vs the network the code executes, beyond the proved range
    impl = [' '.join(f'{i}:{j}' for i, j in nets[n]) or '-' for n in sorted(nets)]
    ctx.compare('comparator sequence of _sort vs model sortNet', impl, model if failed else model[pos:], nreqs)
    ctx.count('extracted networks', len(nets))


def run(ctx):
    cases = gen_cases(ctx)
    c3 = gen_cases_m3(ctx)
    with Pool(2) as top:      # m = 3 sample concurrently with the m = 1 sweep
        r3 = top.apply_async(_run_batch, ((c3, 3, ctx.seed + 1),))
        outs = run_cases(cases, 1, ctx.seed)
        o3 = r3.get()
    nets = _GEN.get('nets') or extract_all(NCORR)[0]
    _check(ctx, [(cases, outs, 1, ctx.seed, 'm=1'), (c3, o3, 3, ctx.seed + 1, 'm=3')], nets)
    for c, o in list(zip(cases, outs))[:2] + list(zip(c3, o3))[-2:]:
        ctx.sample({'case': c, 'observed': canon(c, o)})


# ---------------------------------------------------------------------------------------------
# extraction of the executed comparator networks
# ---------------------------------------------------------------------------------------------
class ExtractionError(Exception):
    pass


class _E:
    """symbolic value: leaf / a - b / a + b / c * e"""
    __slots__ = ('op', 'a', 'b', 'id')
    _next = [0]

    def __init__(self, op, a=None, b=None):
        self.op, self.a, self.b = op, a, b
        _E._next[0] += 1
        self.id = _E._next[0]

    def __sub__(self, o):
        return _E('sub', self, o)

    def __add__(self, o):
        return _E('add', self, o)

    def __lt__(self, o):
        return _C(self, o)

    def __mul__(self, o):
        if isinstance(o, _C):
            return _E('mul', o, self)
        raise ExtractionError('product of two element values')
    __rmul__ = __mul__


class _C:
    """condition key(a) < key(b) on two leaves"""
    __slots__ = ('a', 'b', 'pa', 'pb', 'writes')

    def __init__(self, a, b):
        if not (isinstance(a, _E) and isinstance(b, _E) and a.op == 'leaf' and b.op == 'leaf'):
            raise ExtractionError('comparison of non-leaf values')
        self.a, self.b = a, b
        self.pa = self.pb = None
        self.writes = []

    def __mul__(self, e):
        if isinstance(e, _E):
            return _E('mul', self, e)
        raise ExtractionError('condition times non-element')
    __rmul__ = __mul__

    def __bool__(self):
        raise ExtractionError('condition used as a Python bool')


def _conds(e, acc):
    if e.op == 'mul':
        acc.add(e.a)
        _conds(e.b, acc)
    elif e.op in ('sub', 'add'):
        _conds(e.a, acc)
        _conds(e.b, acc)


def _lin(e, cval):
    """linear form {leaf id: coeff} of e with all conditions set to cval"""
    if e.op == 'leaf':
        return {e.id: 1}
    if e.op == 'mul':
        return _lin(e.b, cval) if cval else {}
    x, y = _lin(e.a, cval), _lin(e.b, cval)
    s = 1 if e.op == 'add' else -1
    r = dict(x)
    for k, v in y.items():
        r[k] = r.get(k, 0) + s * v
        if r[k] == 0:
            del r[k]
    return r


class _TraceList(list):
    """list of symbolic leaves that records the compare-exchange operations applied to it"""

    def __init__(self, n):
        super().__init__(_E('leaf') for _ in range(n))
        self.pos = {e.id: i for i, e in enumerate(self)}
        self.net = []
        self.pending = {}

    def __getitem__(self, i):
        if not isinstance(i, int):
            raise ExtractionError('non-integer index')
        return super().__getitem__(i)

    def __setitem__(self, p, e):
        if not isinstance(p, int) or not isinstance(e, _E):
            raise ExtractionError('unexpected assignment')
        if p < 0:
            p += len(self)
        cs = set()
        _conds(e, cs)
        if len(cs) != 1:
            raise ExtractionError(f'{len(cs)} conditions in one written value')
        c = next(iter(cs))
        if c.a.id not in self.pos or c.b.id not in self.pos:
            raise ExtractionError('comparison of stale values')
        if c.pa is None:
            c.pa, c.pb = self.pos[c.a.id], self.pos[c.b.id]
        v1, v0 = _lin(e, 1), _lin(e, 0)
        A, B = {c.a.id: 1}, {c.b.id: 1}
        if v1 == A and v0 == B:
            kind = 'lo'      # c ? a : b   == cmpSwap position i
        elif v1 == B and v0 == A:
            kind = 'hi'      # c ? b : a   == cmpSwap position j
        else:
            raise ExtractionError('written value is not a selection between the compared elements')
        c.writes.append((p, kind))
        if len(c.writes) == 2:
            w = dict(c.writes)
            if w.get(c.pa) == 'lo' and w.get(c.pb) == 'hi' and c.pa != c.pb:
                self.net.append((c.pa, c.pb))
            else:
                raise ExtractionError(f'compare-exchange writes {c.writes} for operands at {(c.pa, c.pb)}')
            del self.pos[c.a.id]
            del self.pos[c.b.id]
        fresh = _E('leaf')
        # the new value lives at p from now on (old leaves stay valid until both writes are done)
        self.pos[fresh.id] = p
        super().__setitem__(p, fresh)

    def finish(self):
        if len(self.pos) != len(self):
            raise ExtractionError('dangling compare-exchange (one output never written)')
        return self.net


def extract_sort_net(rt, n):
    tl = _TraceList(n)
    rt._sort(tl, lambda a: a)
    return tl.finish()


class _Probe:
    __slots__ = ('v', 'where', 'log')

    def __init__(self, v, where, log):
        self.v, self.where, self.log = v, where, log

    def __lt__(self, o):
        self.log.append((self.where, o.where))
        return self.v < o.v


def extract_seclist_pairs(mpc, n):
    """(i, j) operand positions of the comparisons seclist.sort performs (by object identity)."""
    from mpyc.seclists import seclist
    secint = mpc.SecInt(12)
    sl = seclist([secint(n - i) for i in range(n)], secint)
    log = []

    def key(a):
        idx = [k for k, e in enumerate(list.__iter__(sl)) if e is a]
        if len(idx) != 1:
            raise ExtractionError('key applied to a value that is not in the list')
        return _Probe(a, idx[0], log)
    sl.sort(key=key)
    return log


def extract_np_pairs(mpc, n):
    """comparator pairs from the index sets np_sort hands to np_update (two calls per layer: I, I+d)."""
    import numpy as np
    secint = mpc.SecInt(12)
    a = secint.array(np.arange(n, 0, -1))
    calls = []
    orig = mpc.np_update

    def wrapped(arr, key, value):
        if isinstance(key, tuple) and len(key) == 2 and key[0] is Ellipsis:
            calls.append([int(i) for i in np.asarray(key[1]).tolist()])
        return orig(arr, key, value)
    mpc.np_update = wrapped
    try:
        mpc.np_sort(a)
    finally:
        del mpc.np_update
    if len(calls) % 2:
        raise ExtractionError('odd number of np_update calls')
    pairs = []
    for lo, hi in zip(calls[0::2], calls[1::2]):
        if len(lo) != len(hi):
            raise ExtractionError('index sets of different size')
        pairs.extend(zip(lo, hi))
    return pairs


def extract_all(nmax):
    """-> (nets {n: [(i,j)]}, seclist {n: [...]}, np {n: [...]}, error or None)"""
    import simnet
    nets, sls, nps = {}, {}, {}
    err = [None]

    async def prog(mpc):
        for n in range(2, nmax + 1):
            try:
                nets[n] = extract_sort_net(mpc, n)
            except Exception as exc:  # noqa
                err[0] = f'_sort n={n}: {type(exc).__name__}: {exc}'
                nets[n] = []
        for n in range(2, N01 + 1):
            try:
                sls[n] = extract_seclist_pairs(mpc, n)
                nps[n] = extract_np_pairs(mpc, n)
            except Exception as exc:  # noqa
                err[0] = err[0] or f'seclist/np n={n}: {type(exc).__name__}: {exc}'
                sls.setdefault(n, [])
                nps.setdefault(n, [])
        return 0
    try:
        simnet.SimNet(1, 0, seed=1).run(prog)
    except Exception as exc:  # noqa
        err[0] = err[0] or f'{type(exc).__name__}: {exc}'
    return nets, sls, nps, err[0]


_GEN = {}


def _lean_table(name, prefix, doc, table):
    out = []
    for n in sorted(table):
        net = table[n]
        out.append(f'def {prefix}{n} : List (Nat × Nat) := [' + ', '.join(f'({i}, {j})' for i, j in net) + ']')
    out.append(f'/-- {doc}: (n, comparator sequence) -/')
    out.append(f'def {name} : List (Nat × List (Nat × Nat)) := [' +
               ', '.join(f'({n}, {prefix}{n})' for n in sorted(table)) + ']\n')
    return out


def generate(ctx):
    nets, sls, nps, err = extract_all(NCORR if not ctx.thorough else 2 * NCORR)
    _GEN.update(nets=nets, sls=sls, nps=nps, err=err)
    big = nets
    nets = {n: v for n, v in big.items() if n <= NLEAN}
    lines = ['/- GENERATED by harness/props/c29.py from the running /repo code -- do not edit.',
             '   Comparator sequences executed by Runtime._sort (symbolic trace), seclist.sort (probe keys)',
             '   and np_sort (index sets), list length n = 2.. -/',
             'namespace MpycV.Generated.SortNet', '',
             f'def extractionOk : Bool := {"true" if err is None else "false"}',
             f'-- extraction error: {err}' if err else '',
             f'def bound01 : Nat := {N01}', f'def boundModel : Nat := {NLEAN}', '']
    lines += _lean_table('sortNets', 'net_', 'comparators executed by `_sort` on a list of length n', nets)
    lines += _lean_table('seclistNets', 'slNet_', 'operand positions of the comparisons made by `seclist.sort`', sls)
    lines += _lean_table('npNets', 'npNet_', 'index pairs (I[k], (I+d)[k]) updated by `np_sort`',
                         {n: [tuple(p) for p in nps[n]] for n in nps})
    lines.append('end MpycV.Generated.SortNet')
    text = '\n'.join(lines) + '\n'
    os.makedirs(os.path.dirname(GEN_PATH), exist_ok=True)
    old = open(GEN_PATH).read() if os.path.exists(GEN_PATH) else None
    if old != text:
        tmp = GEN_PATH + f'.tmp{os.getpid()}'
        with open(tmp, 'w') as f:
            f.write(text)
        os.replace(tmp, GEN_PATH)
    if err:
        ctx.note(f'network extraction failed: {err}')


# ---------------------------------------------------------------------------------------------
# search: only called when the proof or the correspondence broke
# ---------------------------------------------------------------------------------------------
def _unsorted_01_input(n, net):
    """bit-sliced evaluation in Python: a 0-1 input of length n the network does not sort, or None"""
    cols = []
    for i in range(n):
        block = ((1 << (1 << i)) - 1) << (1 << i)
        c, size = block, 1 << (i + 1)
        while size < (1 << n):
            c |= c << size
            size *= 2
        cols.append(c)
    for i, j in net:
        if i < n and j < n:
            cols[i], cols[j] = cols[i] & cols[j], cols[i] | cols[j]
    for i in range(n - 1):
        bad = cols[i] & ~cols[i + 1]
        if bad:
            m = (bad & -bad).bit_length() - 1
            return [(m >> t) & 1 for t in range(n)]
    return None


def search(ctx):
    nets = _GEN.get('nets') or extract_all(NCORR)[0]
    cases = []
    for n in sorted(nets):
        if n > 20:
            break
        v = _unsorted_01_input(n, nets[n])
        if v is not None:
            cases.append({'fn': 'sort', 'key': 'id', 'reverse': False, 'elems': [[b] for b in v]})
            cases.append({'fn': 'slsort', 'key': 'id', 'reverse': False, 'elems': [[b] for b in v]})
            if len(cases) >= 6:
                break
    rng = ctx.subrng('search')
    for n in range(2, 40):
        for _ in range(6):
            for fn in ('sort', 'npsort', 'min', 'max', 'minmax', 'argmin', 'argmax'):
                k = rng.choice(KEYS)
                case = {'fn': fn, 'key': k, 'elems': _rand_elems(rng, n, k, False, False)}
                if fn == 'sort':
                    case['reverse'] = rng.random() < 0.5
                cases.append(case)
    outs = run_cases(cases, 1, ctx.seed + 5)
    for c, o in zip(cases, outs):
        ctx.case(('search', c['fn'], c['key'], tuple(map(tuple, c['elems']))))
        if isinstance(o, str) and o.startswith('RUN-ERROR'):
            ctx.violation(f'real run failed: {o}', dict(c, kind='case', m=1, seed=ctx.seed + 5, observed=o,
                                                       expected='a result'))
            return
        ok, exp = oracle_ok(c, o)
        if not ok:
            ctx.violation(f"mpc {c['fn']} (key={c['key']}) wrong on {c['elems']}: observed {o}, expected {exp}",
                          dict(c, kind='case', m=1, seed=ctx.seed + 5, observed=repr(o), expected=exp))
            return


def replay(ctx, data):
    if data.get('kind') != 'case':
        return True, f"nothing to run for replay kind {data.get('kind')!r}"
    case = {k: data[k] for k in ('fn', 'key', 'elems', 'reverse', 'type', 'explicit_id') if k in data}
    out = _run_batch(([case], int(data.get('m', 1)), int(data.get('seed', 0))))[0]
    if isinstance(out, str) and (out.startswith('RUN-ERROR') or out == 'PARTIES-DISAGREE'):
        return False, out
    ok, exp = oracle_ok(case, out)
    return ok, f'observed {out!r}; expected {exp}'
