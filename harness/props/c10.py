"""C10 — message framing tolerates any stream chunking and arrival order.

Model: lean/MpycV/Model/Frame.lean (data_received / receive / send transcribed).
Theorems: MpycV.C10 (feed_append_gen, feed_append, any_chunking, frames_roundtrip, prefix_frames,
receive_commutes).  Tie: real `asyncoro.MessageExchanger` objects vs the Lean driver on the same
operation sequences (chunks and receive calls), events compared line by line; independent oracle:
whole-stream reference parser + dict semantics written from the message format definition.
"""
import asyncio
import struct
import sys
import os

sys.path.insert(0, os.path.dirname(os.path.dirname(os.path.abspath(__file__))))
import repo_path  # noqa: F401
_argv = sys.argv
sys.argv = [sys.argv[0], '--no-log']
from mpyc import asyncoro  # noqa: E402
sys.argv = _argv
import common  # noqa: E402

LEVEL = 'proof'
LEAN_MODULES = ['MpycV.Props.C10']
LEAN_NAMESPACES = ['MpycV.C10']
REQUIRED_THEOREMS = ['feed_append_gen', 'feed_append', 'any_chunking', 'frames_roundtrip',
                     'prefix_frames', 'receive_commutes', 'feed_settled']
RULE = ('scenario = (role server/client, PRSS on/off with key-block length depending on the peer pid, message list with '
        'labels incl. int64 extremes and payload sizes from {0,1,11,12,13,255,256,4096}, a chunking of the byte stream '
        '(random cuts biased to header/handshake boundaries; ALL single cut positions for short streams), interleaved '
        'receive() calls before/after arrival and for labels that never arrive); distinct = distinct (ops) tuples; '
        'non-trivial = at least one frame and one cut inside a frame or handshake')
ASSUMPTIONS = ['struct.pack/unpack "<qI" = 8-byte two\'s complement LE + 4-byte unsigned LE (re-implemented in the model, '
               'compared byte for byte through `enc`)',
               'asyncio.Future.set_result on a pending future stores the result (futures are inspected, not awaited)']
TRUSTED = ['harness/props/c10.py: LoggingDict instrumentation of MessageExchanger.buffers']


def keylen(np_, ka, kb, pid):
    return 0 if np_ else ka * ((pid * 7) % 5) + kb


class _Opts:
    def __init__(self, no_prss):
        self.no_prss = no_prss


class _StubRuntime:
    """What MessageExchanger needs of a runtime; key-block length is a function of the peer pid."""

    def __init__(self, no_prss, ka, kb, loop):
        self.pid = 0
        self.options = _Opts(no_prss)
        self.ka, self.kb = ka, kb
        self._loop = loop
        self.log = []

    def _prss_keys_from_peer(self, peer_pid, data=None):
        n = self.ka * ((peer_pid * 7) % 5) + self.kb
        if data is not None:
            self.log.append(f'H:{peer_pid}:{hx(bytes(data[:n]))}')
        return n

    def _prss_keys_to_peer(self, peer_pid):
        return []

    def set_protocol(self, peer_pid, proto):
        if self.options.no_prss:
            self.log.append(f'H:{peer_pid}:-')


def hx(b):
    return bytes(b).hex() if len(b) else '-'


class _LoggingDict(dict):
    """dict that records insert/pop in order, to recover the event order inside one data_received."""

    def __init__(self, log, futs):
        super().__init__()
        self.log = log
        self.futs = futs

    def __setitem__(self, k, v):
        if isinstance(v, asyncio.Future):
            pass  # registered by receive(); reported there
        else:
            self.log.append(f'S:{k}:{hx(v)}')
        super().__setitem__(k, v)

    def pop(self, k, *default):
        had = k in self
        v = super().pop(k, *default)
        if had and self.log is not None and self.in_data:
            if isinstance(v, asyncio.Future):
                self.log.append(('R', self.futs[id(v)], k, v))
            else:
                self.log.append(f'E:{k}')
        return v


def run_impl(role, np_, ka, kb, ops):
    """Execute ops on a real MessageExchanger; return the canonical answer line."""
    loop = asyncio.new_event_loop()
    try:
        rt = _StubRuntime(bool(np_), ka, kb, loop)
        log = rt.log
        futs = {}
        keep = []
        if role == 'server':
            ex = asyncoro.MessageExchanger(rt)
        else:
            ex = asyncoro.MessageExchanger(rt, int(role.split(':')[1]))
        ex.buffers = _LoggingDict(log, futs)
        ex.buffers.in_data = False
        fresh = 0
        for op in ops:
            if op.startswith('f:'):
                data = bytes.fromhex(op[2:]) if op[2:] != '-' else b''
                ex.buffers.in_data = True
                try:
                    ex.data_received(data)
                except AttributeError:
                    pass  # duplicate label: recorded as E by the logging dict
                except Exception as exc:  # noqa: BLE001  the real transport would be closed by asyncio at this point
                    log.append(f'X:{type(exc).__name__}')
                    ex.buffers.in_data = False
                    break
                ex.buffers.in_data = False
            else:
                pc = int(op[2:])
                r = ex.receive(pc)
                if isinstance(r, asyncio.Future):
                    if id(r) not in futs:
                        futs[id(r)] = fresh
                        keep.append(r)
                        fresh += 1
                    log.append(f'F:{futs[id(r)]}')
                else:
                    log.append(f'P:{hx(r)}')
        out = []
        for e in log:
            if isinstance(e, tuple):
                _, f, k, v = e
                out.append(f'R:{f}:{k}:{hx(v.result())}')
            else:
                out.append(e)
        bufs = []
        for k in sorted(ex.buffers):
            v = dict.__getitem__(ex.buffers, k)
            bufs.append(f'{k}=F{futs[id(v)]}' if isinstance(v, asyncio.Future) else f'{k}=P{hx(v)}')
        peer = '-' if ex.peer_pid is None else str(ex.peer_pid)
        return ';'.join(out) + f'|buf={hx(ex.bytes)}|peer={peer}|buffers={",".join(bufs)}'
    finally:
        loop.close()


def oracle(role, np_, ka, kb, ops):
    """Independent expectation for scenarios WITHOUT duplicate labels: from the definition of the
    message format. Returns (peer, {pc: payload} delivered, rest bytes, handshake keys)."""
    stream = b''.join(bytes.fromhex(op[2:]) if op[2:] != '-' else b'' for op in ops if op.startswith('f:'))
    peer, keys = None, None
    pos = 0
    if role == 'server':
        if len(stream) < 2:
            return None, {}, stream, None
        peer = stream[0] + 256 * stream[1]
        kl = keylen(np_, ka, kb, peer)
        if len(stream) < 2 + kl:
            return None, {}, stream, None
        keys = stream[2:2 + kl]
        pos = 2 + kl
    else:
        peer = int(role.split(':')[1])
    frames = {}
    while len(stream) - pos >= 12:
        pc = int.from_bytes(stream[pos:pos + 8], 'little', signed=True)
        n = int.from_bytes(stream[pos + 8:pos + 12], 'little')
        if len(stream) - pos < 12 + n:
            break
        frames[pc] = stream[pos + 12:pos + 12 + n]
        pos += 12 + n
    return peer, frames, stream[pos:], keys


def check_oracle(role, np_, ka, kb, ops, ans, msgs=None, truncated=True):
    """Property check of one scenario (unique labels) against the oracle. Returns None or message.

    msgs: the (label, payload) list handed to the real send(); the frames found by the reference parser
    must be a prefix of it (all of it when the stream was not truncated): send/receive round trip."""
    peer, frames, rest, keys = oracle(role, np_, ka, kb, ops)
    if msgs is not None:
        fl = [(pc, bytes(pl)) for pc, pl in frames.items()]
        if fl != [(pc, bytes(pl)) for pc, pl in msgs[:len(fl)]] or (not truncated and len(fl) != len(msgs)):
            return f'frames on the wire {[(a, hx(b)) for a, b in fl][:3]} are not the messages sent {[(a, hx(b)) for a, b in msgs][:3]}'
    head, buf, peer_s, buffers = ans.split('|')
    if buf != 'buf=' + hx(rest):
        return f'unparsed rest differs: {buf} expected {hx(rest)}'
    if peer_s != 'peer=' + ('-' if peer is None else str(peer)):
        return f'peer differs: {peer_s} expected {peer}'
    evs = head.split(';') if head else []
    received = [int(op[2:]) for op in ops if op.startswith('r:')]
    got = {}      # pc -> payload bound to a receive
    fut_pc = {}
    k = 0
    ridx = 0
    for e in evs:
        t = e.split(':')
        if t[0] == 'H':
            if keys is not None and t[2] != hx(keys):
                return f'handshake keys differ {t[2]} expected {hx(keys)}'
        elif t[0] == 'F':
            fut_pc[int(t[1])] = received[ridx]
            ridx += 1
        elif t[0] == 'P':
            got[received[ridx]] = t[1]
            ridx += 1
        elif t[0] == 'R':
            if fut_pc.get(int(t[1])) != int(t[2]):
                return f'future {t[1]} resolved for label {t[2]} but registered for {fut_pc.get(int(t[1]))}'
            got[int(t[2])] = t[3]
        elif t[0] == 'E':
            return 'duplicate-label error on unique labels'
    left = {}
    if buffers != 'buffers=':
        for ent in buffers[len('buffers='):].split(','):
            kk, vv = ent.split('=')
            left[int(kk)] = vv
    for pc, pl in frames.items():
        if pc in received:
            if got.get(pc) != hx(pl):
                return f'receive({pc}) bound {got.get(pc)} expected {hx(pl)}'
            if pc in left:
                return f'label {pc} consumed but still in buffers'
        else:
            if left.get(pc) != 'P' + hx(pl):
                return f'unclaimed frame {pc}: buffers hold {left.get(pc)} expected P{hx(pl)}'
    for pc in received:
        if pc not in frames and not left.get(pc, '').startswith('F'):
            return f'receive({pc}) without frame should be pending, buffers: {left.get(pc)}'
    for pc in left:
        if pc not in frames and pc not in received:
            return f'spurious buffer entry {pc}'
    return None


LABELS = [0, 1, -1, 2**63 - 1, -2**63, 2**62, -2**31, 255, 256, 65536, 12, 7567779727746675450, -675806179067369477]
SIZES = [0, 0, 1, 1, 2, 11, 12, 13, 24, 255, 256, 300, 4096]


def gen_scenario(rng, small=False):
    role = 'server' if rng.random() < 0.55 else f'client:{rng.randrange(0, 300)}'
    np_ = int(rng.random() < 0.4)
    ka, kb = rng.choice([(16, 0), (16, 16), (0, 0), (16, 32), (1, 0)])
    nmsg = rng.choice([0, 1, 1, 2, 2, 3, 4, 6]) if not small else rng.choice([0, 1, 2])
    dup = rng.random() < 0.08
    labels = []
    for _ in range(nmsg):
        if dup and labels and rng.random() < 0.5:
            labels.append(rng.choice(labels))
        else:
            while True:
                lab = rng.choice(LABELS) if rng.random() < 0.6 else rng.randrange(-2**63, 2**63)
                if lab not in labels:
                    break
            labels.append(lab)
    msgs = []
    for lab in labels:
        n = rng.choice(SIZES[:8]) if small else rng.choice(SIZES)
        msgs.append((lab, bytes(rng.getrandbits(8) for _ in range(n))))
    stream = b''
    if role == 'server':
        pid = rng.choice([0, 1, 2, 3, 4, 5, 6, 255, 256, 257])
        stream += pid.to_bytes(2, 'little') + bytes(rng.getrandbits(8) for _ in range(keylen(np_, ka, kb, pid)))
    bounds = [len(stream)]
    for lab, pl in msgs:
        stream += real_send(lab, pl)
        bounds.append(len(stream))
    truncated = False
    if rng.random() < 0.15:  # incomplete tail
        cut = rng.randrange(0, 14)
        truncated = cut > 0
        stream = stream[:max(0, len(stream) - cut)]
    return role, np_, ka, kb, msgs, stream, bounds, truncated


class _T:
    def __init__(self):
        self.data = b''

    def write(self, d):
        self.data += bytes(d)


def real_send(pc, payload):
    """bytes written by the real MessageExchanger.send"""
    ex = asyncoro.MessageExchanger(None, 1)
    ex.transport = _T()
    ex.send(pc, payload)
    assert ex.nbytes_sent == len(ex.transport.data)
    return ex.transport.data


def chunkings(rng, stream, bounds, n_random):
    L = len(stream)
    yield [stream]
    yield [stream[i:i + 1] for i in range(L)] if L <= 64 else [stream[:L // 2], stream[L // 2:]]
    for _ in range(n_random):
        cuts = set()
        for b in bounds:
            for d in (-1, 0, 1, 2, 7, 8, 11, 12, 13):
                if rng.random() < 0.25 and 0 < b + d < L:
                    cuts.add(b + d)
        for _ in range(rng.choice([0, 1, 2, 5])):
            if L > 1:
                cuts.add(rng.randrange(1, L))
        cs = sorted(cuts)
        parts = [stream[a:b] for a, b in zip([0] + cs, cs + [L])]
        if rng.random() < 0.2:
            parts.insert(rng.randrange(len(parts) + 1), b'')
        yield parts


def with_receives(rng, parts, msgs):
    ops = ['f:' + hx(p) for p in parts]
    labels = [lab for lab, _ in msgs]
    want = [lab for lab in dict.fromkeys(labels) if rng.random() < 0.75]
    if rng.random() < 0.3:
        want.append(rng.choice([5, -77, 2**40 + 1]))
    if rng.random() < 0.05 and want:
        want.append(want[0])  # receive the same label twice (pathological, correspondence only)
    for lab in want:
        ops.insert(rng.randrange(len(ops) + 1), f'r:{lab}')
    return ops


def scenario_line(role, np_, ka, kb, ops):
    return f'run {role} {np_} {ka} {kb} ' + ' '.join(ops)


def unique_labels(msgs, ops):
    labs = [lab for lab, _ in msgs]
    recv = [op for op in ops if op.startswith('r:')]
    return len(set(labs)) == len(labs) and len(set(recv)) == len(recv)


def run(ctx):
    rng = ctx.rng
    n_scen = ctx.scale(700, 6000)
    lines, impl, meta = [], [], []
    # encoder correspondence: send() bytes vs model encodeMsg
    for _ in range(ctx.scale(150, 1000)):
        pc = rng.choice(LABELS) if rng.random() < 0.5 else rng.randrange(-2**63, 2**63)
        pl = bytes(rng.getrandbits(8) for _ in range(rng.choice(SIZES)))
        lines.append(f'enc {pc} {hx(pl)}')
        impl.append(hx(real_send(pc, pl)))
        meta.append(None)
        ctx.count('enc')
    for k in range(n_scen):
        small = k % 3 == 0
        role, np_, ka, kb, msgs, stream, bounds, trunc = gen_scenario(rng, small)
        ref_ans = None
        cks = list(chunkings(rng, stream, bounds, 3))
        if small and len(stream) <= 40:  # all single cut positions
            cks += [[stream[:i], stream[i:]] for i in range(1, len(stream))]
        for parts in cks:
            ops = with_receives(rng, parts, msgs)
            ans = run_impl(role, np_, ka, kb, ops)
            lines.append(scenario_line(role, np_, ka, kb, ops))
            impl.append(ans)
            meta.append((role, np_, ka, kb, ops))
            inside = any(0 < sum(len(p) for p in parts[:i]) and sum(len(p) for p in parts[:i]) not in bounds
                         for i in range(1, len(parts)))
            ctx.case((role, np_, ka, kb, tuple(ops)), nontrivial=bool(msgs) and inside)
            ctx.count('role:' + role.split(':')[0])
            ctx.count(f'msgs:{min(len(msgs), 5)}')
            ctx.count(f'chunks:{min(len(parts), 8)}')
            uniq = unique_labels(msgs, ops)
            ctx.count('unique-labels' if uniq else 'duplicate-labels')
            if uniq:
                msg = check_oracle(role, np_, ka, kb, ops, ans, msgs, trunc)
                if msg:
                    ctx.violation('framing: ' + msg, {'kind': 'framing', 'role': role, 'no_prss': np_,
                                                      'ka': ka, 'kb': kb, 'ops': ops, 'observed': ans,
                                                      'msgs': [[a, hx(b)] for a, b in msgs], 'truncated': trunc})
            if len(ctx.samples) < 3 and msgs and len(parts) > 1:
                ctx.sample({'request': lines[-1][:400], 'answer': ans[:400]})
    model = common.LeanDriver('Frame').run(lines)
    ctx.compare('frame parser (MessageExchanger vs MpycV.Frame)', impl, model, lines)
    second_session(ctx)


def second_session(ctx):
    """the handshake of a SECOND session on the same Runtime objects, after mpc.threshold was re-assigned (other key packet
    layout): must be parsed with the current layout, the following frames must be delivered (real m-party runs in the
    simulator under adversarial chunking; machinery shared with C11)"""
    from props import c11
    rng = ctx.subrng('second-session')
    ctx._max_lines = 0
    for (m, t1, t2) in [(3, 1, 0), (4, 0, 1)] + ([(5, 2, 1), (5, 1, 2), (3, 0, 1)] if ctx.thorough else []):
        seed = rng.randrange(10**9)
        msg = c11.two_sessions(ctx, 'arith', m, t1, t2, seed, [], [], [])
        ctx.count('second-session-after-threshold-change')
        if msg:
            ctx.violation('framing: second session after a threshold change: ' + msg,
                          {'kind': 'two-sessions', 'program': 'arith', 'm': m, 't': t1, 't2': t2, 'seed': seed})
            return


def search(ctx):
    """Bigger oracle-only search on the real code (no model involved)."""
    rng = ctx.subrng('search')
    for _ in range(ctx.scale(20000, 100000)):
        role, np_, ka, kb, msgs, stream, bounds, trunc = gen_scenario(rng, rng.random() < 0.5)
        for parts in chunkings(rng, stream, bounds, 2):
            ops = with_receives(rng, parts, msgs)
            if not unique_labels(msgs, ops):
                continue
            ans = run_impl(role, np_, ka, kb, ops)
            msg = check_oracle(role, np_, ka, kb, ops, ans, msgs, trunc)
            if msg:
                ctx.violation('framing: ' + msg, {'kind': 'framing', 'role': role, 'no_prss': np_, 'ka': ka,
                                                  'kb': kb, 'ops': ops, 'observed': ans,
                                                  'msgs': [[a, hx(b)] for a, b in msgs], 'truncated': trunc})
                return


def replay(ctx, data):
    if data.get('kind') == 'two-sessions':
        from props import c11
        ctx._max_lines = 0
        msg = c11.two_sessions(ctx, data['program'], data['m'], data['t'], data['t2'], data['seed'], [], [], [])
        return msg is None, msg or 'ok'
    ops = data['ops']
    ans = run_impl(data['role'], data['no_prss'], data['ka'], data['kb'], ops)
    msgs = None
    if data.get('msgs') is not None:
        msgs = [(a, bytes.fromhex(b) if b != '-' else b'') for a, b in data['msgs']]
        # rebuild the stream with the CURRENT send(): replays the send/receive round trip
        old = b''.join(bytes.fromhex(op[2:]) if op[2:] != '-' else b'' for op in ops if op.startswith('f:'))
        new = b''.join(real_send(a, b) for a, b in msgs)
        if old[len(old) - len(new):] != new and not data.get('truncated'):
            hs = old[:len(old) - sum(12 + len(b) for _, b in msgs)]
            ops = ['f:' + hx(hs + new)] + [op for op in ops if op.startswith('r:')]
    ans = run_impl(data['role'], data['no_prss'], data['ka'], data['kb'], ops)
    msg = check_oracle(data['role'], data['no_prss'], data['ka'], data['kb'], ops, ans, msgs, data.get('truncated', True))
    return msg is None, msg or 'ok'
