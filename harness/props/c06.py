"""C06 — secure conversion between types preserves values.

Model: lean/MpycV/Model/Convert.lean (`convert1`/`convert2` ≙ runtime.py `_convert`/`convert`, with the value
layers of `trunc` and `_mod`).  Theorems: MpycV.C06.  Tie: the real `mpc.convert` run by m parties in the
in-process simulator; the mask r of every `_convert` call is RECOVERED from the parties (PRSS: sum over all
subsets of the PRF outputs; no PRSS: sum of the senders' `secrets.randbelow` values), the opened value and the
raw result share value are observed at `thresha.recombine` inside `Runtime.output`; the Lean model is fed the same
x and r and must produce the same opened value and the same raw result.  Oracle: the definition (same value;
floor/ceil neighbour when fractional bits are dropped; canonical signed/unsigned representative for fields).
"""
import os
import sys
import math
from fractions import Fraction

sys.path.insert(0, os.path.dirname(os.path.dirname(os.path.abspath(__file__))))
import simnet  # noqa: E402  (sets argv for mpyc, installs the party proxy)
from simnet import SimNet, CUR, SECRETS  # noqa: E402
from mpyc import sectypes, thresha  # noqa: E402
import common  # noqa: E402

LEVEL = 'proof'
LEAN_MODULES = ['MpycV.Props.C06', 'MpycV.Model.SecFld']  # the driver Drv/FldConv.lean imports Model.SecFld
LEAN_NAMESPACES = ['MpycV.C06']
REQUIRED_THEOREMS = ['convert_int_like', 'convert_int_like_down', 'convert_up_nowrap', 'convert_fld', 'convert_fld_nowrap',
                     'convert_two_step', 'trunc_neighbour', 'mask_in_range', 'shr_is_field_division', 'read_fits',
                     'convert_fld_needs_order_below_target']
RULE = ('case = (party configuration (m,t,PRSS on/off), signedness assignment of the prime fields, ordered pair of types from '
        '{secint 8/16/32/64, secfxp (16,8)/(32,16), SecFld 7/101/2^31-1/2^61-1 signed|unsigned}, list of 1..5 in-range values '
        'incl. the extremes of the source range and of the target range, 0, ±1, values with all dropped fractional bits '
        'set/clear); in range = every admissible result fits the target type; field sources only to int-like targets with '
        'order < 2^bit_length; distinct = distinct (cfg, pair, values); all cases non-trivial (m>1: resharing + PRSS/no-PRSS masks)')
EXPLANATION = ('Domain: conversions between secint, secfxp and NON-lifted prime secure fields. Out of the domain (documented '
               'precondition of the code, agreed with the coordinator): prime-field source -> secint/secfxp target with source '
               'order >= 2^(target bit_length) (the reduction mod p_s is computed in the target type; Lean: '
               'convert_fld_needs_order_below_target). Known finding (open): lifted fields (m >= q, t > 0), key C06-convert-lifted-field.')
ASSUMPTIONS = ['the bitwise comparison circuit inside Runtime._mod is modelled by its specification z = [c + r_modb >= b] (C01)',
               'random values of the sub-protocols trunc and _mod (r_modf, r_divf, r_modb, r_divb) are not recovered: the model is '
               'fed values consistent with the observed rounding; by convert_*_nowrap the result does not depend on them',
               'the mask r is recovered from the PRF outputs of all subsets / the senders\' randbelow values seen in Runtime._convert',
               'statistical correctness of _mod: a wrong result has probability <= C(m,t)/2^sec_param per field-source conversion']
TRUSTED = ['harness/props/c06.py: wrappers around thresha.pseudorandom_share, thresha.recombine and secrets (observation only)']

K = 30  # options.sec_param default
PRIMES = [7, 101, 2**31 - 1, 2**61 - 1]
INTLIKE = [('int', 8), ('int', 16), ('int', 32), ('int', 64), ('fxp', 16, 8), ('fxp', 32, 16)]
CFGS = [(1, 0), (2, 0), (3, 0), (3, 1), (5, 0), (5, 1), (5, 2)]
CFGS_BIG = [(7, 3), (7, 2), (8, 3), (9, 4)]


def tname(d):
    return ':'.join(str(a) for a in d)


def frac(d):
    return d[2] if d[0] == 'fxp' else 0


def bits(d):
    return (d[1] - 1).bit_length() if d[0] == 'fld' else d[1]


def rng_of(d):
    """canonical integer range (raw values) of a type"""
    if d[0] == 'fld':
        p = d[1]
        return (-(p // 2), p // 2) if d[2] else (0, p - 1)
    return -(1 << (d[1] - 1)), (1 << (d[1] - 1)) - 1


def expected(S, T, X):
    """ORACLE (definition): admissible raw target values for raw source value X, or None if out of domain."""
    lo, hi = rng_of(S)
    if not lo <= X <= hi:
        return None
    if S[0] == 'fld':
        if T[0] != 'fld' and S[1] >= 1 << bits(T):
            return None  # documented precondition
        ys = {X << frac(T)}
    else:
        d = frac(T) - frac(S)
        if d >= 0:
            ys = {X << d}
        else:
            q, r = divmod(X, 1 << -d)
            ys = {q} if r == 0 else {q, q + 1}  # floor or ceiling
    lo, hi = rng_of(T)
    if all(lo <= y <= hi for y in ys):
        return ys
    return None


def candidates(rng, S, T):
    lo, hi = rng_of(S)
    tl, th = rng_of(T)
    d = frac(T) - frac(S) if S[0] != 'fld' else frac(T)
    pool = {0, 1, -1, 2, -2, 3, -3, 5, lo, hi, lo + 1, hi - 1}
    for y in (tl, th, tl + 1, th - 1, tl // 2, th // 2):
        if d >= 0:
            pool.update({y >> d, (y >> d) + 1, (y >> d) - 1})
        else:
            pool.update({y << -d, (y << -d) + 1, (y << -d) - 1, ((y + 1) << -d) - 1, ((y - 1) << -d) + 1})
    if d < 0:
        f = -d
        pool.update({(1 << f) - 1, 1 << f, (1 << f) + 1, -(1 << f), 1 - (1 << f), (1 << (f - 1)), 3 << (f - 1), -(3 << (f - 1)), 5 << f})
    for _ in range(6):
        a, b = max(lo, -(1 << rng.randrange(1, 64))), min(hi, 1 << rng.randrange(1, 64))
        pool.add(rng.randint(a, b))
    return sorted(x for x in pool if expected(S, T, x) is not None)


def gen_cases(rng, types, per_pair, scalar_prob=0.25):
    cases = []
    for S in types:
        for T in types:
            if S == T or (S[0] == 'fld' and T[0] == 'fld' and S[1] == T[1]):
                continue
            cand = candidates(rng, S, T)
            if not cand:
                continue
            for _ in range(per_pair):
                n = rng.choice([1, 2, 3, 5])
                xs = [rng.choice(cand) for _ in range(n)]
                cases.append((S, T, xs, n == 1 and rng.random() < scalar_prob * 4))
    return cases


# ---------------------------------------------------------------------------------------------------
# running the real code
# ---------------------------------------------------------------------------------------------------
def mk_type(mpc, d):
    if d[0] == 'int':
        return mpc.SecInt(d[1])
    if d[0] == 'fxp':
        return mpc.SecFxp(d[1], d[2])
    return mpc.SecFld(d[1], signed=bool(d[2]))


def _runtime_frame_name(start=2):
    """name of the innermost mpyc.runtime function on the stack (who draws randomness / opens)"""
    f = sys._getframe(start)
    while f is not None:
        if f.f_code.co_filename.endswith(os.path.join('mpyc', 'runtime.py')):
            return f.f_code.co_name
        f = f.f_back
    return None


class Recorder:
    """observation hooks; everything is tagged with (party, current case of that party)"""

    def __init__(self, m):
        self.m = m
        self.case = [-1] * m
        self.prss = {}      # case -> {(uci, field order): {'bound', 'vals': {subset: [PRF outputs]}, 'order'}}, merged over parties
        self.rand = {}      # case -> list of (pid, bound, value)
        self.opened = {}    # case -> list of (field order, [values])   party 0 only
        self._orig_ps = thresha.pseudorandom_share
        self._orig_rc = thresha.recombine

    def install(self):
        rec = self

        def ps(field, m, i, prfs, uci, n):
            if sys._getframe(1).f_code.co_name == '_convert':
                c = rec.case[CUR.get()]
                ent = rec.prss.setdefault(c, {}).setdefault((bytes(uci), field.order), {'bound': None, 'vals': {}, 'order': len(rec.prss[c])})
                for S, prf in prfs.items():
                    ent['bound'] = prf.max
                    ent['vals'][tuple(S)] = list(prf(uci, n))
            return rec._orig_ps(field, m, i, prfs, uci, n)

        def rc(field, points, x_rs=0):
            y = rec._orig_rc(field, points, x_rs)
            if CUR.get() == 0 and sys._getframe(1).f_code.co_name == 'output':
                rec.opened.setdefault(rec.case[0], []).append((field.order, [field(a).value for a in y] if field.ext_deg == 1 else None))
            return y

        thresha.pseudorandom_share = ps
        thresha.recombine = rc
        SECRETS.override = None
        SECRETS.log = _ConvertLog(rec)

    def uninstall(self):
        thresha.pseudorandom_share = self._orig_ps
        thresha.recombine = self._orig_rc
        SECRETS.log = None
        SECRETS.override = None


class _ConvertLog:
    """stands in for SECRETS.log (a list): keeps only randbelow values drawn inside Runtime._convert"""

    def __init__(self, rec):
        self.rec = rec

    def append(self, ent):
        pid, kind, arg, val = ent
        if kind == 'randbelow' and _runtime_frame_name(3) == '_convert':
            self.rec.rand.setdefault(self.rec.case[pid], []).append((pid, arg, val))


def run_config(job):
    """one SimNet run: all cases sequentially.  Returns per-case observations (picklable)."""
    m, t, no_prss, seed, signs, cases = job
    sectypes._SecFld.cache_clear()
    rec = Recorder(m)
    out = {}

    async def prog(mpc):
        pid = mpc.pid
        res = []
        for k, (S, T, xs, scalar) in enumerate(cases):
            rec.case[pid] = k
            st, tt = mk_type(mpc, S), mk_type(mpc, T)
            if S[0] == 'fxp':
                a = [st(float(Fraction(x, 1 << S[2]))) for x in xs]
            else:
                a = [st(x) for x in xs]
            y = mpc.convert(a[0] if scalar else a, tt)
            o = await mpc.output(y)
            o = [o] if scalar else o
            if T[0] == 'fxp':
                raw = []
                for v in o:
                    fr = Fraction(v) * (1 << T[2])
                    raw.append(int(fr) if fr.denominator == 1 else str(fr))
            else:
                raw = [int(v) for v in o]
            info = {'raw': raw, 'ps': st.field.modulus, 'pt': tt.field.modulus,
                    'ss': bool(st.field.is_signed), 'ts': bool(tt.field.is_signed), 'sb': st.bit_length, 'tb': tt.bit_length}
            if S[0] == 'fld' and T[0] == 'fld':
                size = max(st.field.order, tt.field.order)
                info['pi'] = mpc.SecInt(l=max(32, size.bit_length())).field.modulus
                info['lmid'] = max(32, size.bit_length())
            res.append(info)
        rec.case[pid] = -2
        return res

    rec.install()
    try:
        results = SimNet(m, t, no_prss=no_prss, seed=seed, max_steps=60_000_000).run(prog)
        err = None
    except Exception as exc:  # PartyError / Deadlock
        results, err = None, ('BUDGET ' if getattr(exc, 'kind', '') == 'budget' else '') + repr(exc)[:600]
    finally:
        rec.uninstall()
    out['err'] = err
    out['cases'] = []
    if results is None:
        return out
    for k, (S, T, xs, scalar) in enumerate(cases):
        infos = [results[i][k] for i in range(m)]
        ent = dict(infos[0])
        ent['agree'] = all(i_['raw'] == infos[0]['raw'] for i_ in infos)
        ent['all_raw'] = [i_['raw'] for i_ in infos] if not ent['agree'] else None
        # masks: one per _convert call; the call with a field source is recognised by bound == source order
        n = len(xs)
        calls = []   # (bound, contributions, [r_j])
        if no_prss:
            by_bound = {}
            for pid, b, v in rec.rand.get(k, []):
                by_bound.setdefault(b, {}).setdefault(pid, []).append(v)
            for b, per_party in by_bound.items():
                tot = [0] * n
                for pid, vals in per_party.items():
                    for j_, v in enumerate(vals[:n]):
                        tot[j_] += v
                calls.append((b, len(per_party), tot, all(len(v) == n for v in per_party.values())))
        else:
            by_uci = {}
            for (uci, _order), e in sorted(rec.prss.get(k, {}).items(), key=lambda kv: kv[1]['order']):
                by_uci.setdefault(uci, []).append(e)
            same = True
            for uci, es in by_uci.items():
                e = es[0]
                same = same and all(x['vals'] == e['vals'] for x in es) and len(es) == 2
                tot = [0] * n
                for S_, vals in e['vals'].items():
                    for j_ in range(n):
                        tot[j_] += vals[j_]
                calls.append((e['bound'], len(e['vals']), tot, True))
            ent['prss_same'] = same
        if S[0] == 'fld':
            calls.sort(key=lambda c: 0 if c[0] == ent['ps'] else 1)
        masks = [c[2] for c in calls]
        bounds = [(c[0], c[1]) for c in calls]
        ent['mask_ok'] = all(c[3] for c in calls) and len(calls) == (2 if (S[0] == 'fld' and T[0] == 'fld') else 1)
        ent['masks'] = masks
        ent['bounds'] = bounds
        ent['opened'] = list(rec.opened.get(k, []))
        out['cases'].append(ent)
    return out


# ---------------------------------------------------------------------------------------------------
# model lines
# ---------------------------------------------------------------------------------------------------
def stype_tokens(d, p, signed, bl):
    if d[0] == 'fld':
        return f'1 {p} {int(signed)} {bl} 0'
    return f'0 {p} 1 {bl} {frac(d)}'


def ncontrib(m, t, no_prss):
    return t + 1 if no_prss else math.comb(m, t)


def build_lines(cfg, case, ent):
    """Lean requests + the corresponding observations of the real run, per element"""
    m, t, no_prss = cfg
    S, T, xs, _ = case
    lines, impl = [], []
    n = ncontrib(m, t, no_prss)
    ps, pt = ent['ps'], ent['pt']
    ops = ent['opened'][:-1]            # the last opening is the output of the result
    final = ent['opened'][-1][1] if ent['opened'] else None
    two = S[0] == 'fld' and T[0] == 'fld'
    for j, X in enumerate(xs):
        x = X % ps
        raw_obs = ent['raw'][j]
        if two:
            r1, r2 = ent['masks'][0][j], ent['masks'][1][j]
            lines.append(f"conv2 {stype_tokens(S, ps, ent['ss'], ent['sb'])} {stype_tokens(T, pt, ent['ts'], ent['tb'])} "
                         f"{ent['pi']} {x} {r1} 0 {n} {r2}")
            c1 = ops[0][1][j] if ops else 'none'
            c2 = ops[-1][1][j] if ops else 'none'
            res = final[j] if final else 'none'
            impl.append(('conv2', c1, c2, res))
        else:
            r = ent['masks'][0][j]
            rmodf = 0
            d = frac(T) - frac(S)
            if S[0] != 'fld' and d < 0 and isinstance(raw_obs, int):
                q, rem = divmod(X, 1 << -d)
                if rem and raw_obs == q + 1:
                    rmodf = (1 << -d) - 1
            lines.append(f"conv1 {stype_tokens(S, ps, ent['ss'], ent['sb'])} {stype_tokens(T, pt, ent['ts'], ent['tb'])} "
                         f"{x} {r} {rmodf} 0 0 {n}")
            if S[0] == 'fld':
                c = ops[0][1][j] if ops else 'none'
            else:
                c = ops[-1][1][j] if ops else 'none'
            res = final[j] if final else 'none'
            impl.append(('conv1', c, res))
    return lines, impl


def model_view(kind, ans):
    tk = ans.split()
    if kind == 'conv1':
        return f'opened={tk[1]} result={tk[3]}' if len(tk) == 4 else ans
    return f'opened1={tk[0]} opened2={tk[3]} result={tk[4]}' if len(tk) == 5 else ans


def impl_view(rec):
    if rec[0] == 'conv1':
        return f'opened={rec[1]} result={rec[2]}'
    return f'opened1={rec[1]} opened2={rec[2]} result={rec[3]}'


# ---------------------------------------------------------------------------------------------------
def make_jobs(ctx, rng, per_pair, cfgs=None):
    jobs = []
    idx = 0
    for (m, t) in (cfgs or CFGS):
        for no_prss in (False, True):
            signs = [(idx >> i) & 1 for i in range(4)] if idx % 4 else ([1] * 4 if idx % 8 == 0 else [0] * 4)
            if idx % 4 == 1:
                signs = [1, 0, 1, 0]
            elif idx % 4 == 2:
                signs = [0, 1, 0, 1]
            elif idx % 4 == 3:
                signs = [rng.randrange(2) for _ in range(4)]
            # fields with q <= m are lifted to extension fields (known finding C06-convert-lifted-field, directed input below)
            types = INTLIKE + [('fld', p if p > m else 11, s) for p, s in zip(PRIMES, signs)]
            cases = gen_cases(rng, types, per_pair)
            rng.shuffle(cases)
            jobs.append((m, t, no_prss, ctx.seed * 1000 + idx, signs, cases))
            idx += 1
    return jobs


def run_jobs(jobs):
    import multiprocessing
    mp = multiprocessing.get_context('fork')
    # at most 4 worker processes (shared machine); heaviest configurations (largest m) first
    order = sorted(range(len(jobs)), key=lambda i: (-jobs[i][0], -jobs[i][1]))
    with mp.Pool(min(len(jobs), 4)) as pool:
        res = pool.map(run_config, [jobs[i] for i in order], chunksize=1)
    out = [None] * len(jobs)
    for i, r in zip(order, res):
        out[i] = r
    return out


def check_case(ctx, cfg, seed, case, ent):
    """oracle on one case; reports violations"""
    m, t, no_prss = cfg
    S, T, xs, scalar = case
    base = {'kind': 'convert', 'm': m, 't': t, 'no_prss': no_prss, 'seed': seed, 'source': list(S), 'target': list(T),
            'values_raw': xs, 'scalar': scalar}
    if not ent['agree']:
        ctx.violation(f'convert {tname(S)} -> {tname(T)}: parties disagree on the output', dict(base, observed=ent['all_raw']))
        return False
    ok = True
    for j, X in enumerate(xs):
        ys = expected(S, T, X)
        if ent['raw'][j] not in ys:
            ok = False
            ctx.violation(f'convert {tname(S)} -> {tname(T)} (m={m},t={t},{"no-" if no_prss else ""}PRSS): raw source {X} '
                          f'gives raw {ent["raw"][j]}, expected one of {sorted(ys)}',
                          dict(base, index=j, expected=sorted(ys), observed=ent['raw'][j]))
            break
    return ok


def lifted_finding(ctx):
    """directed inputs for the open finding C06-convert-lifted-field (lifted field: m >= q and t > 0)"""
    for direction in ('int->fld', 'fld->int'):
        data = {'kind': 'lifted', 'm': 3, 't': 1, 'no_prss': False, 'seed': 1, 'q': 3, 'value': 2, 'direction': direction,
                'finding_key': 'C06-convert-lifted-field'}
        ok, msg = replay(ctx, data)
        ctx.case(('lifted', direction))
        ctx.count('lifted-field directed')
        if not ok:
            ctx.violation('convert with a lifted secure field: ' + msg, data)


def run(ctx):
    rng = ctx.rng
    per_pair = ctx.scale(1, 6)
    jobs = make_jobs(ctx, rng, per_pair) + make_jobs(ctx, rng, 1, cfgs=CFGS_BIG[:ctx.scale(1, 4)])
    results = run_jobs(jobs)
    lines, impl, kinds = [], [], []
    for job, res in zip(jobs, results):
        m, t, no_prss, seed, signs, cases = job
        cfg = (m, t, no_prss)
        if res['err'] is not None:
            if res['err'].startswith('BUDGET'):
                raise common.InfraError('simulator step budget exceeded: ' + res['err'][:200])
            ctx.violation(f'convert run failed for m={m},t={t},no_prss={no_prss}: {res["err"]}',
                          {'kind': 'run', 'm': m, 't': t, 'no_prss': no_prss, 'seed': seed, 'signs': signs,
                           'cases': [[list(S), list(T), xs, sc] for S, T, xs, sc in cases]})
            continue
        for case, ent in zip(cases, res['cases']):
            S, T, xs, scalar = case
            ctx.case((cfg, S, T, tuple(xs), scalar))
            ctx.count(f'cfg m={m} t={t} {"noprss" if no_prss else "prss"}')
            ctx.count(f'{S[0]}->{T[0]}')
            if check_case(ctx, cfg, seed, case, ent):
                ctx.sample({'cfg': cfg, 'source': tname(S), 'target': tname(T), 'raw_in': xs, 'raw_out': ent['raw'],
                            'mask': [str(v) for v in ent['masks'][0][:2]]}, cap=4)
            # correspondence
            if not no_prss and not ent.get('prss_same', True):
                ctx.mismatch('PRSS mask differs between source and target field', {'cfg': cfg, 'case': [list(S), list(T), xs]})
            if not ent['mask_ok']:
                ctx.mismatch('could not recover the masks of the _convert calls', {'cfg': cfg, 'case': [list(S), list(T), xs],
                                                                                  'bounds': ent['bounds']})
                continue
            ls, im = build_lines(cfg, case, ent)
            lines += ls
            impl += [impl_view(r) for r in im]
            kinds += [r[0] for r in im]
            # bound used for the mask vs model
            n = ncontrib(m, t, no_prss)
            for ci, (bnd, cnt) in enumerate(ent['bounds']):
                if S[0] == 'fld' and ci == 0:
                    ctx.corr_compared += 1
                    if bnd != ent['ps'] or cnt != n:
                        ctx.mismatch('mask bound for a field source is not the field order / wrong number of contributions',
                                     {'cfg': cfg, 'case': [list(S), list(T), xs], 'bound': bnd, 'contributions': cnt})
                else:
                    l = min(ent['lmid'], ent['tb']) if S[0] == 'fld' else min(ent['sb'], ent['tb'])
                    lines.append(f'bound {K} {l} {n}')
                    impl.append(f'bound={bnd} n={cnt}')
                    kinds.append(('bound', n))
    model = common.LeanDriver('FldConv').run(lines)
    if isinstance(model, common.DriverFailure):
        ctx.compare('convert (mpc.convert vs MpycV.Convert)', impl, model, lines)
    else:
        view = []
        for kd, ans in zip(kinds, model):
            if kd in ('conv1', 'conv2'):
                view.append(model_view(kd, ans))
            else:
                view.append(f'bound={ans} n={kd[1]}')
        ctx.compare('convert (mpc.convert vs MpycV.Convert)', impl, view, lines)
    lifted_finding(ctx)


def search(ctx):
    """bigger oracle-only search on the real code"""
    rng = ctx.subrng('search')
    # larger party counts first: the number of PRSS summands comb(m,t) overtakes t+1 quickly (m=7,t=3: 35 vs 4)
    jobs = make_jobs(ctx, rng, ctx.scale(1, 3), cfgs=CFGS_BIG) + make_jobs(ctx, rng, ctx.scale(4, 12))
    for job, res in zip(jobs, run_jobs(jobs)):
        m, t, no_prss, seed, signs, cases = job
        if res['err'] is not None:
            continue
        for case, ent in zip(cases, res['cases']):
            if not check_case(ctx, (m, t, no_prss), seed, case, ent):
                return


def replay(ctx, data):
    if data.get('kind') == 'lifted':
        q, v = data['q'], data['value']
        sectypes._SecFld.cache_clear()

        async def prog(mpc):
            F = mpc.SecFld(q)
            I = mpc.SecInt(8)
            if data['direction'] == 'int->fld':
                return int(await mpc.output(mpc.convert(I(v), F)))
            return int(await mpc.output(mpc.convert(F(v), I)))
        try:
            res = SimNet(data['m'], data['t'], no_prss=data['no_prss'], seed=data['seed']).run(prog)
        except Exception as exc:
            return False, f'{data["direction"]} of {v} with SecFld({q}), m={data["m"]}, t={data["t"]}: raises {repr(exc)[:300]}'
        if all(r == v for r in res):
            return True, 'ok'
        return False, f'{data["direction"]} of {v} with SecFld({q}), m={data["m"]}, t={data["t"]}: outputs {res}, expected {v}'
    if data.get('kind') == 'run':
        cases = [(tuple(S), tuple(T), xs, sc) for S, T, xs, sc in data['cases']]
        res = run_config((data['m'], data['t'], data['no_prss'], data['seed'], data['signs'], cases))
        return res['err'] is None, res['err'] or 'ok'
    S, T = tuple(data['source']), tuple(data['target'])
    case = (S, T, list(data['values_raw']), bool(data.get('scalar')))
    res = run_config((data['m'], data['t'], data['no_prss'], data['seed'], None, [case]))
    if res['err'] is not None:
        return False, res['err']
    ent = res['cases'][0]
    if not ent['agree']:
        return False, f'parties disagree: {ent["all_raw"]}'
    for j, X in enumerate(case[2]):
        ys = expected(S, T, X)
        if ys is None:
            return True, 'input outside the domain'
        if ent['raw'][j] not in ys:
            return False, f'raw source {X} gives raw {ent["raw"][j]}, expected one of {sorted(ys)}'
    return True, 'ok'
