"""C04 — secure finite-field arithmetic equals field arithmetic.

Model: lean/MpycV/Model/SecFld.lean (value layer of runtime.py reciprocal/div/pow/is_zero/eq/is_zero_public,
and_/or_/xor/invert, to_bits/from_bits, lifting of small fields in sectypes._SecFld) over the executable field
models PrimeF / BinF / ExtF.  Theorems: MpycV.C04.  Tie: the real operators on secure field elements run by m
parties in the in-process simulator (including m >= q, where the type is lifted to an extension field) against the
Lean driver; for reciprocal/division/negative powers the masks r are RECOVERED from the parties (PRSS: PRF outputs
of all subsets; no PRSS: the senders' randbelow values) and the opened values a*r are compared one by one.
Oracle: harness/fldconv_oracle.py (schoolbook polynomial arithmetic mod the modulus, written independently).
"""
import os
import sys

sys.path.insert(0, os.path.dirname(os.path.dirname(os.path.abspath(__file__))))
import simnet  # noqa: E402
from simnet import SimNet, CUR, SECRETS, RTS  # noqa: E402
from mpyc import sectypes, thresha  # noqa: E402
import common  # noqa: E402
import fldconv_oracle as orc  # noqa: E402

LEVEL = 'proof'
LEAN_MODULES = ['MpycV.Props.C04']
LEAN_NAMESPACES = ['MpycV.C04']
REQUIRED_THEOREMS = ['isZero_correct', 'reciprocal_correct', 'reciprocal_loop', 'mult_blinding', 'reciprocal_model',
                     'div_model', 'pow_model', 'pow_neg_model', 'isZero_model', 'isZeroPublic_model', 'prime_field_faithful',
                     'prime_div_correct', 'toBits_prime', 'xor_bitwise', 'invert_bitwise', 'toBits_binary', 'and_or_bitwise',
                     'lift_hom']
RULE = ('case = (party configuration m in {1,2,3,5}, every t with 2t<m, PRSS on/off; field from GF(2),3,5,7,11,101,2^64-59, '
        'GF(2^8) (AES modulus), GF(2^2), GF(2^3), GF(3^2), GF(3^3), GF(5^2); small prime fields are LIFTED when t>0 and m>=q); '
        'bulk: every ordered pair of elements for q<=27 (else 0,1,q-1,2,random) through + - * / == and, in char 2, & | ^ ~; '
        'every element through ** with exponents {0,1,2,3,5,254,q-1,q,-1,-2,-(q-1)}, mixed public operands; sequential: '
        'divisions / negative powers / reciprocal / to_bits / is_zero_public with masks recovered and opened values compared; '
        'distinct = distinct (cfg, field, op, operands)')
EXPLANATION = ('Proved: field-level correctness of is_zero/reciprocal(+retry loop)/blinding over any finite field; the model run over '
               'any executable field representing a Mathlib field (instance proved for prime fields GF(p) = ZMod p); bitwise '
               'operations and to_bits on binary-field representations for all random bits; lifting (constants of the extension '
               'field, out_conv). That the executable extension/binary field models are fields is property C20. Unsupported '
               'configuration skipped: non-prime field with t>0 and m >= q (sectypes._SecFld asserts ext_deg == 1). Known finding '
               '(open): to_bits on a lifted odd prime field, key C04-to_bits-lifted-prime; public int operands outside range(q) with a '
               'lifted type in * and / were a finding (repaired in /repo, 293218b): regression input kept.')
ASSUMPTIONS = ['random bits of to_bits are not observed directly: they are recovered as (opened c) xor a; by toBits_binary / '
               'and_or_bitwise the results do not depend on them',
               'is_zero_public: the mask is recovered as opened/a (a != 0)',
               'secure integer to_bits (used for prime-field to_bits) is modelled by its specification (bits of V mod 2^l), C30']
TRUSTED = ['harness/props/c04.py: wrappers around thresha.pseudorandom_share, thresha.recombine, secrets (observation only)',
           'harness/fldconv_oracle.py']

P64 = 18446744073709551557
FIELDS = [('P', 2), ('P', 3), ('P', 5), ('P', 7), ('P', 11), ('P', 101), ('P', P64),
          ('B', 283), ('B', 7), ('B', 11), ('X', 3, 2), ('X', 3, 3), ('X', 5, 2)]
CFGS = [(1, 0), (2, 0), (3, 0), (3, 1), (4, 1), (5, 0), (5, 1), (5, 2)]   # (4,1): m a power of q=2 (lifting exponent boundary)


def fname(fd):
    return ':'.join(map(str, fd))


def user_order(fd):
    if fd[0] == 'P':
        return fd[1]
    if fd[0] == 'B':
        return 1 << (fd[1].bit_length() - 1)
    return fd[1] ** fd[2]


def user_char(fd):
    return 2 if fd[0] == 'B' else fd[1]


def supported(fd, m, t):
    """sectypes._SecFld asserts ext_deg == 1 when it has to lift (t > 0 and m >= q)"""
    return fd[0] == 'P' or t == 0 or m < user_order(fd)


def mk_type(mpc, fd):
    if fd[0] == 'P':
        return mpc.SecFld(fd[1])
    if fd[0] == 'B':
        return mpc.SecFld(modulus=fd[1], char=2)
    return mpc.SecFld(order=fd[1] ** fd[2])


def code(x):
    v = x.value
    return v if isinstance(v, int) else int(v)


# ---------------------------------------------------------------------------------------------------
# case generation (user-level integer codes of elements)
# ---------------------------------------------------------------------------------------------------
EXPS = [0, 1, 2, 3, 5, 254]


def gen_field_cases(rng, fd, level, lifted=False):
    """level 2: every ordered pair for q <= 27, all exponents; 1: every pair for q <= 11; 0: every pair for q <= 5"""
    q = user_order(fd)
    small = q <= 27
    if small:
        elems = list(range(q))
    else:
        elems = sorted({0, 1, 2, q - 1, q - 2, q // 2} | {rng.randrange(q) for _ in range((3, 5, 12)[level])})
    if small and q <= (5, 11, 27)[level]:
        pairs = [(a, b) for a in elems for b in elems]
    else:
        k = (3, 5, 6)[level]
        pairs = [(a, b) for a in elems[:k] for b in elems[:k]] + [(rng.choice(elems), rng.choice(elems)) for _ in range((10, 30, 60)[level])]
        if small:
            pairs += [(a, a) for a in elems] + [(a, 0) for a in elems[:8]] + [(0, a) for a in elems[:8]]
        else:
            pairs += [(elems[-1], elems[-1]), (elems[-1], 1), (1, elems[-1])]
        pairs = list(dict.fromkeys(pairs))
    # == costs q-1 exponentiation: fewer pairs for large fields
    neq = len(pairs) if small else (6, 12, 40)[level]
    exps = EXPS + [q - 1, q] + [-1, -2, -(q - 1)] if level else [0, 1, 2, 254, q - 1, q, -1, -(q - 1)]
    pe = elems if small and (level or q <= 11) else ([0, 1] + [rng.choice(elems) for _ in range((3, 4, 8)[level])])
    if not small and level < 2:
        exps = [0, 2, 3, 254, q - 1, -1, -2]
    pows = [(a, e) for a in dict.fromkeys(pe) for e in exps if e >= 0 or a != 0]
    npos = [pw for pw in pows if pw[1] >= 0]
    nneg = [pw for pw in pows if pw[1] < 0]
    rng.shuffle(nneg)
    pows = npos + nneg[:(8, 20, 200)[level]]
    seq = []
    nz = [a for a in elems if a != 0]
    for _ in range((2, 3, 10)[level]):
        seq.append(('div', rng.choice(elems), rng.choice(nz)))
        seq.append(('pow', rng.choice(nz), -rng.choice([1, 2, 3, q - 1, q] if small else [1, 2, 3])))
        seq.append(('izp', rng.choice(elems + [0]), 0))
    seq.append(('recip', rng.choice(nz), 0))
    seq.append(('izp', 0, 0))
    for _ in range((1, 2, 6)[level]):
        seq.append(('tobits', rng.choice(elems), 0))
    seq.append(('tobits', q - 1, 0))
    if fd[0] == 'P' and not lifted and q > 2:
        # partial decompositions: only the l low-order bits requested (the whole element must still fit the intermediate type)
        for lpart in sorted({1, min(8, (q - 1).bit_length()), max(1, (q - 1).bit_length() - 1)}):
            seq.append(('tobits', rng.choice(elems), lpart))
            seq.append(('tobits', q - 1, lpart))
    mixed = [(rng.choice(elems), rng.choice(elems)) for _ in range((2, 4, 12)[level])]
    if fd[0] == 'P' and q < 2**32:   # public ints outside range(q), also for lifted types (repo fix 293218b: a * 5 over lifted GF(3))
        mixed = [(a, b + q * rng.choice([-2, -1, 0, 1, 3])) for a, b in mixed]
    return {'pairs': pairs, 'neq': neq, 'pows': pows, 'seq': seq, 'mixed': mixed}


# ---------------------------------------------------------------------------------------------------
# observation hooks
# ---------------------------------------------------------------------------------------------------
def _runtime_chain(start=2, depth=8):
    names = []
    f = sys._getframe(start)
    while f is not None and len(names) < depth:
        if f.f_code.co_filename.endswith(os.path.join('mpyc', 'runtime.py')):
            names.append(f.f_code.co_name)
        f = f.f_back
    return names


class Recorder:
    def __init__(self, m):
        self.case = [None] * m
        self.masks = {}    # case -> {round key: {'first': order, 'vals': {contributor: int}}}
        self.opened = {}   # case -> [(field order, [codes])]  party 0
        self._ps = thresha.pseudorandom_share
        self._rc = thresha.recombine

    def _add(self, case, key, contributor, val):
        ent = self.masks.setdefault(case, {})
        e = ent.setdefault(key, {'first': len(ent), 'vals': {}})
        e['vals'][contributor] = val

    def install(self):
        rec = self

        def ps(field, m, i, prfs, uci, n):
            c = rec.case[CUR.get()]
            if c is not None and n == 1 and 'reciprocal' in _runtime_chain(1):
                for S, prf in prfs.items():
                    rec._add(c, bytes(uci), tuple(S), prf(uci, 1)[0])
            return rec._ps(field, m, i, prfs, uci, n)

        def rc(field, points, x_rs=0):
            y = rec._rc(field, points, x_rs)
            if CUR.get() == 0 and rec.case[0] is not None and sys._getframe(1).f_code.co_name == 'output':
                rec.opened.setdefault(rec.case[0], []).append((field.order, [code(field(a)) for a in y]))
            return y

        class Log:
            def append(self_, ent):
                pid, kind, arg, val = ent
                c = rec.case[pid]
                if c is not None and kind == 'randbelow' and 'reciprocal' in _runtime_chain(3):
                    rec._add(c, RTS[pid]._program_counter[0], pid, val)

        thresha.pseudorandom_share = ps
        thresha.recombine = rc
        SECRETS.log = Log()

    def uninstall(self):
        thresha.pseudorandom_share = self._ps
        thresha.recombine = self._rc
        SECRETS.log = None


# ---------------------------------------------------------------------------------------------------
# real runs
# ---------------------------------------------------------------------------------------------------
def run_config(job):
    m, t, no_prss, seed, plan = job      # plan: list of (fd, cases)
    sectypes._SecFld.cache_clear()
    rec = Recorder(m)

    async def prog(mpc):
        pid = mpc.pid
        res = []
        for fi, (fd, cs) in enumerate(plan):
            F = mk_type(mpc, fd)
            f = F.field
            mod = f.modulus
            info = {'lifted': F.subfield is not None, 'char': f.characteristic, 'deg': f.ext_deg, 'order': f.order,
                    'modulus': (mod if isinstance(mod, int) else (mod.value if isinstance(mod.value, int) else list(mod.value))),
                    'bit_length': F.bit_length, 'sub': (F.subfield.order if F.subfield is not None else None)}
            char2 = f.characteristic == 2
            A = [F(a) for a, _ in cs['pairs']]
            B = [F(b) for _, b in cs['pairs']]
            bulk = {}
            bulk['add'] = [a + b for a, b in zip(A, B)]
            bulk['sub'] = [a - b for a, b in zip(A, B)]
            bulk['mul'] = [a * b for a, b in zip(A, B)]
            bulk['eq'] = [a == b for a, b in list(zip(A, B))[:cs['neq']]]
            bulk['div'] = [a / b for (a, b), (_, vb) in zip(zip(A, B), cs['pairs']) if vb != 0]
            if char2:
                bulk['xor'] = [a ^ b for a, b in zip(A, B)]
                bulk['and'] = [a & b for a, b in zip(A, B)]
                bulk['or'] = [a | b for a, b in zip(A, B)]
                bulk['inv'] = [~a for a in A]
            bulk['pow'] = [F(a) ** e for a, e in cs['pows']]
            # mixed public operands: int and field-element operands on either side
            outf = F.subfield if F.subfield is not None else f
            pub = (lambda v: v) if F.subfield is not None else f   # lifted types: int operands (GF(q) elements are rejected by _coerce, see report)
            mx = []
            for a, b in cs['mixed']:
                sa = F(a)
                mx += [sa + b, b + sa, sa - pub(b), b - sa, sa * pub(b), b * sa, sa == b]
                if (b % fd[1] != 0) if fd[0] == 'P' else (b != 0):
                    mx += [sa / pub(b)]
                    if a != 0:
                        mx += [pub(b) / sa]
            bulk['mixed'] = mx
            outs = {}
            for k, v in bulk.items():
                o = await mpc.output(v)
                outs[k] = [code(x) for x in o]
                outs[k + '_types'] = sorted({type(x).__name__ for x in o})
            info['bulk'] = outs
            info['out_field'] = outf.__name__
            # sequential part
            seqres = []
            for si, (kind, a, b) in enumerate(cs['seq']):
                key = (fi, si)
                rec.case[pid] = key
                try:
                    if kind == 'div':
                        r = code(await mpc.output(F(a) / F(b)))
                    elif kind == 'pow':
                        r = code(await mpc.output(F(a) ** b))
                    elif kind == 'recip':
                        r = code(await mpc.output(1 / F(a)))
                    elif kind == 'izp':
                        r = bool(await mpc.is_zero_public(F(a)))
                    elif kind == 'tobits':
                        if F.subfield is not None and not char2:
                            r = 'skipped-known-finding'
                        elif not char2 and f.ext_deg > 1:
                            r = 'unsupported'   # TypeError by design: 'Binary field or prime field required.'
                        else:
                            r = [code(x) for x in await mpc.output(mpc.to_bits(F(a)) if not b else mpc.to_bits(F(a), b))]
                except Exception as exc:   # noqa
                    r = 'EXC:' + type(exc).__name__
                rec.case[pid] = None
                seqres.append(r)
            info['seq'] = seqres
            res.append(info)
        return res

    rec.install()
    try:
        results = SimNet(m, t, no_prss=no_prss, seed=seed, max_steps=200_000_000).run(prog)
        err = None
    except Exception as exc:
        results, err = None, ('BUDGET ' if getattr(exc, 'kind', '') == 'budget' else '') + repr(exc)[:700]
    finally:
        rec.uninstall()
    if results is None:
        return {'err': err}
    agree = all(r == results[0] for r in results)
    out = {'err': None, 'agree': agree, 'fields': results[0], 'all': None if agree else results}
    masks, opened = {}, {}
    for key, ent in rec.masks.items():
        masks[key] = [list(e['vals'].values()) for e in sorted(ent.values(), key=lambda e: e['first'])]
        masks[key + ('n',)] = [len(e['vals']) for e in sorted(ent.values(), key=lambda e: e['first'])]
    out['masks'] = masks
    out['opened'] = rec.opened
    return out


# ---------------------------------------------------------------------------------------------------
# oracle and model lines
# ---------------------------------------------------------------------------------------------------
def oracle_field(fd, modulus_from_code=None):
    """the field the USER asked for (prime field for lifted types)"""
    if fd[0] == 'P':
        return orc.Field(fd[1])
    if fd[0] == 'B':
        return orc.Field(2, orc.bits_of(fd[1], fd[1].bit_length()))
    return orc.Field(fd[1], modulus_from_code)


def model_fld(info):
    """driver tokens of the field the code computes in (the lifted field for lifted types)"""
    if info['deg'] == 1:
        return f"P {info['order']}"
    if info['char'] == 2:
        return f"B {info['modulus']}"
    return f"X {info['char']} {','.join(map(str, info['modulus']))}"


def enc(info, c):
    """driver encoding of a raw element code of the computation field"""
    if info['deg'] == 1 or info['char'] == 2:
        return str(c)
    p, ds = info['char'], []
    while c:
        ds.append(c % p)
        c //= p
    return ','.join(map(str, ds)) if ds else '-'


def dec(info, s):
    if info['deg'] == 1 or info['char'] == 2 or info['lifted']:
        return int(s)
    if s == '-':
        return 0
    n = 0
    for d in reversed(s.split(',')):
        n = n * info['char'] + int(d)
    return n


class Lines:
    """model requests de-duplicated over configurations (bulk results do not depend on the configuration)"""

    def __init__(self):
        self.req = {}      # line -> list of (impl answer, context)

    def add(self, line, impl, ctxinfo):
        self.req.setdefault(line, []).append((impl, ctxinfo))


def check_field(ctx, cfg, seed, fd, cs, info, res, fi, L):
    m, t, no_prss = cfg
    q = user_order(fd)
    lifted = info['lifted']
    OF = oracle_field(fd, info['modulus'] if fd[0] == 'X' else None)
    if lifted != (t > 0 and m >= q):
        ctx.violation(f'lifting decision wrong for {fname(fd)}: m={m} t={t} lifted={lifted}',
                      {'kind': 'lift', 'm': m, 't': t, 'field': list(fd), 'observed': lifted})
    if lifted:
        e = info['deg']
        if not (info['char'] ** e > m and e >= 2 and info['char'] == fd[1]):
            ctx.violation(f'lifted field of {fname(fd)} too small for m={m}: degree {e}',
                          {'kind': 'lift', 'm': m, 't': t, 'field': list(fd), 'observed_degree': e})
    base = {'m': m, 't': t, 'no_prss': no_prss, 'seed': seed, 'field': list(fd)}
    mf = model_fld(info)
    pre = f'lifted {q} ' if lifted else ''
    ue = (lambda c: str(c)) if lifted else (lambda c: enc(info, c))     # operands as the user-level element
    bulk = info['bulk']

    def viol(op, operands, expected, observed):
        ctx.violation(f'{fname(fd)} (m={m},t={t},{"no-" if no_prss else ""}PRSS{", lifted" if lifted else ""}): '
                      f'{op}{tuple(operands)} = {observed}, expected {expected}',
                      dict(base, kind='op', op=op, operands=list(operands), expected=expected, observed=observed))

    el = OF.from_code
    zero1 = lambda b: 1 if b else 0  # noqa
    binops = {'add': OF.add, 'sub': OF.sub, 'mul': OF.mul}
    for op in ('add', 'sub', 'mul', 'eq'):
        for (a, b), r in zip(cs['pairs'], bulk[op]):
            exp = zero1(a == b) if op == 'eq' else OF.code(binops[op](el(a), el(b)))
            ctx.case((cfg, fd, op, a, b))
            if r != exp:
                viol(op, (a, b), exp, r)
            if op == 'eq':
                L.add(f'{pre}eq {mf} {ue(a)} {ue(b)}', ue(r), (cfg, fd))
            else:
                L.add(f'{pre}bop {mf} {op} {ue(a)} {ue(b)}', ue(r), (cfg, fd))
    dv = [(a, b) for a, b in cs['pairs'] if b != 0]
    for (a, b), r in zip(dv, bulk['div']):
        exp = OF.code(OF.div(el(a), el(b)))
        ctx.case((cfg, fd, 'div', a, b))
        if r != exp:
            viol('div', (a, b), exp, r)
    if user_char(fd) == 2:
        d = (q - 1).bit_length()
        for op, fn in (('xor', lambda a, b: a ^ b), ('and', lambda a, b: a & b), ('or', lambda a, b: a | b)):
            for (a, b), r in zip(cs['pairs'], bulk[op]):
                ctx.case((cfg, fd, op, a, b))
                if r != fn(a, b):
                    viol(op, (a, b), fn(a, b), r)
                if op == 'xor':
                    L.add(f'{pre}xor {mf} {ue(a)} {ue(b)}', ue(r), (cfg, fd))
                else:
                    zb = ','.join(['0'] * info['bit_length'])
                    L.add(f'{pre}{op} {mf} {ue(a)} {ue(b)} {zb} {zb}', ue(r), (cfg, fd))
        for (a, _), r in zip(cs['pairs'], bulk['inv']):
            exp = a ^ ((1 << d) - 1)
            if r != exp:
                viol('invert', (a,), exp, r)
            L.add(f'{pre}invert {mf} {q if lifted else 0} {ue(a)}', ue(r), (cfg, fd))
    for (a, e), r in zip(cs['pows'], bulk['pow']):
        exp = OF.code(OF.pow(el(a), e))
        ctx.case((cfg, fd, 'pow', a, e))
        ctx.count('pow exponent ' + ('254' if e == 254 else 'neg' if e < 0 else 'q-1' if e == q - 1 else 'other'))
        if r != exp:
            viol('pow', (a, e), exp, r)
        if e >= 0:
            L.add(f'{pre}pow {mf} {ue(a)} {e} _', '_|' + ue(r), (cfg, fd))
    # mixed operands
    k = 0
    mx = bulk['mixed']
    for a, b in cs['mixed']:
        ea, eb = el(a), el(b % q if fd[0] == 'P' else b)
        exps = [OF.add(ea, eb), OF.add(eb, ea), OF.sub(ea, eb), OF.sub(eb, ea), OF.mul(ea, eb), OF.mul(eb, ea), None]
        names = ['a+int', 'int+a', 'a-elt', 'int-a', 'a*elt', 'int*a', 'a==int']
        pubnz = (b % user_char(fd) != 0) if (fd[0] == 'P') else (b != 0)
        if pubnz:
            exps.append(OF.div(ea, eb))
            names.append('a/elt')
            if a != 0:
                exps.append(OF.div(eb, ea))
                names.append('elt/a')
        for nm, ex in zip(names, exps):
            exp = zero1(ea == eb) if ex is None else OF.code(ex)
            ctx.case((cfg, fd, nm, a, b))
            if mx[k] != exp:
                viol(nm, (a, b), exp, mx[k])
            k += 1
    for tk, tys in bulk.items():
        if tk.endswith('_types') and tys and tys != [info['out_field']]:
            ctx.violation(f'{fname(fd)}: outputs of {tk[:-6]} are of type {tys}, requested field {info["out_field"]}',
                          dict(base, kind='type', op=tk[:-6], observed=tys, expected=info['out_field']))
    # sequential part: masks and opened values
    CF = orc.Field(info['char'], None if info['deg'] == 1 else
                   (orc.bits_of(info['modulus'], info['modulus'].bit_length()) if info['char'] == 2 else info['modulus']))
    ncontrib = (t + 1) if no_prss else __import__('math').comb(m, t)
    for si, ((kind, a, b), r) in enumerate(zip(cs['seq'], info['seq'])):
        key = (fi, si)
        opened = [o[1][0] for o in res['opened'].get(key, []) if len(o[1]) == 1] if kind != 'tobits' else res['opened'].get(key, [])
        ctx.case((cfg, fd, 'seq', kind, a, b))
        ctx.count('seq ' + kind)
        if isinstance(r, str) and r.startswith('EXC'):
            viol(kind, (a, b), 'a result', r)
            continue
        if kind in ('div', 'pow', 'recip'):
            if kind == 'div':
                exp = OF.code(OF.div(el(a), el(b)))
            elif kind == 'pow':
                exp = OF.code(OF.pow(el(a), b))
            else:
                exp = OF.code(OF.inv(el(a)))
            if r != exp:
                viol(kind, (a, b), exp, r)
            rounds = res['masks'].get(key, [])
            counts = res['masks'].get(key + ('n',), [])
            ms = []
            for vals in rounds:
                s = CF.zero
                for v in vals:
                    s = CF.add(s, CF.from_code(v % CF.q) if CF.d == 1 else CF.from_code(v))
                ms.append(CF.code(s))
            rs = ';'.join(enc(info, v) for v in ms) if ms else '_'
            op_real = opened[:-1]
            impl = (';'.join(enc(info, v) for v in op_real) if op_real else '_') + '|' + ue(r)
            if any(c != ncontrib for c in counts) or len(rounds) != len(op_real):
                ctx.mismatch('could not recover the reciprocal masks', {'cfg': cfg, 'field': list(fd), 'case': [kind, a, b],
                                                                     'contributions': counts, 'rounds': len(rounds),
                                                                     'opened': len(op_real)})
                continue
            ctx.count(f'reciprocal rounds {min(len(rounds), 3)}')
            if kind == 'div':
                L.add(f'{pre}div {mf} {ue(a)} {ue(b)} {rs}', impl, (cfg, fd))
            elif kind == 'pow':
                L.add(f'{pre}pow {mf} {ue(a)} {b} {rs}', impl, (cfg, fd))
            else:
                L.add(f'{pre}recip {mf} {ue(a)} {rs}', impl, (cfg, fd))
        elif kind == 'izp':
            if r != (a == 0):
                viol('is_zero_public', (a,), a == 0, r)
            if opened:
                c = opened[-1]
                av = CF.const(a) if lifted else CF.from_code(a)
                rmask = CF.code(CF.div(CF.from_code(c), av)) if a != 0 else 1
                L.add(f'{pre}izp {mf} {ue(a)} {enc(info, rmask)}', f'{enc(info, c)} {r}', (cfg, fd))
        elif kind == 'tobits':
            if r in ('skipped-known-finding',):
                continue
            if r == 'unsupported':
                continue
            l = b if b else info['bit_length']
            exp = orc.bits_of(a, l)
            if r != exp:
                viol('to_bits', (a,) if not b else (a, b), exp, r)
            if b:
                continue
            if user_char(fd) == 2:
                ops = [o for o in opened[:-1] if len(o[1]) == 1]
                if ops:
                    c = ops[-1][1][0]
                    # the mask covers every coefficient of the (possibly lifted) field, l bits are returned (repo fix ccbb4b9)
                    lr = max(l, (c ^ a).bit_length())
                    rb = orc.bits_of(c ^ a, lr)
                    L.add(f'{pre}tobits {mf} {ue(a)} {",".join(map(str, rb))} {l}', f'{c}|' + ';'.join(map(str, r)), (cfg, fd))
            else:
                L.add(f'tobitsp {fd[1]} 0 {a} {l}', ','.join(map(str, r)), (cfg, fd))


def make_jobs(ctx, rng):
    jobs = []
    idx = 0
    for (m, t) in CFGS:
        for no_prss in (False, True):
            plan = []
            for fd in FIELDS:
                if not supported(fd, m, t):
                    ctx.count('unsupported (non-prime field, t>0, m>=q): skipped')
                    continue
                if not ctx.thorough and (m, t) in ((2, 0), (3, 0), (5, 0), (5, 1)) and user_order(fd) > 5 \
                        and (idx + FIELDS.index(fd)) % 2:
                    ctx.count('quick tier: field skipped in this configuration (rotation)')
                    continue
                if ctx.thorough:
                    level = 2
                elif m == 1:
                    level = 2 if not no_prss else 1
                elif m <= 3:
                    level = 1 if (idx + FIELDS.index(fd)) % 3 == 0 or t > 0 and user_order(fd) <= 5 else 0
                else:
                    level = 0
                plan.append((fd, gen_field_cases(rng, fd, level, fd[0] == 'P' and t > 0 and m >= fd[1])))
            jobs.append((m, t, no_prss, ctx.seed * 1000 + idx, plan))
            idx += 1
    return jobs


def run_jobs(jobs):
    import multiprocessing
    mp = multiprocessing.get_context('fork')
    # at most 4 worker processes (shared machine); heaviest configurations (largest m) first
    order = sorted(range(len(jobs)), key=lambda i: (-jobs[i][0], -jobs[i][1]))
    with mp.Pool(min(len(jobs), 4)) as pool:
        res = pool.map(run_config, [jobs[i] for i in order], chunksize=1)
    out = [None] * len(jobs)
    for i, r in zip(order, res):
        out[i] = r
    return out


def tobits_finding(ctx):
    for q, m, t in ((3, 3, 1), (5, 5, 2)):
        data = {'kind': 'tobits-lifted', 'm': m, 't': t, 'no_prss': False, 'seed': 1, 'q': q, 'value': q - 1,
                'finding_key': 'C04-to_bits-lifted-prime'}
        ok, msg = replay(ctx, data)
        ctx.case(('tobits-lifted', q, m, t))
        ctx.count('to_bits on lifted odd prime field (directed)')
        if not ok:
            ctx.violation('to_bits on a lifted prime field: ' + msg, data)


def int_operand_finding(ctx):
    """regression input of the former finding C04-lifted-int-operand (repo fix 293218b)"""
    data = {'kind': 'lifted-int-operand', 'm': 3, 't': 1, 'no_prss': False, 'seed': 1, 'q': 3, 'value': 2, 'int': 5}
    ok, msg = replay(ctx, data)
    ctx.case(('lifted-int-operand', 3))
    ctx.count('int operand >= q with a lifted type (directed)')
    if not ok:
        ctx.violation('lifted secure field with a public int operand outside range(q): ' + msg, data)


def run(ctx):
    rng = ctx.rng
    jobs = make_jobs(ctx, rng)
    results = run_jobs(jobs)
    L = Lines()
    for job, res in zip(jobs, results):
        m, t, no_prss, seed, plan = job
        cfg = (m, t, no_prss)
        ctx.count(f'cfg m={m} t={t} {"noprss" if no_prss else "prss"}')
        if res['err'] is not None:
            if res['err'].startswith('BUDGET'):
                raise common.InfraError('simulator step budget exceeded: ' + res['err'][:200])
            ctx.violation(f'run failed for m={m},t={t},no_prss={no_prss}: {res["err"]}',
                          {'kind': 'run', 'm': m, 't': t, 'no_prss': no_prss, 'seed': seed,
                           'plan': [[list(fd), cs] for fd, cs in plan]})
            continue
        if not res['agree']:
            ctx.violation(f'parties disagree on outputs for m={m},t={t},no_prss={no_prss}',
                          {'kind': 'run', 'm': m, 't': t, 'no_prss': no_prss, 'seed': seed,
                           'plan': [[list(fd), cs] for fd, cs in plan]})
            continue
        for fi, ((fd, cs), info) in enumerate(zip(plan, res['fields'])):
            ctx.count('field ' + fname(fd) + (' lifted' if info['lifted'] else ''))
            check_field(ctx, cfg, seed, fd, cs, info, res, fi, L)
            if len(ctx.samples) < 4 and info['lifted']:
                ctx.sample({'cfg': cfg, 'field': fname(fd), 'lifted_to': model_fld(info), 'mul': list(zip(cs['pairs'][:4], info['bulk']['mul'][:4]))})
    lines = list(L.req.keys())
    model = common.LeanDriver('FldConv').run(lines)
    if isinstance(model, common.DriverFailure):
        ctx.compare('secure field arithmetic (mpc vs MpycV.SecFld)', ['?'] * len(lines), model, lines)
    else:
        impl, mod, inp = [], [], []
        for ln, ans in zip(lines, model):
            for im, ci in L.req[ln]:
                impl.append(im)
                mod.append(ans)
                inp.append({'request': ln, 'cfg': ci[0], 'field': fname(ci[1])})
        ctx.compare('secure field arithmetic (mpc vs MpycV.SecFld)', impl, mod, inp)
    # lifting parameters: model vs code
    ll, li = [], []
    for job, res in zip(jobs, results):
        if res['err'] is None:
            m, t = job[0], job[1]
            for (fd, _), info in zip(job[4], res['fields']):
                if fd[0] == 'P':
                    ll.append(f'islifted {fd[1]} {m} {t}')
                    li.append('True' if info['lifted'] else 'False')
                    if info['lifted']:
                        ll.append(f'liftdeg {fd[1]} {m}')
                        li.append(str(info['deg']))
    ctx.compare('lifting decision and degree (sectypes._SecFld vs MpycV.SecFld)', li, common.LeanDriver('FldConv').run(ll), ll)
    tobits_finding(ctx)
    int_operand_finding(ctx)
    ctx.note('observation (outside the statement, triaged by the coordinator): a lifted secure field type rejects public '
             'operands of the subfield type GF(q) with TypeError (sectypes.SecureObject._coerce accepts only elements of the lifted '
             'field); int operands are used in lifted configurations, also outside range(q) (repaired finding, repo fix 293218b)')


def search(ctx):
    rng = ctx.subrng('search')
    jobs = make_jobs(ctx, rng)
    L = Lines()
    for job, res in zip(jobs, run_jobs(jobs)):
        m, t, no_prss, seed, plan = job
        if res['err'] is not None or not res['agree']:
            continue
        for fi, ((fd, cs), info) in enumerate(zip(plan, res['fields'])):
            check_field(ctx, (m, t, no_prss), seed, fd, cs, info, res, fi, L)
        if ctx.violations:
            return


def replay(ctx, data):
    if data.get('kind') == 'tobits-lifted':
        q, v = data['q'], data['value']
        sectypes._SecFld.cache_clear()

        async def prog(mpc):
            F = mpc.SecFld(q)
            return [int(b) for b in await mpc.output(mpc.to_bits(F(v)))]
        try:
            res = SimNet(data['m'], data['t'], no_prss=data['no_prss'], seed=data['seed']).run(prog)
        except Exception as exc:
            return False, f'to_bits(SecFld({q})({v})) with m={data["m"]}, t={data["t"]} raises {repr(exc)[:300]}'
        exp = orc.bits_of(v, (q - 1).bit_length())
        if all(r == exp for r in res):
            return True, 'ok'
        return False, f'to_bits(SecFld({q})({v})) with m={data["m"]}, t={data["t"]} gives {res}, expected {exp}'
    if data.get('kind') == 'lifted-int-operand':
        q, v, k = data['q'], data['value'], data['int']
        sectypes._SecFld.cache_clear()

        async def prog(mpc):
            F = mpc.SecFld(q)
            out = []
            for fn in (lambda a: a * k, lambda a: k * a, lambda a: a / k, lambda a: k / a):
                out.append(code(await mpc.output(fn(F(v)))))
            return out
        F0 = orc.Field(q)
        ev, ek = F0.from_code(v % q), F0.from_code(k % q)
        exp = [F0.code(F0.mul(ev, ek)), F0.code(F0.mul(ek, ev)), F0.code(F0.div(ev, ek)), F0.code(F0.div(ek, ev))]
        try:
            res = SimNet(data['m'], data['t'], no_prss=data['no_prss'], seed=data['seed']).run(prog)
        except Exception as exc:
            return False, (f'a = SecFld({q})({v}); a*{k}, {k}*a, a/{k}, {k}/a with m={data["m"]}, t={data["t"]} raises '
                           f'{repr(exc)[-200:]} (expected {exp})')
        if all(r == exp for r in res):
            return True, 'ok'
        return False, f'a = SecFld({q})({v}); [a*{k}, {k}*a, a/{k}, {k}/a] = {res}, expected {exp}'
    fd = tuple(data['field'])
    m, t, no_prss, seed = data['m'], data['t'], data['no_prss'], data['seed']
    if data.get('kind') == 'run':
        plan = [(tuple(f), cs) for f, cs in data['plan']]
        res = run_config((m, t, no_prss, seed, plan))
        ok = res['err'] is None and res['agree']
        return ok, res['err'] or ('ok' if ok else 'parties disagree')
    sectypes._SecFld.cache_clear()
    if data.get('kind') in ('lift', 'type'):
        cs = {'pairs': [(1, 1)], 'neq': 1, 'pows': [], 'seq': [], 'mixed': []}
    else:
        op, ops = data['op'], data['operands']
        a = ops[0]
        b = ops[1] if len(ops) > 1 else 0
        cs = {'neq': 1, 'pairs': [(a, b)] if op in ('add', 'sub', 'mul', 'eq', 'div', 'xor', 'and', 'or', 'invert') else [],
              'pows': [(a, b)] if op == 'pow' else [], 'mixed': [(a, b)] if op in ('a+int', 'int+a', 'a-elt', 'int-a', 'a*elt', 'int*a', 'a==int', 'a/elt', 'elt/a') else [],
              'seq': [(op if op not in ('is_zero_public', 'to_bits') else {'is_zero_public': 'izp', 'to_bits': 'tobits'}[op], a, b)]
              if op in ('recip', 'is_zero_public', 'to_bits') else []}
        if op in ('div',) and b == 0:
            return True, 'input outside the domain'
    res = run_config((m, t, no_prss, seed, [(fd, cs)]))
    if res['err'] is not None:
        return False, res['err']
    if not res['agree']:
        return False, 'parties disagree'
    sub = common.Ctx(ctx.property_id, ctx.tier, ctx.seed)
    check_field(sub, (m, t, no_prss), seed, fd, cs, res['fields'][0], res, 0, Lines())
    if sub.violations:
        return False, sub.violations[0][0]
    return True, 'ok'
