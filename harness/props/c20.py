"""C20 — finite field elements obey the field laws through every operator.

Model: lean/MpycV/Model/PrimeF.lean (PrimeFieldElement + gmpy stubs), lean/MpycV/Model/ExtF.lean
(ExtensionFieldElement / BinaryFieldElement on top of the GFpX/BinPoly models).
Theorems: MpycV.C20 (ring isomorphism to ZMod p, field axioms, in-place/reflected = binary, mixing ints,
pow = repeated multiplication / inverse, shifts = mul/div by 2^n, reduced invariant, only 0 has no inverse).
Tie: every operator of the REAL classes vs the Lean driver (Drv/FinFld.lean) on the same operands.
Oracle: finfld_oracle.OField (textbook arithmetic) + the field axioms checked directly on the real objects.
"""
import os
import sys

sys.path.insert(0, os.path.dirname(os.path.dirname(os.path.abspath(__file__))))
import finfld_common as fc  # noqa: E402
import common  # noqa: E402

LEVEL = 'proof'
LEAN_MODULES = ['MpycV.Props.C20']
LEAN_NAMESPACES = ['MpycV.C20']
REQUIRED_THEOREMS = ['toZMod_iso', 'reduced_ring_ops', 'reduced_partial_ops', 'inplace_reflected_agree',
                     'rsub_eq_sub_conv', 'rtruediv_eq_truediv_conv', 'mix_int', 'mix_int_div', 'ring_axioms',
                     'neutral', 'inv_iff_nonzero', 'div_eq_mul_reciprocal', 'pow_eq_repeated_mul', 'pow_neg',
                     'lshift_eq_mul_pow2', 'rshift_eq_div_pow2', 'lshift_rshift_cancel', 'shifts_char_two',
                     'eq_iff', 'hash_bool',
                     'ext_reduced', 'ext_inplace_reflected_agree', 'ext_ring_axioms', 'ext_inv_iff_nonzero', 'ext_mix_int',
                     'ext_pow', 'ext_shifts_as_coded', 'ext_shift_pow2_fails_witness', 'ext_shift_pow2_partial',
                     'bin_reduced', 'bin_inplace_reflected_agree', 'bin_ring_axioms', 'bin_inv_iff_nonzero', 'bin_shifts',
                     'bin_mix_int']
RULE = ('case = (field, operator, left element, right operand); operators: + - * / with element/int/polynomial operand, '
        'reflected (int/polynomial on the left), in-place, unary -, +, reciprocal, bool, int, ** with exponents in '
        '[-q-2, q+2] and random large, << >> (incl. negative counts), ==, hash; EXHAUSTIVE over all element pairs of the '
        'fields of order 2,3,5,7,11,4,8,9,16,25,27 and all ints in [-q-1, 2q+1]; random elements/ints (incl. |int| up to '
        '2^70 and multiples of p) for GF(2^8) (AES modulus), GF(3^5), 64-, 255- and 256-bit primes; the field axioms '
        '(assoc., comm., distrib., neutral, inverse) on all triples of the small fields and random triples of the big '
        'ones; distinct = distinct (field, operator, operands); every case is compared real vs Lean model vs oracle')
ASSUMPTIONS = ['gmpy2 is modelled by the pure-Python stubs of mpyc/gmpy.py (the installed configuration); with a real gmpy2 '
               'the error class of 0 ** -n may differ (canonicalised to NoInverse)',
               'CPython int arithmetic and the built-in pow(x, y, m)',
               'polynomial arithmetic of gfpx.py as modelled by area GFpX (MpycV.GFpX / MpycV.BinPoly, properties C23/C24)']
TRUSTED = ['harness/finfld_common.py (canonical text forms, request lines)', 'harness/finfld_oracle.py (reference arithmetic)']
EXPLANATION = ('proved for all inputs: prime fields (part 1: ring isomorphism to ZMod p and every clause), extension fields '
               '(part 2, via AdjoinRoot of the modulus: reduced invariant, ring axioms, inverse iff nonzero, mixing ints, pow) and '
               'binary fields (part 3, same + shifts = mul/div by F(2)^n).  Shifts of ODD-characteristic extension fields do not '
               'satisfy the property (open known finding extfield-shift-odd-char): proved is what the code does '
               '(ext_shifts_as_coded) and the kernel-checked counterexample (ext_shift_pow2_fails_witness); '
               'hash consistency and the reflected == with a polynomial on the left are validated on the real code only')

BIN_OPS = ['add', 'sub', 'mul', 'truediv']
REFL = {'add': 'radd', 'sub': 'rsub', 'mul': 'rmul', 'truediv': 'rtruediv'}
INPL = {'add': 'iadd', 'sub': 'isub', 'mul': 'imul', 'truediv': 'itruediv'}
SHIFT_KEY = 'extfield-shift-odd-char'


# -------------------------------------------------------------------------------------------------
# evaluation of one case on the real code, the oracle, and as a driver line
# -------------------------------------------------------------------------------------------------
def _operand(w, okind, o):
    if okind == 'e':
        return w.elem(o)
    if okind == 'i':
        return o
    return w.opoly(o)


def _aliases(w, r, *operands):
    """the result of an out-of-place operator is a value of its own: changing it in place must not change an operand"""
    before = [w.txt(o) for o in operands]
    try:
        r += w.elem(1)
    except Exception:  # noqa: BLE001
        return False
    return any(w.txt(o) != t for o, t in zip(operands, before))


def real_eval(w, case):
    """Run one case on the real classes; returns canonical text (value, True/False, int, or exception class)."""
    kind = case[0]
    try:
        if kind == 'bin':
            _, op, a, okind, o = case
            x = w.elem(a)
            y = _operand(w, okind, o)
            if op == 'add':
                r = x + y
            elif op == 'sub':
                r = x - y
            elif op == 'mul':
                r = x * y
            elif op == 'truediv':
                r = x / y
            elif op == 'radd':
                r = y + x
            elif op == 'rsub':
                r = y - x
            elif op == 'rmul':
                r = y * x
            elif op == 'rtruediv':
                r = y / x
            else:
                r = x
                if op == 'iadd':
                    r += y
                elif op == 'isub':
                    r -= y
                elif op == 'imul':
                    r *= y
                elif op == 'itruediv':
                    r /= y
                else:
                    raise KeyError(op)
                if r is not x:
                    return 'inplace-returned-new-object'
            if not w.reduced(r):
                return f'UNREDUCED:{r!r}'
            out = w.txt(r)
            if op in ('add', 'sub', 'mul', 'truediv', 'radd', 'rsub', 'rmul', 'rtruediv') and \
                    _aliases(w, r, *([x, y] if okind == 'e' else [x])):
                return f'ALIASED-OPERAND:{op}'
            return out
        if kind == 'un':
            _, op, a = case
            x = w.elem(a)
            if op == 'neg':
                r = -x
            elif op == 'pos':
                r = +x
            elif op == 'reciprocal':
                r = x.reciprocal()
            elif op == 'bool':
                return 'True' if x else 'False'
            elif op == 'int':
                return str(int(x))
            elif op == 'hash':
                # equal elements built in different ways have equal hashes and compare equal
                y = w.F(a + w.q) if w.kind == 'prime' else w.F(w.opoly(a))
                return 'True' if (hash(x) == hash(y) and x == y and not (x != y)) else 'False'
            else:
                raise KeyError(op)
            if not w.reduced(r):
                return f'UNREDUCED:{r!r}'
            out = w.txt(r)
            if _aliases(w, r, x):
                return f'ALIASED-OPERAND:{op}'
            return out
        if kind == 'sh':
            _, op, a, n = case
            x = w.elem(a)
            if op == 'pow':
                try:
                    r = x ** n
                except (ZeroDivisionError, ValueError):
                    return 'NoInverse'
            elif op == 'lshift':
                r = x << n
            elif op == 'rshift':
                r = x >> n
            else:
                r = x
                if op == 'ilshift':
                    r <<= n
                elif op == 'irshift':
                    r >>= n
                else:
                    raise KeyError(op)
                if r is not x:
                    return 'inplace-returned-new-object'
            if not w.reduced(r):
                return f'UNREDUCED:{r!r}'
            out = w.txt(r)
            if op in ('pow', 'lshift', 'rshift') and _aliases(w, r, x):
                return f'ALIASED-OPERAND:{op}'
            return out
        if kind == 'eq':
            _, a, okind, o = case
            x = w.elem(a)
            y = _operand(w, okind, o)
            r = (x == y)
            if r is not True and r is not False:
                return f'non-bool:{r!r}'
            if (x != y) == r:
                return 'eq-ne-inconsistent'
            return 'True' if r else 'False'
    except ZeroDivisionError:
        return 'ZeroDivisionError'
    except ValueError:
        return 'ValueError'
    except OverflowError:
        return 'OverflowError'
    raise KeyError(case)


def line_of(w, case):
    kind = case[0]
    if kind == 'bin':
        return w.line_bin(*case[1:])
    if kind == 'un':
        if case[1] == 'hash':
            return None
        return w.line_un(*case[1:])
    if kind == 'sh':
        return w.line_sh(*case[1:])
    return w.line_eq(*case[1:])


def canon_model(case, out):
    """the model reports the exception class of the polynomial layer; the tie canonicalises 0 ** -n"""
    if case[0] == 'sh' and case[1] == 'pow' and out in ('ZeroDivisionError', 'ValueError', 'NoInverse'):
        return 'NoInverse'
    return out


def oracle_eval(w, case):
    """Expected canonical text from the independent oracle; None = not constrained by the property."""
    O = w.O
    kind = case[0]
    if kind == 'bin':
        _, op, a, okind, o = case
        x = w.oelem(a)
        y = w.oconv(okind, o)
        base = op[1:] if op[0] in 'ri' and op not in ('rsub', 'rtruediv') else op
        if op in ('add', 'radd', 'iadd'):
            r = O.add(x, y)
        elif op in ('sub', 'isub'):
            r = O.sub(x, y)
        elif op == 'rsub':
            r = O.sub(y, x)
        elif op in ('mul', 'rmul', 'imul'):
            r = O.mul(x, y)
        elif op in ('truediv', 'itruediv'):
            r = O.div(x, y)
        elif op == 'rtruediv':
            r = O.div(y, x)
        else:
            raise KeyError(base)
        return 'ZeroDivisionError' if r is None else w.otxt(r)
    if kind == 'un':
        _, op, a = case
        x = w.oelem(a)
        if op == 'neg':
            return w.otxt(O.neg(x))
        if op == 'pos':
            return w.otxt(x)
        if op == 'reciprocal':
            r = O.inv(x)
            return 'ZeroDivisionError' if r is None else w.otxt(r)
        if op == 'bool':
            return 'True' if x != O.zero else 'False'
        if op == 'int':
            if w.kind == 'prime':        # signed representative in (-p/2, p/2]
                v = x[0]
                return str(v if 2 * v <= w.p else v - w.p)
            return str(O.to_int(x))
        if op == 'hash':
            return 'True'
    if kind == 'sh':
        _, op, a, n = case
        x = w.oelem(a)
        if op == 'pow':
            r = O.pow(x, n)
            return 'NoInverse' if r is None else w.otxt(r)
        if n < 0:
            return None          # negative shift counts: error behaviour not constrained by the property
        two_n = O.npow(O.from_int(2), n)
        if op in ('lshift', 'ilshift'):
            return w.otxt(O.mul(x, two_n))
        r = O.div(x, two_n)
        return 'ZeroDivisionError' if r is None else w.otxt(r)
    if kind == 'eq':
        _, a, okind, o = case
        return 'True' if w.oelem(a) == w.oconv(okind, o) else 'False'
    raise KeyError(case)


def is_known_shift(w, case):
    return w.kind == 'ext' and case[0] == 'sh' and case[1] in ('lshift', 'ilshift', 'rshift', 'irshift')


# -------------------------------------------------------------------------------------------------
# case generation
# -------------------------------------------------------------------------------------------------
def cases_exhaustive(w, rng=None, full=True):
    """all element pairs for every operator; ints/polynomials/exponents: all of the stated ranges when `full`
    (thorough tier, and always for q <= 11), otherwise a seeded sample of them per left element"""
    q = w.q
    els = range(q)
    all_ints = list(range(-q - 1, 2 * q + 2))
    all_polys = list(range(0, q * w.p + 2)) if w.kind != 'prime' else []   # incl. unreduced ones (degree d)
    all_exps = list(range(-q - 2, q + 3))
    full = full or q <= 11
    for a in els:
        for op in ('neg', 'pos', 'reciprocal', 'bool', 'int', 'hash'):
            yield ('un', op, a)
        for b in els:
            for op in BIN_OPS:
                yield ('bin', op, a, 'e', b)
                yield ('bin', INPL[op], a, 'e', b)
            yield ('eq', a, 'e', b)
        ints = all_ints if full else sorted(set([0, 1, -1, q, -q, w.p, a, a - q] + rng.sample(all_ints, 8)))
        for o in ints:
            for op in BIN_OPS:
                yield ('bin', op, a, 'i', o)
                yield ('bin', REFL[op], a, 'i', o)
                yield ('bin', INPL[op], a, 'i', o)
            yield ('eq', a, 'i', o)
        polys = all_polys if full else sorted(set([0, 1, a, q, q + a] + rng.sample(all_polys, 5)))
        for o in polys:
            for op in BIN_OPS:
                yield ('bin', op, a, 'p', o)
                yield ('bin', REFL[op], a, 'p', o)
                yield ('bin', INPL[op], a, 'p', o)
            yield ('eq', a, 'p', o)
        exps = all_exps if full else sorted(set([0, 1, 2, -1, -2, q - 1, q, 1 - q] + rng.sample(all_exps, 6)))
        for n in exps:
            yield ('sh', 'pow', a, n)
        for n in range(-2, 2 * w.d + 6) if full else (-1, 0, 1, 2, w.d, w.d + 1, 2 * w.d + 3):
            for op in ('lshift', 'ilshift', 'rshift', 'irshift'):
                yield ('sh', op, a, n)


def cases_random(w, rng, n):
    q = w.q

    def rel():
        return rng.choice((0, 1, q - 1, rng.randrange(q), rng.randrange(q), rng.randrange(q)))

    def rint():
        c = rng.randrange(8)
        if c == 0:
            return rng.choice((0, 1, -1, q, -q, w.p, -w.p, 2 * q, q - 1))
        if c == 1:
            return rng.randrange(-2**70, 2**70)
        if c == 2:
            return w.p * rng.randrange(-2**20, 2**20)
        return rng.randrange(-2 * q, 2 * q)

    for _ in range(n):
        a = rel()
        for op in ('neg', 'pos', 'reciprocal', 'bool', 'int', 'hash'):
            yield ('un', op, a)
        b = rel()
        o = rint()
        for op in BIN_OPS:
            yield ('bin', op, a, 'e', b)
            yield ('bin', INPL[op], a, 'e', b)
            yield ('bin', op, a, 'i', o)
            yield ('bin', REFL[op], a, 'i', o)
            yield ('bin', INPL[op], a, 'i', o)
        yield ('eq', a, 'e', b)
        yield ('eq', a, 'e', a)
        yield ('eq', a, 'i', o)
        yield ('eq', a, 'i', a + q * rng.randrange(-3, 4) if w.kind == 'prime' else a)
        if w.kind != 'prime':
            po = rng.randrange(q * w.p * w.p)
            for op in BIN_OPS:
                yield ('bin', op, a, 'p', po)
                yield ('bin', REFL[op], a, 'p', po)
                yield ('bin', INPL[op], a, 'p', po)
            yield ('eq', a, 'p', po)
        e = rng.choice((0, 1, 2, -1, -2, q - 1, q, q - 2, -(q - 1), rng.randrange(-2 * q, 2 * q),
                        rng.randrange(-2**40, 2**40)))
        yield ('sh', 'pow', a, e)
        s = rng.choice((0, 1, 2, 3, 7, 8, 63, 64, rng.randrange(0, 300), -1))
        for op in ('lshift', 'ilshift', 'rshift', 'irshift'):
            yield ('sh', op, a, s)


# -------------------------------------------------------------------------------------------------
# field axioms directly on the real objects (no oracle needed)
# -------------------------------------------------------------------------------------------------
def axiom_failures(w, a, b, c):
    F = w.F
    x, y, z = w.elem(a), w.elem(b), w.elem(c)
    zero, one = F(0), F(1)
    bad = []
    if not (x + y == y + x):
        bad.append('add_comm')
    if not ((x + y) + z == x + (y + z)):
        bad.append('add_assoc')
    if not (x * y == y * x):
        bad.append('mul_comm')
    if not ((x * y) * z == x * (y * z)):
        bad.append('mul_assoc')
    if not (x * (y + z) == x * y + x * z):
        bad.append('distrib')
    if not (x + zero == x and x * one == x and x - x == zero and x + (-x) == zero):
        bad.append('neutral/negation')
    if not (x - y == x + (-y)):
        bad.append('sub_def')
    if a != 0:
        if not (x * (one / x) == one and (y / x) * x == y and x.reciprocal() * x == one):
            bad.append('inverse')
    else:
        for f in (lambda: one / x, lambda: x.reciprocal(), lambda: y / x):
            try:
                f()
                bad.append('zero_has_inverse')
            except ZeroDivisionError:
                pass
    return bad


def fdesc(w):
    return {'p': w.p, 'modulus': w.mod}


def wfield(d):
    return fc.field(d['p'], d['modulus'])


# -------------------------------------------------------------------------------------------------
def eval_cases(ctx, w, cases):
    """real code + oracle for a list of cases of one field; returns (reals, driver lines, indices)"""
    lines, idx, reals = [], [], []
    for k, case in enumerate(cases):
        ctx.case((w.name, case))
        ctx.count(f'{w.kind}:{case[0]}:{case[1] if case[0] != "eq" else case[2]}')
        r = real_eval(w, case)
        reals.append(r)
        ln = line_of(w, case)
        if ln is not None:
            lines.append(ln)
            idx.append(k)
        exp = oracle_eval(w, case)
        if exp is not None and exp != r:
            rep = {'kind': 'operator', 'field': fdesc(w), 'case': list(case), 'expected': exp, 'observed': r}
            if is_known_shift(w, case):
                rep['finding_key'] = SHIFT_KEY
            ctx.violation(f'{w.name} {case}: real code gives {r}, field arithmetic gives {exp}', rep)
    if cases:
        ctx.sample({'field': w.name, 'case': list(cases[len(cases) // 2]), 'real': reals[len(cases) // 2]})
    return reals, lines, idx


def check_axioms(ctx, w, triples):
    n = 0
    for a, b, c in triples:
        n += 1
        ctx.case((w.name, 'axioms', a, b, c))
        bad = axiom_failures(w, a, b, c)
        if bad:
            ctx.violation(f'{w.name}: field axiom(s) {bad} fail for elements {a},{b},{c}',
                          {'kind': 'axiom', 'field': fdesc(w), 'a': a, 'b': b, 'c': c, 'failed': bad})
    ctx.count(f'{w.kind}:axiom-triples', n)


def run(ctx):
    rng = ctx.rng
    jobs = []          # (what, w, cases, reals, lines, idx)
    for w in fc.small_fields():
        cases = list(cases_exhaustive(w, rng, full=ctx.thorough))
        jobs.append((f'operators {w.name} (exhaustive)', w, cases) + eval_cases(ctx, w, cases))
        q = w.q
        check_axioms(ctx, w, ((a, b, c) for a in range(q) for b in range(q) for c in range(q)))
    n = ctx.scale(40, 1500)
    for w in fc.big_fields():
        cases = list(cases_random(w, rng, n))
        jobs.append((f'operators {w.name} (random)', w, cases) + eval_cases(ctx, w, cases))
        check_axioms(ctx, w, (tuple(rng.choice((0, 1, w.q - 1, rng.randrange(w.q))) for _ in range(3))
                              for _ in range(ctx.scale(150, 5000))))
    # the 1-place cache of _reciprocal2: interleave shift amounts and fields
    ws = [fc.field(7), fc.field(11), fc.field(fc.P64)]
    seq = []
    for _ in range(ctx.scale(300, 3000)):
        w = rng.choice(ws)
        seq.append((w, ('sh', rng.choice(('rshift', 'irshift')), rng.randrange(w.q), rng.choice((0, 1, 2, 5, 64)))))
    seq_reals = [real_eval(w, c) for w, c in seq]
    for k, ((w, c), r) in enumerate(zip(seq, seq_reals)):
        ctx.case((w.name, 'cache', c))
        exp = oracle_eval(w, c)
        if exp != r:
            ctx.violation(f'{w.name} {c} after interleaved shifts: real code gives {r}, expected {exp}',
                          {'kind': 'operator-sequence', 'field': fdesc(w), 'case': list(c), 'expected': exp,
                           'observed': r, 'sequence': [[fdesc(x), list(y)] for x, y in seq[max(0, k - 5):k + 1]]})
            break
    # ONE driver invocation for everything
    all_lines = [ln for j in jobs for ln in j[4]] + [line_of(w, c) for w, c in seq]
    out = common.LeanDriver('FinFld').run(all_lines)
    if isinstance(out, common.DriverFailure):
        ctx.compare('operators (all fields)', [], out)
        return
    pos = 0
    for what, w, cases, reals, lines, idx in jobs:
        o = out[pos:pos + len(lines)]
        pos += len(lines)
        model = [canon_model(cases[idx[j]], o[j]) for j in range(len(o))]
        ctx.compare(what, [reals[k] for k in idx], model, [[w.name, list(cases[k])] for k in idx])
    ctx.compare('rshift with interleaved fields/amounts (_reciprocal2 cache)', seq_reals, out[pos:],
                [[w.name, list(c)] for w, c in seq])


def search(ctx):
    """bigger random search on the real code (called when a proof or the correspondence broke)"""
    rng = ctx.subrng('search')
    fields = fc.small_fields() + fc.big_fields() + [fc.field(p) for p in (13, 17, 101, 257, 65537)]
    for w in fields:
        for case in cases_random(w, rng, 400):
            ctx.case((w.name, case))
            r = real_eval(w, case)
            exp = oracle_eval(w, case)
            if exp is not None and exp != r and not is_known_shift(w, case):
                ctx.violation(f'{w.name} {case}: real code gives {r}, field arithmetic gives {exp}',
                              {'kind': 'operator', 'field': fdesc(w), 'case': list(case), 'expected': exp,
                               'observed': r})
                return
        for _ in range(300):
            a, b, c = (rng.randrange(w.q) for _ in range(3))
            bad = axiom_failures(w, a, b, c)
            if bad:
                ctx.violation(f'{w.name}: field axiom(s) {bad} fail for elements {a},{b},{c}',
                              {'kind': 'axiom', 'field': fdesc(w), 'a': a, 'b': b, 'c': c, 'failed': bad})
                return


def replay(ctx, data):
    w = wfield(data['field'])
    if data.get('kind') == 'axiom':
        bad = axiom_failures(w, int(data['a']), int(data['b']), int(data['c']))
        return (not bad, f'{w.name} axioms at {data["a"]},{data["b"]},{data["c"]}: failed={bad}')
    case = tuple(int(x) if isinstance(x, str) and x.lstrip('-').isdigit() else x for x in data['case'])
    r = real_eval(w, case)
    exp = oracle_eval(w, case)
    return (exp is None or r == exp, f'{w.name} {case}: real={r} expected={exp}')
