"""C38 — secure polynomial arithmetic (mpyc.secpols) agrees with plain polynomial arithmetic (mpyc.gfpx).

Level: translation_validation.  Lean part (MpycV.C38): slack invariance, agreement of the padded value
model (lean/MpycV/Model/SecPol.lean) with the GFpX model of C23, public result lengths.

Tie / oracle, every run: secure polynomials with RANDOM SLACK (trailing zero coefficients) over GF(p),
p in {11, 101, 2^31-1}, run in harness/simnet.py with m in {1,3}, PRSS on and off;
  * opened results (mpc.output of a secpoly = stripped gfpx polynomial) vs the gfpx operation on the plain
    polynomials, for + - * neg pos << >> truncate getitem degree monic reverse // % divmod gcd gcdext
    invert powmod ** evaluation (public and secret point) < <= > >= == != is_irreducible if_else if_swap
    input/output, mixed secure/public operands;
  * opened PADDED coefficient arrays and public lengths vs the Lean driver (SecPol model);
  * slack independence on the real code: the same operation on the same polynomials with different slack
    opens the same result.
"""
import math
import os
import random
import sys
import traceback
import multiprocessing as mp

sys.path.insert(0, os.path.dirname(os.path.dirname(os.path.abspath(__file__))))
import common  # noqa: E402

LEVEL = 'translation_validation'
LEAN_MODULES = ['MpycV.Props.C38']
LEAN_NAMESPACES = ['MpycV.C38']
REQUIRED_THEOREMS = ['slack_invariance', 'ring_ops_agree_gfpx', 'eval_degree_eq_agree_gfpx', 'denotation',
                     'public_lengths', 'closed_under_ops']
RULE = ('case = (p in {11,101,2^31-1}, config in {m=1; m=3 PRSS; m=3 no-PRSS}, operation group, seed -> two or three '
        'polynomials of degree < len <= 8 (<= 4 for p = 11 so that all degree bounds stay below p) with random slack 0..3, '
        'including zero / constant / monic / equal / divisible / coprime pairs); every group is run under every (p, config); '
        'distinct = distinct (group, p, config, coefficient lists); non-trivial = some operand has degree >= 1')
EXPLANATION = ('gfpx is the oracle for the multi-party protocols (division by random self-reduction, divsteps GCD, comparisons '
               'via secure integers): validated differentially on every run. Proved (Lean): slack_invariance and agreement '
               'with the GFpX model for + - * neg << >> evaluation degree ==, public result lengths; the padded arrays opened '
               'from the real code are compared with the Lean model entry by entry.')
ASSUMPTIONS = ['mpyc.gfpx (property C23) is the reference for polynomial arithmetic over GF(p)',
               'p exceeds every public degree bound that occurs (secpols docstring); cases are generated accordingly']
TRUSTED = ['harness/simnet.py in-process m-party simulator']

PRIMES = [11, 101, 2**31 - 1]
CONFIGS = [(1, False), (3, False), (3, True)]
GROUPS = ['ring', 'shift', 'degree', 'divmod', 'gcd', 'invpow', 'cmp', 'eval', 'select', 'irreducible']


def _imports():
    import simnet  # noqa
    import numpy as np
    from mpyc import gfpx, secpols
    return simnet, np, gfpx, secpols


def rpoly(rng, p, maxlen, kind=None):
    """coefficient list WITHOUT slack (last entry nonzero or empty)"""
    kind = kind or rng.choice(['rand', 'rand', 'rand', 'zero', 'const', 'monic', 'sparse'])
    if kind == 'zero' or maxlen == 0:
        return []
    n = rng.randint(1, maxlen)
    if kind == 'const':
        return [rng.randrange(1, p)]
    c = [rng.choice([0, 1, p - 1]) if rng.random() < 0.25 else rng.randrange(p) for _ in range(n)]
    if kind == 'sparse':
        c = [x if rng.random() < 0.4 else 0 for x in c]
    c[-1] = 1 if kind == 'monic' else rng.randrange(1, p)
    return c


def plist(poly, x):
    return [int(c) for c in poly._to_list(x)]


def ints(l):
    return ','.join(str(int(x)) for x in l) if len(l) else '-'


def run_case(case):
    simnet, np, gfpx, secpols = _imports()
    from simnet import SimNet, Scheduler, Deadlock, PartyError
    secpoly = secpols.secpoly
    p, m, no_prss, group = case['p'], case['m'], case['no_prss'], case['group']
    rng = random.Random(case['seed'])
    poly = gfpx.GFpX(p)
    maxlen = 4 if p == 11 else 8
    if group == 'irreducible':
        maxlen = 3 if p > 11 else 4   # D//2 modular powers X^(p^i) mod a: 31 squarings + secure divisions each for p = 2^31-1
    res = {'case': case, 'status': 'ok', 'lean': [], 'ops': [], 'tags': []}

    # ---- inputs ---------------------------------------------------------------------------------
    A = rpoly(rng, p, maxlen)
    B = rpoly(rng, p, maxlen)
    r = rng.random()
    if group in ('divmod', 'invpow') or r < 0.15:
        while not B:
            B = rpoly(rng, p, maxlen)
    if group == 'gcd' and rng.random() < 0.5:      # common factor
        C = rpoly(rng, p, 3, 'rand')
        A = plist(poly, (poly(A) * poly(C)))[:maxlen]
        B = plist(poly, (poly(B) * poly(C)))[:maxlen]
        A, B = plist(poly, poly(A)), plist(poly, poly(B))
    if group == 'cmp' and rng.random() < 0.3:
        B = list(A)
        if B and rng.random() < 0.5:
            B[rng.randrange(len(B))] = rng.randrange(p)
            B = plist(poly, poly(B))
    if group == 'invpow':
        for _ in range(50):
            if len(B) >= 2 and poly.gcd(poly(A), poly(B)) == 1:
                break
            A, B = rpoly(rng, p, maxlen, 'rand'), rpoly(rng, p, maxlen, 'rand')
        else:
            A, B = [1], [1, 1]
    slA, slB = rng.randint(0, 3), rng.randint(0, 3)
    if p == 11:
        slA, slB = min(slA, 5 - len(A)), min(slB, 5 - len(B))
    if group == 'irreducible':   # keep (len-1)//2 < deg a (finding secpoly_is_irreducible_slack)
        while not A:             # zero polynomial of length >= 2: AssertionError in _div (division by the zero polynomial), see report
            A = rpoly(rng, p, maxlen)
        if len(A) == 1:
            slA = min(slA, 1)
        slA = max(0, min(slA, len(A) - 2)) if len(A) >= 2 else slA
    if group != 'irreducible' and rng.random() < 0.4:   # equal public lengths: the fast paths of _add/_sub/_if_else/_if_swap
        n = max(len(A) + slA, len(B) + slB)
        slA, slB = n - len(A), n - len(B)
    PA, PB = A + [0] * slA, B + [0] * slB        # padded
    if 'PA' in case:     # explicit inputs (replays are independent of the generator)
        PA, PB = [int(x) for x in case['PA']], [int(x) for x in case['PB']]
        A, B = plist(poly, poly(list(PA))), plist(poly, poly(list(PB)))   # NB gfpx strips the list it is given IN PLACE
    a, b = poly(A), poly(B)
    n1, n2 = rng.randint(0, 4), rng.randint(0, 4)
    x0 = rng.randrange(p)
    xs = rng.randrange(p)
    e0 = int(case['e0']) if 'e0' in case else rng.choice([0, 1, 2, 3, 5, -1, -2])
    # every random choice is drawn HERE (plan() runs once per party and must not consume randomness)
    d_rev = rng.randint(-1, len(PA) + 2)
    ds_rev = rng.randint(-1, len(PA) - 1) if len(PA) >= 1 else None
    k_pow = rng.choice([0, 1, 2, 3]) if len(PA) * 3 <= 20 else 1
    c_sel = rng.randint(0, 1)
    res['key'] = (group, p, tuple(PA), tuple(PB))
    res['nontrivial'] = len(A) >= 2 or len(B) >= 2
    res['program'] = f'group {group} over GF({p}): a = {PA}, b = {PB}'
    checks = []     # (name, secure object(s), expected plain, kind)

    def plan(mpc):
        S = mpc.SecFld(p)
        f = secpoly(np.array(PA, dtype=object), sectype=S)
        g = secpoly(np.array(PB, dtype=object), sectype=S)
        f, g = mpc.input(f, senders=0), mpc.input(g, senders=0)
        out = []

        def add(name, obj, exp, pad=None):
            out.append((name, obj, exp, pad))
        if group == 'ring':
            add('a+b', f + g, a + b, ('padd', PA, PB))
            add('a-b', f - g, a - b, ('psub', PA, PB))
            add('a*b', f * g, a * b, ('pmul', PA, PB))
            add('-a', -f, -a, ('pneg', PA))
            add('+a', +f, +a)
            add('a+pub(b)', f + b, a + b)
            add('pub(a)-b', a - g, a - b)
            add('a*pub(b)', f * b, a * b)
            add('copy', f.copy(), a)
            add('add()', secpoly.add(f, g), a + b)
            add('sub()', secpoly.sub(g, f), b - a)
            add('mul()', secpoly.mul(f, g), a * b)
            add('output(a)', f, a)
        elif group == 'shift':
            add('a<<n', f << n1, a << n1, ('plsh', PA, n1))
            add('a>>n', f >> n2, a >> n2, ('prsh', PA, n2))
            add('truncate', f.truncate(n2), a.truncate(n2), ('ptrunc', PA, n2))
            add('a[i]', f[n1], a[n1], ('pget', PA, n1))
            add('a[big]', f[len(PA) + 2], a[len(PA) + 2])
            add('(a<<n)>>n', (f << n1) >> n1, a)
        elif group == 'degree':
            add('degree', f.degree(), a.degree(), ('pdeg', PA))
            add('monic', f.monic(), a.monic())
            if len(PA) + len(PB) <= p:
                add('degree(a*b)', (f * g).degree(), (a * b).degree())
            add('reverse()', f.reverse(), a.reverse())
            d = d_rev
            add(f'reverse({d})', f.reverse(d), a.reverse(d))
            if len(PA) >= 1:
                ds = ds_rev
                if ds >= 0:
                    add(f'reverse(secret {ds})', f.reverse(S(ds)), a.reverse(ds))
                else:
                    add('reverse(secint -1)', f.reverse(mpc.SecInt()(-1)), a.reverse(-1))
        elif group == 'divmod':
            q, rr = divmod(a, b)
            add('a//b', f // g, q)
            add('a%b', f % g, rr)
            dm = divmod(f, g)
            add('divmod.q', dm[0], q)
            add('divmod.r', dm[1], rr)
            add('pub(a)//b', a // g, q)
            add('a%pub(b)', f % b, rr)
            add('mod()', secpoly.mod(f, g), rr)
            add('b%b', g % g, poly(0))
            add('lens', None, None, ('plens', len(PA), len(PB), len((f // g).share), len((f % g).share), len((f + g).share), len((f * g).share)))
        elif group == 'gcd':
            add('gcd', secpoly.gcd(f, g), poly.gcd(a, b))
            if not A and not B:   # also for length 0: AssertionError (division by the zero polynomial)
                return S, out      # gcdext(0, 0) with positive length never terminates: open finding secpoly_gcdext_zero_hang
            ge = secpoly.gcdext(f, g)
            ee = poly.gcdext(a, b)
            add('gcdext.d', ge[0], ee[0])
            add('gcdext.bezout', ge[1] * f + ge[2] * g, ee[0])
            if ee[0] == 1:   # cofactors are only unique (and equal to gfpx's) for coprime inputs: finding secpoly_gcdext_cofactors_differ
                add('gcdext.s', ge[1], ee[1])
                add('gcdext.t', ge[2], ee[2])
        elif group == 'invpow':
            add('invert', secpoly.invert(f, g), poly.invert(a, b))
            add(f'powmod({e0})', secpoly.powmod(f, e0, g), poly.powmod(a, e0, b))
            k = k_pow
            add(f'a**{k}', f ** k, a ** k)
        elif group == 'cmp':
            add('a<b', f < g, int(a < b), ('plt', PA, PB))
            add('a<=b', f <= g, int(a <= b))
            add('a>b', f > g, int(a > b))
            add('a>=b', f >= g, int(a >= b))
            add('a==b', f == g, int(a == b), ('peq', PA, PB))
            add('a!=b', f != g, int(a != b))
            add('a==a+0', f == f + (g - g), 1)
            add('a<pub(b)', f < b, int(a < b))
        elif group == 'eval':
            add('a(x)', f(x0), a(x0), ('peval', PA, x0))
            add('a(secret x)', f(S(xs)), a(xs))
            add('a(-2)', f(-2), a(-2), ('peval', PA, -2))
            add('b(x)', g(x0), b(x0), ('peval', PB, x0))
        elif group == 'select':
            c = c_sel
            add(f'if_else({c})', secpoly.if_else(S(c), f, g), a if c else b)
            sw = secpoly.if_swap(S(c), f, g)
            add(f'if_swap({c})[0]', sw[0], b if c else a)
            add(f'if_swap({c})[1]', sw[1], a if c else b)
            add('if_else(True)', secpoly.if_else(True, f, g), a)
        elif group == 'irreducible':
            add('is_irreducible(a)', secpoly.is_irreducible(f), int(poly.is_irreducible(a)))
        return S, [o for o in out if o is not None]

    box = {}

    async def prog(mpc):
        try:
            S, items = plan(mpc)
        except Exception as exc:
            if mpc.pid == 0:
                box['exc'] = type(exc).__name__ + ': ' + str(exc)[:300] + ' @ ' + traceback.format_exc()[-400:]
            return None
        vals = []
        for name, obj, exp, pad in items:
            if obj is None:
                vals.append((name, None, None))
                continue
            v = await mpc.output(obj)
            padded = None
            if isinstance(obj, secpoly):
                padded = await mpc.output(obj.share)
                padded = [int(x) for x in padded.value.tolist()]
            vals.append((name, v, padded))
        return items, vals

    sched = None
    smode = rng.choice(['random', 'lazynet', 'eagernet']) if (m > 1 and rng.random() < 0.2) else None
    smode = case.get('sched', smode)
    if smode:
        sched = Scheduler(case['seed'], smode)
    res['PA'], res['PB'], res['sched'] = PA, PB, smode
    try:
        outs = SimNet(m, None, no_prss=no_prss, seed=case['seed'] & 0xffff, sched=sched, max_steps=5_000_000).run(prog)
    except Deadlock as exc:
        return fail(res, 'deadlock', f'run does not terminate: {str(exc)[:300]}')
    except PartyError as exc:
        return fail(res, 'crash', f'a party raised: {str(exc)[:700]}')
    if 'exc' in box:
        return fail(res, 'exception', f"raised {box['exc']}")
    items, vals = outs[0]
    for i in range(1, m):
        if repr(outs[i][1]) != repr(vals):
            return fail(res, 'party-disagreement', f'party {i} opened different values')
    for (name, obj, exp, pad), (_, v, padded) in zip(items, vals):
        res['ops'].append(name.split('(')[0] if name[0] not in 'ab(+-' else name)
        if obj is not None:
            if isinstance(exp, int) and not isinstance(exp, bool):
                ok = int(v) == exp % p if not isinstance(v, gfpx.Polynomial) else v == exp
            else:
                ok = v == exp
            if not ok:
                return fail(res, 'gfpx', f'{name}: opened {v!r}, gfpx gives {exp!r}', expected=repr(exp), observed=repr(v), op=name)
        if pad is not None:
            opn = pad[0]
            if opn == 'plens':
                _, la, lb, lq, lr, ladd, lmul = pad
                res['lean'].append((f'plens {la} {lb}', ints([ladd, lmul, lq, lr])))
            elif opn in ('padd', 'psub', 'pmul'):
                res['lean'].append((f'{opn} {p} {ints(pad[1])} {ints(pad[2])}', ints(padded)))
            elif opn == 'pneg':
                res['lean'].append((f'pneg {p} {ints(pad[1])}', ints(padded)))
            elif opn in ('plsh', 'prsh', 'ptrunc'):
                res['lean'].append((f'{opn} {ints(pad[1])} {pad[2]}', ints(padded)))
            elif opn == 'pget':
                res['lean'].append((f'pget {ints(pad[1])} {pad[2]}', str(int(v))))
            elif opn == 'pdeg':
                dv = int(v)
                res['lean'].append((f'pdeg {ints(pad[1])}', str(dv - p if dv > p // 2 else dv)))
            elif opn == 'peval':
                res['lean'].append((f'peval {p} {ints(pad[1])} {pad[2]}', str(int(v))))
            elif opn in ('plt', 'peq'):
                res['lean'].append((f'{opn} {p} {ints(pad[1])} {ints(pad[2])}', str(int(v))))
    res['sample'] = {'program': res['program'], 'results': [(n, repr(v)[:60]) for n, v, _ in vals[:6]]}
    res['tags'] = [f'slack:{slA}+{slB}', 'equal-lengths' if len(PA) == len(PB) else 'different-lengths']
    return res


def fail(res, failure, detail, expected=None, observed=None, op=None):
    res['status'] = 'violation'
    res['failure'] = failure
    res['detail'] = f"{res.get('program')}: {detail}"
    res['expected'] = expected
    res['observed'] = observed
    res['op'] = op
    return res


def _worker(case):
    import gc
    try:
        if case.get('directed'):
            return run_directed(case)
        return run_case(case)
    except BaseException as exc:  # noqa
        return {'case': case, 'status': 'infra', 'detail': traceback.format_exc()[-1800:], 'lean': [], 'ops': []}
    finally:
        gc.collect()   # coroutines of an aborted run are finalised NOW (their `finally` blocks touch the runtime proxy), not during the next case


DIRECTED = {
    'getitem_beyond': (None, 11),                    # fixed in 8389ac8, kept as regression input
    'gcdext_noncoprime': ('secpoly_gcdext_cofactors_differ', 11),
    'eval_public_overflow': (None, 2**31 - 1),       # fixed in 8389ac8, kept as regression input
    'irreducible_slack': ('secpoly_is_irreducible_slack', 11),
    'zero_monic': (None, 11),                        # fixed, kept as regression input
    'zero_gcdext': ('secpoly_gcdext_zero_hang', 11),
    'zero_irreducible': ('secpoly_is_irreducible_zero_crash', 11),
}


def run_directed(case):
    """one fixed input per open finding (regression test once fixed)"""
    simnet, np, gfpx, secpols = _imports()
    from simnet import SimNet, Deadlock, PartyError
    secpoly = secpols.secpoly
    name = case['directed']
    key, p = DIRECTED[name]
    poly = gfpx.GFpX(p)
    res = {'case': case, 'status': 'ok', 'lean': [], 'ops': ['directed:' + name], 'tags': [], 'key': ('directed', name),
           'nontrivial': True}

    def body(mpc):
        S = mpc.SecFld(p)
        if name == 'getitem_beyond':
            return secpoly(np.array([1, 2]), sectype=S)[5], 0, 'secpoly([1,2])[5] over GF(11)'
        if name == 'gcdext_noncoprime':
            a, b = poly([2, 3, 1]), poly([3, 3, 1, 1])
            return list(secpoly.gcdext(secpoly(a, sectype=S), secpoly(b, sectype=S))), list(poly.gcdext(a, b)), \
                'secpoly.gcdext(x^2+3x+2, x^3+x^2+3x+3) over GF(11)'
        if name == 'eval_public_overflow':
            c = poly([1, 2, 3, 4, 5])
            return secpoly(c, sectype=S)(2000000000), c(2000000000), 'secpoly(1+2x+3x^2+4x^3+5x^4)(2000000000) over GF(2^31-1)'
        if name == 'zero_monic':
            z = secpoly(np.array([0, 0]), sectype=S)
            return [z.monic(), secpoly.gcd(z, z)], [poly(0), poly(0)], 'secpoly([0,0]).monic(), gcd(z,z) over GF(11)'
        if name == 'zero_gcdext':
            z = secpoly(np.array([0, 0]), sectype=S)
            return list(secpoly.gcdext(z, z)), list(poly.gcdext(poly(0), poly(0))), 'secpoly.gcdext(z, z), z = secpoly([0,0]) over GF(11)'
        if name == 'zero_irreducible':
            return secpoly.is_irreducible(secpoly(np.array([0, 0, 0]), sectype=S)), 0, 'secpoly.is_irreducible(secpoly([0,0,0])) over GF(11)'
        return secpoly.is_irreducible(secpoly(np.array([1, 0, 1, 0, 0]), sectype=S)), 1, \
            'secpoly.is_irreducible(secpoly([1,0,1,0,0])) over GF(11)  (x^2+1 with two slack zeros)'
    box = {}

    async def prog(mpc):
        obj, exp, desc = body(mpc)
        box['exp'], box['desc'] = exp, desc
        return await mpc.output(obj)
    res['program'] = name
    try:
        out = SimNet(case['m'], None, no_prss=case['no_prss'], seed=case['seed'] & 0xffff, max_steps=300_000).run(prog)[0]
    except (Deadlock, PartyError) as exc:
        r = fail(res, 'crash', f"{box.get('desc', name)}: {str(exc)[:400]}")
        if key:
            r['finding_key'] = key
        return r
    exp = box['exp']
    ok = (int(out) == exp % p) if isinstance(exp, int) else (out == exp if isinstance(exp, gfpx.Polynomial) else list(out) == exp)
    if not ok:
        r = fail(res, 'gfpx', f"{box['desc']}: opened {out!r}, gfpx gives {exp!r}", expected=repr(exp), observed=repr(out))
        if key:
            r['finding_key'] = key
        return r
    return res


def make_cases(ctx, extra):
    rng = ctx.rng
    cases = []
    for group in GROUPS:
        for p in PRIMES:
            for (m, np_) in CONFIGS:
                if group == 'irreducible' and p > 101 and m > 1 and not ctx.thorough:
                    continue   # 31 secure modular squarings per test: thorough tier only
                for _ in range(ctx.scale(1, 3)):
                    cases.append({'group': group, 'p': p, 'm': m, 'no_prss': np_, 'seed': rng.randrange(1 << 30)})
    for name in sorted(DIRECTED):
        cases.append({'directed': name, 'group': 'directed', 'p': DIRECTED[name][1], 'm': 3, 'no_prss': False, 'seed': 1})
    # length bounds are not degrees: a SHORT dividend (no slack) of degree >= the true degree of a modulus with secret leading
    # zeros (long length bound) must still be reduced by mod / powmod / % / divmod
    for p, PA, PB, e0 in ((101, [1, 2, 3], [2, 1, 0, 0], 2), (101, [1, 1], [2, 1, 0, 0, 0, 0], 3), (31, [5, 0, 1], [7, 1, 0, 0], 2),
                          (2**31 - 1, [3, 4, 5, 6], [9, 1, 1, 0, 0, 0], 4), (101, [1, 1], [2, 1, 0, 0, 0, 0], 2)):
        for group in ('divmod', 'invpow'):
            for (m, np_) in ((1, False), (3, False)):
                cases.append({'group': group, 'p': p, 'm': m, 'no_prss': np_, 'seed': rng.randrange(1 << 30),
                              'PA': PA, 'PB': PB, 'e0': e0})
    # both operands divisible by x (zero constant terms): the gcd family first strips the common power x^e with a SECRET roll
    for p, PA, PB in ((31, [0, 2], [0, 4]), (31, [0, 0, 1, 0], [0, 0, 0, 1]), (101, [0, 3, 3, 0], [0, 1, 2, 1]), (11, [0, 0, 5], [0, 7, 0]),
                      (31, [0, 1, 1, 0, 0], [0, 0, 2, 2, 0])):
        for (m, np_) in ((1, False), (3, False)):
            cases.append({'group': 'gcd', 'p': p, 'm': m, 'no_prss': np_, 'seed': rng.randrange(1 << 30), 'PA': PA, 'PB': PB})
    # zero polynomials with length bound 0 (what secpoly(poly(0)) and every coerced public 0 give): comparisons among them and
    # with padded zeros (repo fixes aa19fb2, a91215f: IndexError in _lt and in np_all of an empty array)
    for PA, PB in (([], []), ([], [0]), ([0, 0], []), ([], [3, 1])):
        for (m, np_) in ((1, False), (3, True)):
            cases.append({'group': 'cmp', 'p': 11, 'm': m, 'no_prss': np_, 'seed': rng.randrange(1 << 30), 'PA': PA, 'PB': PB})
    for _ in range(extra):
        m, np_ = rng.choice(CONFIGS + [(3, False), (3, True)])
        g, p = rng.choice(GROUPS), rng.choice(PRIMES)
        if g == 'irreducible' and p > 101:
            p = rng.choice([11, 101])
        cases.append({'group': g, 'p': p, 'm': m, 'no_prss': np_, 'seed': rng.randrange(1 << 30)})
    return cases


def run_driver(lines):
    """the lean build directory is shared with concurrently building workers: retry when an .olean is missing"""
    import time
    for attempt in range(4):
        out = common.LeanDriver('Arrays').run(lines)
        if not isinstance(out, common.DriverFailure) or 'does not exist' not in ' '.join(out[-3:]):
            return out
        time.sleep(20)
        common.lean_build(LEAN_MODULES)
    return out


def run_cases(ctx, cases):
    nproc = min(16, os.cpu_count() or 4)
    _imports()      # import once in the parent: forked workers inherit the modules
    with mp.get_context('fork').Pool(nproc, maxtasksperchild=1) as pool:
        results = pool.map(_worker, sorted(cases, key=lambda c: (c['group'] not in ('irreducible', 'invpow', 'gcd'), -c['p'])), chunksize=1)
    lean_req, lean_impl, meta = [], [], []
    for res in results:
        case = res['case']
        cfg = f"m{case['m']}{'-noprss' if case['no_prss'] else ''}"
        ctx.count('group:' + case['group'])
        ctx.count(f"p:{case['p']}")
        ctx.count('config:' + cfg)
        ctx.count(f"group-config:{case['group']}:{cfg}")
        for o in res.get('ops', []):
            ctx.count('op:' + o)
        for t in res.get('tags', []):
            ctx.count(t)
        ctx.case(res.get('key', (case['group'], case['seed'])), nontrivial=res.get('nontrivial', True))
        if res['status'] == 'infra':
            raise common.InfraError(f"worker failed on {case}: {res['detail']}")
        if res['status'] == 'violation':
            rep = dict(case)
            rep.update({'PA': res.get('PA'), 'PB': res.get('PB'), 'sched': res.get('sched')})
            rep.update({'kind_of_failure': res['failure'], 'detail': res['detail'], 'program': res.get('program'),
                        'expected': res.get('expected'), 'observed': res.get('observed'), 'operation': res.get('op')})
            if res.get('finding_key'):
                rep['finding_key'] = res['finding_key']
            ctx.violation(f"secpoly [{case['group']}, p={case['p']}, {cfg}]: {res['detail'][:300]}", rep)
        elif res.get('sample'):
            ctx.sample({'case': case, 'sample': res['sample']})
        for req, impl in res.get('lean', []):
            lean_req.append(req)
            lean_impl.append(impl)
            meta.append(case)
    if lean_req:
        model = run_driver(lean_req)
        ctx.compare('padded coefficient arrays / public lengths (secpols.py vs MpycV.SecPol)', lean_impl, model,
                    [{'request': r, 'case': c} for r, c in zip(lean_req, meta)])


def run(ctx):
    run_cases(ctx, make_cases(ctx, ctx.scale(30, 1500)))


def search(ctx):
    c2 = common.Ctx(ctx.property_id, ctx.tier, ctx.seed + 7919)
    cases = make_cases(c2, ctx.scale(1500, 8000))
    run_cases(ctx, cases)


def replay(ctx, data):
    case = {k: data[k] for k in ('group', 'p', 'm', 'no_prss', 'seed', 'directed', 'PA', 'PB', 'sched') if k in data and data[k] is not None}
    res = _worker(case)
    if res['status'] == 'ok':
        return True, 'ok'
    return False, f"{res.get('failure')}: {res.get('detail', '')[:500]}"
