"""C39 — secure type and party configuration parameters are valid.

Model: lean/MpycV/Model/SecFldCfg.lean (SecFld argument resolution, _SecFld lifting, _pfield,
setup()'s threshold default/assert).  Theorems: MpycV.C39.
Tie: real `sectypes.SecFld/SecInt/SecFxp` called inside real runtimes with m parties and threshold t
(simulator objects), real `runtime.setup()` with -M/-T, vs the Lean driver; float expressions
`math.ceil(math.log(..))` are passed to the model as oracle values computed by the harness and are
checked exhaustively against the integer ceil-log.  Oracle (independent): constraints read off the
property statement (requested order / characteristic / degree / minimum order honoured, result is a
genuine field — prime characteristic, irreducible modulus by an own brute-force test —, satisfiable
requests on the clean domain succeed, unsatisfiable ones raise), lifting (order > m, same
characteristic, outputs map back to the base field, checked by real multi-party runs), threshold
(2t < m, default maximal), every secure type's field larger than m when t > 0.
"""
import asyncio
import math
import os
import sys

sys.path.insert(0, os.path.dirname(os.path.dirname(os.path.abspath(__file__))))
import simnet  # noqa: E402
from simnet import SimNet  # noqa: E402
from mpyc import sectypes, gfpx, finfields  # noqa: E402
import mpyc.runtime as rtmod  # noqa: E402
import common  # noqa: E402

LEVEL = 'proof'
LEAN_MODULES = ['MpycV.Props.C39']
LEAN_NAMESPACES = ['MpycV.C39']
REQUIRED_THEOREMS = ['secfld_order', 'secfld_rejects_inconsistent', 'secfld_least_prime', 'lift_spec',
                     'lift_output_roundtrip', 'threshold_valid', 'field_exceeds_parties', 'pfield_spec',
                     'isPrime_iff', 'factorPrimePower_spec']
RULE = ('SecFld case = (m, t, order, modulus, char, ext_deg, min_order): structured sub-grids (each argument alone, all pairs, '
        'order x modulus, modulus kinds int / term string / Polynomial object, falsy values 0, composite chars, constant and '
        'reducible moduli) plus random combinations; order <= 300, char <= 13 (+ 0,1,4,9), ext_deg <= 6, min_order <= 2000, '
        'm <= 9 with every t (2t < m). distinct = distinct argument tuples; non-trivial = at least two arguments given or '
        'lifting active (t > 0 and q <= m). Threshold: all (m <= 40, t in -2..m+1 and default). _pfield: SecInt/SecFxp/SecFlt with '
        'small l, f, sec_param, given primes (too small, composite, fine) for all (m, t).')
EXPLANATION = ('float math.log/math.ceil are not modelled: passed as oracle values, and compared with the exact integer ceil-log '
               'exhaustively (m <= 512 resp. 4096, all q <= m; all boundary cases q^k-1, q^k, q^k+1 <= 65537 for prime q)')
ASSUMPTIONS = ['gmpy stubs (is_prime, next_prime, iroot, factor_prime_power) compute their mathematical definitions (C25); '
               're-checked here on every argument used',
               'gfpx is_irreducible / next_irreducible are oracle parameters of the theorems (C24); the tie compares them with '
               'a brute-force search in the model, the oracle with an independent brute-force test',
               'math.ceil(math.log(x, b)) >= exact ceil(log_b x) on the domain used (checked exhaustively as described)',
               'arguments are non-negative ints; find_prime_root is an oracle parameter (C26)']
TRUSTED = ['harness/simnet.py (real Runtime objects for m parties)']

PRIMES = [2, 3, 5, 7, 11, 13]


# ---------------------------------------------------------------------------------------------
# independent helpers (definitions, not the repo's algorithms)
# ---------------------------------------------------------------------------------------------
def is_prime(n):
    if n < 2:
        return False
    for p in (2, 3, 5, 7, 11, 13, 17, 19, 23, 29, 31, 37):
        if n % p == 0:
            return n == p
    d, s = n - 1, 0
    while d % 2 == 0:
        d //= 2
        s += 1
    for a in (2, 3, 5, 7, 11, 13, 17, 19, 23, 29, 31, 37):  # deterministic below 3.3e24
        x = pow(a, d, n)
        if x in (1, n - 1):
            continue
        for _ in range(s - 1):
            x = x * x % n
            if x == n - 1:
                break
        else:
            return False
    return True


def prime_power(x):
    """(p, d) with x == p**d, p prime, d >= 1, or None."""
    if x < 2:
        return None
    p = next(k for k in range(2, x + 1) if x % k == 0)
    d, y = 0, x
    while y % p == 0:
        y //= p
        d += 1
    return (p, d) if y == 1 else None


def clog(b, x):
    e = 0
    while b ** e < x:
        e += 1
    return e


def digits(p, n):
    out = []
    while n:
        out.append(n % p)
        n //= p
    return out


def poly_rem(p, f, g):
    """f mod g over GF(p), lists low->high, g monic."""
    f = f[:]
    while len(f) >= len(g):
        c = f[-1]
        if c:
            off = len(f) - len(g)
            for i, gi in enumerate(g):
                f[off + i] = (f[off + i] - c * gi) % p
        f.pop()
    while f and f[-1] == 0:
        f.pop()
    return f


def poly_irreducible(p, f):
    d = len(f) - 1
    if d < 1:
        return False
    for k in range(1, d // 2 + 1):
        for j in range(p ** k):
            g = digits(p, j) + [0] * k
            g = g[:k] + [1]
            if not poly_rem(p, f, g):
                return False
    return True


def terms(cs):
    """term string for coefficient list (low->high), the way a user would write it"""
    out = []
    for i in range(len(cs) - 1, -1, -1):
        c = cs[i]
        if not c:
            continue
        if i == 0:
            out.append(str(c))
        else:
            out.append(('' if c == 1 else str(c)) + ('x' if i == 1 else f'x^{i}'))
    return '+'.join(out) if out else '0'


# ---------------------------------------------------------------------------------------------
# real code
# ---------------------------------------------------------------------------------------------
class Nets:
    """Cache of real runtimes for (m, t, sec_param)."""

    def __init__(self):
        self.nets = {}

    def get(self, m, t, k=None):
        key = (m, t, k)
        if key not in self.nets:
            self.nets[key] = SimNet(m, t, no_prss=True, seed=1, sec_param=k)
        net = self.nets[key]
        simnet.RTS.clear()
        for i, rt in enumerate(net.rts):
            simnet.RTS[i] = rt
        return net

    def close(self):
        for net in self.nets.values():
            try:
                net.loop.close()
            except Exception:
                pass
        self.nets.clear()


def clear_caches():
    sectypes._SecFld.cache_clear()
    sectypes._SecInt.cache_clear()
    sectypes._SecFxp.cache_clear()
    sectypes._SecFlt.cache_clear()


def mod_arg(md):
    """('n',) | ('i', n) | ('s', coeffs) | ('p', p, coeffs) -> python argument"""
    if md[0] == 'n':
        return None
    if md[0] == 'i':
        return md[1]
    if md[0] == 's':
        return terms(md[1])
    return gfpx.GFpX(md[1])(list(md[2]))


def field_desc(F):
    p = F.characteristic
    if F.ext_deg == 1 and isinstance(F.modulus, int):
        md = str(F.modulus)
    else:
        ds = digits(p, int(F.modulus))
        md = ','.join(map(str, ds)) if ds else '-'
    return f'{p},{F.ext_deg},{F.order},{md}'


def real_secfld(nets, case):
    m, t, o, md, c, e, n = case
    net = nets.get(m, t)
    clear_caches()

    def call():
        return sectypes.SecFld(order=o, modulus=mod_arg(md), char=c, ext_deg=e, min_order=n)
    try:
        S = net.ctx[0].run(call)
    except Exception as exc:
        return type(exc).__name__, None
    base = S.subfield if S.subfield else S.field
    return f'ok base={field_desc(base)} field={field_desc(S.field)} sub={1 if S.subfield else 0}', S


def opt(x):
    return '-' if x is None else str(x)


def mod_req(md):
    if md[0] == 'n':
        return '-'
    if md[0] == 'i':
        return f'i:{md[1]}'
    if md[0] == 's':
        return 's:' + (','.join(map(str, md[1])) if md[1] else '-')
    return f'p:{md[1]}:' + (','.join(map(str, md[2])) if md[2] else '-')


def float_cl(b, x):
    """value of math.ceil(math.log(x, b)) as the code computes it (lifting exponent), or V / Z for the exception"""
    try:
        return str(math.ceil(math.log(x, b)))
    except ValueError:
        return 'V'
    except ZeroDivisionError:
        return 'Z'


def exact_cl(b, x):
    """extension degree for SecFld(char=b, min_order=x) since the repo fix: the least e >= 0 with b^e >= x, computed with
    integers; ValueError (V) unless b > 1 and x > 0"""
    if b <= 1 or x <= 0:
        return 'V'
    return str(clog(b, x))


# ---------------------------------------------------------------------------------------------
# independent oracle for SecFld
# ---------------------------------------------------------------------------------------------
def truthy(x):
    return x is not None and x != 0


def determined(case):
    """What the request pins down on the clean domain: ('unsat', why) | ('sat', p|None, d|None, modpoly|None)."""
    m, t, o, md, c, e, n = case
    p = d = None
    if o is not None:
        pd = prime_power(o)
        if pd is None:
            return ('unsat', 'order is not a prime power')
        p, d = pd
    if c is not None:
        if p is not None and p != c:
            return ('unsat', 'char contradicts order')
        p = c
    if e is not None:
        if d is not None and d != e:
            return ('unsat', 'ext_deg contradicts order')
        d = e
    poly = None
    if md[0] == 's' or md[0] == 'p' or (md[0] == 'i' and p is not None and md[1] > p):
        if md[0] == 's':
            q = p if p is not None else 2
            if not is_prime(q):
                return ('unsat', 'char not prime')
            if q == 2 and any(x >= 2 for x in md[1]):
                return ('unsat', 'term string with coefficients is ill formatted over GF(2)')
            f = [x % q for x in md[1]]
        elif md[0] == 'p':
            q = md[1]
            f = list(md[2])
        else:
            q = p
            if not is_prime(q):
                return ('unsat', 'char not prime')
            f = digits(q, md[1])
        while f and f[-1] == 0:
            f.pop()
        if p is not None and p != q:
            return ('unsat', 'char contradicts modulus')
        if not poly_irreducible(q, f):
            return ('unsat', 'modulus not irreducible')
        if d is not None and d != len(f) - 1:
            return ('unsat', 'degree of modulus contradicts ext_deg/order')
        p, d, poly = q, len(f) - 1, f
    elif md[0] == 'i':
        if p is not None and p != md[1]:
            return ('unsat', 'int modulus contradicts char')
        if d is not None and d != 1:
            return ('unsat', 'int modulus with ext_deg != 1')
        p, d = md[1], 1
    if p is not None and not is_prime(p):
        return ('unsat', 'characteristic not prime')
    if n is not None and p is not None and d is not None and p ** d < n:
        return ('unsat', 'min_order exceeds the determined order')
    return ('sat', p, d, poly)


def clean(case):
    m, t, o, md, c, e, n = case
    return ((o is None or o >= 2) and (c is None or c >= 2) and (e is None or e >= 1) and (n is None or n >= 2)
            and (md[0] != 'i' or md[1] >= 2))


def secfld_oracle(case, res, S):
    """Problems of the real result w.r.t. the property statement."""
    m, t, o, md, c, e, n = case
    probs = []
    det = determined(case) if clean(case) else None
    if S is None:
        if det is not None and det[0] == 'sat':
            p, d = det[1], det[2]
            # the field the defaults select when the request leaves p or d open
            if p is None:
                dd = d or 1
                p = 2 if n is None else next(k for k in range(2, 2 * n + 3) if is_prime(k) and k ** dd >= n)
            if d is None:
                d = 1 if n is None else clog(p, n)     # exact since repo fix (integer loop instead of math.log)
            lifted = t > 0 and p ** d <= m
            if lifted and d > 1:
                return []   # documented limitation: small extension fields are not lifted (assert in _SecFld)
            probs.append(f'consistent request rejected with {res}')
        return probs
    base = S.subfield if S.subfield else S.field
    q, p, d = base.order, base.characteristic, base.ext_deg
    if not is_prime(p) or q != p ** d or d < 1:
        probs.append(f'not a field: char={p} ext_deg={d} order={q}')
    if d > 1 or not isinstance(base.modulus, int):
        f = digits(p, int(base.modulus))
        if len(f) - 1 != d or (p ** d <= 5000 and not poly_irreducible(p, f)):
            probs.append(f'modulus {f} is not an irreducible polynomial of degree {d}')
    elif base.modulus != p:
        probs.append('prime field with modulus != characteristic')
    if truthy(o) and q != o:
        probs.append(f'order {q} != requested order {o}')
    if truthy(c) and p != c:
        probs.append(f'characteristic {p} != requested char {c}')
    if truthy(e) and d != e:
        probs.append(f'ext_deg {d} != requested ext_deg {e}')
    if n is not None and q < n:
        probs.append(f'order {q} < min_order {n}')
    if clean(case) and truthy(c) and e is None and o is None and md[0] == 'n' and n is not None and n >= 1 and d != max(clog(c, n), 0):
        probs.append(f'char={c}, min_order={n}: expected the least extension degree {clog(c, n)}, got {d}')
    if det is not None and det[0] == 'sat' and det[3] is not None:
        if digits(p, int(base.modulus)) != det[3]:
            probs.append('modulus differs from the requested modulus')
    if det is not None and det[0] == 'sat':
        if det[1] is not None and p != det[1]:
            probs.append(f'characteristic {p} differs from the one the request determines ({det[1]})')
        if det[2] is not None and d != det[2]:
            probs.append(f'ext_deg {d} differs from the one the request determines ({det[2]})')
    if det is not None and det[0] == 'unsat':
        probs.append(f'inconsistent request accepted ({det[1]})')
    # least prime rule for min_order with free characteristic
    if clean(case) and md[0] == 'n' and o is None and c is None and n is not None:
        dd = e or 1
        least = next(k for k in range(2, 2 * n + 3) if is_prime(k) and k ** dd >= n)
        if (p, d) != (least, dd):
            probs.append(f'min_order={n}, ext_deg={dd}: expected least prime {least}, got GF({p}^{d})')
    # lifting
    F = S.field
    if t == 0 or m < q:
        if S.subfield is not None or F is not base:
            probs.append('lifted although the field is large enough')
    else:
        if S.subfield is None:
            probs.append(f'field of order {q} <= m={m} with t={t} not lifted')
        elif not (F.order > m and F.characteristic == p and F.order == p ** F.ext_deg and F.ext_deg % d == 0):
            probs.append(f'lifted field GF({F.characteristic}^{F.ext_deg}) does not exceed m={m} / extend the base field')
        else:
            for v in range(q):
                try:
                    back = S._output_conversion(F(v))
                except Exception as exc:
                    probs.append(f'output conversion raises {type(exc).__name__}')
                    break
                if type(back) is not base or int(back) != v:
                    probs.append(f'output conversion of {v} gives {back!r}')
                    break
    if t > 0 and F.order <= m:
        probs.append(f'field order {F.order} <= m={m} with t={t}')
    return probs


# ---------------------------------------------------------------------------------------------
# case generation
# ---------------------------------------------------------------------------------------------
def cfgs(max_m):
    return [(m, t) for m in range(1, max_m + 1) for t in range(m) if 2 * t < m]


def moduli(rng, thorough):
    ms = [('n',)]
    ms += [('i', k) for k in [0, 1, 2, 3, 4, 5, 7, 9, 11, 13, 19, 25, 37, 67, 131, 283]]
    polys = [[1, 1], [0, 1], [1, 1, 1], [1, 0, 1], [1, 1, 0, 1], [1, 0, 1, 1], [1, 1, 1, 1], [1, 1, 0, 0, 1],
             [1, 0, 0, 0, 1], [1, 1, 0, 1, 1, 0, 0, 0, 1], [2, 1, 1], [1, 0, 2], [2, 0, 1], [1, 2, 0, 1], [2, 2, 1],
             [3, 0, 1], [2, 0, 0, 1], [1, 1, 0, 0, 0, 0, 1], [1], [0], [], [2], [3, 3, 1], [1, 2, 3, 4, 1], [5, 1, 1]]
    ms += [('s', tuple(f)) for f in polys]
    for p in PRIMES[:4]:
        for f in polys:
            g = [x % p for x in f]
            while g and g[-1] == 0:
                g.pop()
            ms.append(('p', p, tuple(g)))
    if thorough:
        for _ in range(60):
            p = rng.choice(PRIMES)
            dgr = rng.randrange(1, 5)
            ms.append(('s', tuple([rng.randrange(0, p + 2) for _ in range(dgr)] + [1])))
    return ms


def secfld_cases(ctx, rng):
    th = ctx.thorough
    mts = cfgs(9) if th else cfgs(5) + [(7, 3), (9, 4), (9, 1), (8, 0)]
    orders = [None, 0, 1] + list(range(2, 34)) + [49, 64, 81, 100, 121, 125, 128, 169, 243, 256, 289, 300]
    chars = [None, 0, 1, 2, 3, 4, 5, 7, 9, 11, 13]
    exts = [None, 0, 1, 2, 3, 4, 5, 6]
    mins = [None, 0, 1, 2, 3, 4, 5, 7, 8, 9, 16, 17, 25, 26, 27, 28, 64, 100, 125, 126, 128, 243, 256, 257, 343, 1000, 1024,
            1025, 2000]
    mods = moduli(rng, th)
    cases = []
    N = ('n',)
    # each argument alone, under every configuration (lifting!)
    for (m, t) in mts:
        for o in orders:
            cases.append((m, t, o, N, None, None, None))
        for c in chars:
            cases.append((m, t, None, N, c, None, None))
        for md in mods[:30]:
            cases.append((m, t, None, md, None, None, None))
        for n in mins[:14]:
            cases.append((m, t, None, N, None, None, n))
    m0 = [(1, 0), (3, 1), (5, 2)]
    # min_order far beyond double precision with a given characteristic (repo fix: the extension degree is computed with integers;
    # math.ceil(math.log(min_order, char)) rounded down for 2^64+1 and up for 125 = 5^3)
    for (m, t) in ((1, 0), (3, 1)):
        for c, n in ((2, 2 ** 64 + 1), (2, 2 ** 53 + 1), (2, 2 ** 64), (2, 2 ** 100 + 1), (3, 3 ** 40 + 1), (3, 3 ** 40), (5, 125), (2, 2 ** 29),
                     (7, 7 ** 30 + 1), (5, 5 ** 20)):
            cases.append((m, t, None, N, c, None, n))
    # pairs
    for (m, t) in m0:
        for c in chars:
            for e in exts:
                cases.append((m, t, None, N, c, e, None))
            for n in mins:
                cases.append((m, t, None, N, c, None, n))
        for e in exts:
            for n in mins:
                cases.append((m, t, None, N, None, e, n))
    for o in orders:
        for c in [2, 3, 5, 7]:
            cases.append((1, 0, o, N, c, None, None))
        for e in [1, 2, 3]:
            cases.append((1, 0, o, N, None, e, None))
        for n in [2, 9, 100]:
            cases.append((1, 0, o, N, None, None, n))
    # modulus against everything
    for md in mods:
        for c in [None, 2, 3, 5, 7, 4]:
            cases.append((1, 0, None, md, c, None, None))
        for e in [None, 1, 2, 3]:
            cases.append((3, 1, None, md, None, e, None))
        for o in [None, 2, 3, 4, 8, 9, 16, 27, 256]:
            cases.append((1, 0, o, md, None, None, None))
        for n in [None, 2, 5, 9, 100]:
            cases.append((1, 0, None, md, None, None, n))
    # random combinations
    for _ in range(ctx.scale(1500, 40000)):
        m, t = rng.choice(mts)
        pick = lambda xs, pr: rng.choice(xs[1:]) if rng.random() < pr else None  # noqa: E731
        o = pick(orders, 0.3)
        md = rng.choice(mods) if rng.random() < 0.4 else N
        cases.append((m, t, o, md, pick(chars, 0.4), pick(exts, 0.4), pick(mins, 0.35)))
    seen, out = set(), []
    for cs in cases:
        if cs not in seen:
            seen.add(cs)
            out.append(cs)
    return out


def too_big(case):
    """keep brute-force irreducibility (model + oracle) cheap: skip requests that force p^d > 2^13"""
    m, t, o, md, c, e, n = case
    p = c if truthy(c) else 2
    bound = 1
    if truthy(e):
        bound = max(bound, (p if p > 1 else 2) ** e)
    if n is not None and truthy(c) and c > 1:
        pw = c
        while pw < n:
            pw *= c
        bound = max(bound, pw)
    if truthy(o):
        bound = max(bound, o)
    if md[0] in 's':
        bound = max(bound, (p if p > 1 else 2) ** max(len(md[1]) - 1, 0))
    if md[0] == 'p':
        bound = max(bound, md[1] ** max(len(md[2]) - 1, 0))
    return bound > 1 << 13


# ---------------------------------------------------------------------------------------------
# run parts
# ---------------------------------------------------------------------------------------------
def violation_replay(kind, case, expected, observed):
    return {'kind': kind, 'case': list(case), 'expected': expected, 'observed': observed}


def check_big_min_order(ctx):
    """SecFld(char=c, min_order=n) for n far beyond the range of the model's brute-force irreducibility test (oracle only):
    characteristic c and EXACTLY the least extension degree with c^d >= n (theorem secfld_least_exponent needs the exact
    ceiling of the logarithm; the code computed it with math.log before the repo fix)"""
    nets = Nets()
    try:
        for (m, t) in ((1, 0), (3, 1)):
            for c, n in ((2, 2 ** 64 + 1), (2, 2 ** 53 + 1), (2, 2 ** 64), (2, 2 ** 100 + 1), (3, 3 ** 40 + 1), (3, 3 ** 40), (5, 125),
                         (2, 2 ** 29), (7, 7 ** 30 + 1), (5, 5 ** 20), (11, 11 ** 15 + 1), (2, 2 ** 200)):
                case = (m, t, None, ('n',), c, None, n)
                res, S = real_secfld(nets, case)
                ctx.case(('big-min-order', m, t, c, n), nontrivial=True)
                ctx.count('secfld_big_min_order')
                d = clog(c, n)
                if S is None:
                    ctx.violation(f'C39 SecFld(char={c}, min_order={n}) m={m} t={t}: consistent request rejected with {res}',
                                  violation_replay('secfld', case, f'GF({c}^{d})', res))
                    return
                base = S.subfield if S.subfield else S.field
                if base.characteristic != c or base.ext_deg != d or base.order != c ** d:
                    ctx.violation(f'C39 SecFld(char={c}, min_order={n}) m={m} t={t}: got GF({base.characteristic}^{base.ext_deg}), '
                                  f'expected the least extension degree {d}',
                                  violation_replay('secfld', case, f'GF({c}^{d})', res))
                    return
    finally:
        nets.close()


def check_secfld(ctx, cases, tag):
    nets = Nets()
    reqs, impl, keep = [], [], []
    for case in cases:
        if too_big(case):
            ctx.count('secfld_skipped_too_big')
            continue
        m, t, o, md, c, e, n = case
        res, S = real_secfld(nets, case)
        given = sum(x is not None for x in (o, c, e, n)) + (md[0] != 'n')
        lifting = S is not None and S.subfield is not None
        ctx.case(case, nontrivial=given >= 2 or lifting)
        ctx.count('secfld_' + ('ok' if S is not None else res))
        ctx.count(f'secfld_args_given={given}')
        ctx.count('secfld_modulus_' + {'n': 'none', 'i': 'int', 's': 'str', 'p': 'poly'}[md[0]])
        if lifting:
            ctx.count('secfld_lifted')
        probs = secfld_oracle(case, res, S)
        if probs:
            ctx.violation(f'C39 SecFld m={m} t={t} order={o} modulus={mod_arg(md)!r} char={c} ext_deg={e} min_order={n}: '
                          f'{probs[0]}', violation_replay('secfld', case, 'see property statement', [res] + probs[:4]))
            continue
        cl1 = exact_cl(c, n) if (c is not None and n is not None) else '-'
        cl2 = '-'
        if S is not None:
            base = S.subfield if S.subfield else S.field
            cl2 = float_cl(base.order, m + 1)
            if cl2 != str(clog(base.order, m + 1)):
                ctx.count('float_ceil_log_not_minimal_lift')
        if cl1 not in ('-', 'V', 'Z') and c >= 2 and n >= 1 and cl1 != str(clog(c, n)):
            ctx.count('float_ceil_log_not_minimal_extdeg')
        reqs.append(f'secfld {m} {t} {opt(o)} {mod_req(md)} {opt(c)} {opt(e)} {opt(n)} {cl1} {cl2}')
        impl.append(res)
        if len(ctx.samples) < 4 and given >= 2 and S is not None:
            ctx.sample({'m': m, 't': t, 'order': o, 'modulus': repr(mod_arg(md)), 'char': c, 'ext_deg': e, 'min_order': n,
                        'result': res})
    nets.close()
    BATCH.append((f'SecFld resolution + lifting ({tag})', reqs, impl, lambda ln: ln.split(' order=')[0]))


def check_number_theory(ctx):
    """The definitions used by the model vs the repo's gmpy stubs, on the arguments SecFld uses."""
    from mpyc import gmpy as gmpy2
    reqs, impl = [], []
    for x in range(0, ctx.scale(400, 3000)):
        reqs.append(f'isprime {x}')
        impl.append(str(int(bool(gmpy2.is_prime(x)))))
        reqs.append(f'fpp {x}')
        try:
            p, d = gmpy2.factor_prime_power(x)
            impl.append(f'{int(p)} {int(d)}')
        except ValueError:
            impl.append('ValueError')
        reqs.append(f'primege {x}')
        impl.append(str(int(gmpy2.next_prime(x - 1))))
        ctx.case(('nt', x), nontrivial=False)
    for n in list(range(0, 70)) + [100, 125, 126, 243, 256, 257, 1000, 1024, 1025, 2000]:
        for d in range(1, 7):
            root, exact = gmpy2.iroot(n, d)
            reqs.append(f'croot {n} {d}')
            impl.append(str(int(root) + (not exact)))
    for n in [0, 1, 2, 3, 255, 256, 2 ** 31 - 1, 2 ** 31, 2 ** 64 - 1, 2 ** 64]:
        reqs.append(f'bitlen {n}')
        impl.append(str(n.bit_length()))
    for p in PRIMES:
        poly = gfpx.GFpX(p)
        for v in range(0, min(p ** 4, ctx.scale(300, 1500))):
            f = digits(p, v)
            reqs.append(f'irr {p} ' + (','.join(map(str, f)) if f else '-'))
            impl.append(str(int(bool(poly.is_irreducible(poly(v))))))
        for d in range(0, 7):
            if p ** d <= 1 << 12:
                reqs.append(f'findirr {p} {d}')
                impl.append(','.join(map(str, digits(p, int(finfields.find_irreducible(p, d))))))
    BATCH.append(('number theory / irreducibility definitions vs repo helpers', reqs, impl, None))


def check_float_log(ctx):
    """math.ceil(math.log(m+1, q)) (lifting) and math.ceil(math.log(n, c)) (ext_deg) against the integer ceil-log."""
    bad_low, non_min = [], 0
    M = ctx.scale(512, 4096)
    for m in range(2, M + 1):
        for q in range(2, m + 1):
            e = math.ceil(math.log(m + 1, q))
            ex = clog(q, m + 1)
            if e != ex:
                non_min += 1
                if q ** e <= m:
                    bad_low.append((m, q, e))
    ctx.count('float_lift_pairs_checked', (M - 1) * M // 2)
    # boundaries for every prime q <= 65536 (pid is sent in 2 bytes: m <= 65536)
    nb = 0
    sieve = bytearray([1]) * 65537
    sieve[0:2] = b'\x00\x00'
    for i in range(2, 257):
        if sieve[i]:
            sieve[i * i::i] = bytearray(len(sieve[i * i::i]))
    for q in range(2, 65537):
        if not sieve[q]:
            continue
        k, v = 1, q
        while v <= 65537:
            for x in (v - 1, v, v + 1):
                mm = x - 1
                if mm >= q and mm <= 65536:
                    nb += 1
                    e = math.ceil(math.log(mm + 1, q))
                    if e != clog(q, mm + 1):
                        non_min += 1
                        if q ** e <= mm:
                            bad_low.append((mm, q, e))
            v *= q
            k += 1
    ctx.count('float_lift_boundaries_checked', nb)
    ctx.count('float_lift_exponent_not_minimal', non_min)
    for (m, q, e) in bad_low[:3]:
        ctx.violation(f'C39 lifting: math.ceil(math.log({m}+1, {q})) = {e} but {q}^{e} <= m: lifted field would not exceed '
                      f'the number of parties', violation_replay('floatlog', (m, q), f'e with {q}^e > {m}', e))
    # ext_deg = ceil(log(min_order, char)): too small is caught by the final assert (rejected), too large is allowed
    low = hi = 0
    for c in PRIMES + ([17, 19, 23, 29, 31] if ctx.thorough else []):
        for n in list(range(1, ctx.scale(5000, 60000))) + [c ** k + dlt for k in range(1, 40) for dlt in (-1, 0, 1)
                                                            if c ** k < 2 ** 62]:
            e = math.ceil(math.log(n, c))
            ex = clog(c, n)
            if e < ex:
                low += 1
            elif e > ex:
                hi += 1
    ctx.count('float_extdeg_too_small(rejected by assert)', low)
    ctx.count('float_extdeg_not_minimal', hi)
    ctx.note(f'float ceil-log: lifting exponent non-minimal in {non_min} checked (m,q) pairs (e.g. m=124, q=5: e=4), never too '
             f'small; ext_deg exponent non-minimal in {hi} and too small in {low} checked (char, min_order) pairs (too small '
             f'=> AssertionError, e.g. char=2, min_order=2**60+1)')


def check_threshold(ctx):
    """runtime.setup() with -M m [-T t]: real outcome vs model vs definition."""
    reqs, impl = [], []
    saved_argv = sys.argv
    loop = asyncio.new_event_loop()
    asyncio.set_event_loop(loop)
    try:
        for m in range(1, ctx.scale(24, 60)):
            for t in [None] + list(range(-2, m + 2)):
                argv = ['prog', '-M', str(m), '-I', '0', '--no-log', '--no-prss']
                if t is not None:
                    argv += ['-T', str(t)] if t >= 0 else [f'-T{t}']
                sys.argv = argv
                try:
                    rt = rtmod.setup()
                    got = f'ok {rt.threshold}'
                    if len(rt.parties) != m:
                        got += f' parties={len(rt.parties)}'
                except AssertionError:
                    got = 'AssertionError'
                except ValueError:
                    got = 'ValueError'
                except SystemExit:
                    got = 'SystemExit'
                reqs.append(f'thr {m} {opt(t)}')
                impl.append(got)
                ctx.case(('thr', m, t), nontrivial=t is not None)
                # definition
                if t is None:
                    want = f'ok {max(k for k in range(0, m) if 2 * k < m)}'
                elif t < 0:
                    want = 'ValueError'          # refused by the setter of Runtime.threshold (repo fix: 0 <= 2t < m)
                elif 2 * t < m:
                    want = f'ok {t}'
                else:
                    want = 'AssertionError'
                if got != want:
                    ctx.violation(f'C39 setup(): m={m} threshold option {t}: {got}, expected {want}',
                                  violation_replay('threshold', (m, t), want, got))
    finally:
        sys.argv = saved_argv
        simnet._install_proxy()
        asyncio.set_event_loop(None)
        loop.close()
    BATCH.append(('setup() threshold', reqs, impl, None))
    set_threshold_at_runtime(ctx)


def set_threshold_at_runtime(ctx):
    """assigning mpc.threshold on a set-up runtime: accepted iff 0 <= 2t < m (theorem set_threshold_valid); after a refused
    assignment the threshold is unchanged"""
    for m in (1, 2, 3, 4, 5, 7):
        net = SimNet(m, None, no_prss=True, seed=1)
        rt = net.rts[0]
        t0 = rt.threshold
        for t in range(-2, m + 2):
            try:
                net.ctx[0].run(setattr, rt, 'threshold', t)
                got = f'ok {rt.threshold}'
            except ValueError:
                got = 'ValueError'
            except AssertionError:
                got = 'AssertionError'
            want = f'ok {t}' if 0 <= 2 * t < m else 'ValueError'
            ctx.case(('set-thr', m, t), nontrivial=True)
            ctx.count('threshold-setter')
            if got != want or (want == 'ValueError' and rt.threshold not in (t0,) + tuple(range(0, m))):
                ctx.violation(f'C39 mpc.threshold = {t} with m={m}: {got}, expected {want}',
                              violation_replay('set-threshold', (m, t), want, got))
                return
            if got.startswith('ok'):
                t0 = t
        net.ctx[0].run(setattr, rt, 'threshold', (m - 1) // 2)


def check_pfield(ctx, rng):
    """SecInt / SecFxp / SecFlt: the field exceeds the number of parties when t > 0; given primes are validated."""
    nets = Nets()
    reqs, impl = [], []
    mts = cfgs(9) if ctx.thorough else cfgs(5) + [(9, 4), (7, 1), (8, 3)]
    small_primes = [2, 3, 5, 7, 11, 13, 17, 31, 61, 127, 251, 257, 521, 8191, 65537, 2 ** 31 - 1, 2 ** 61 - 1]
    for (m, t) in mts:
        for k in ([0, 1, 3, 30] if t > 0 or m == 1 else [0, 30]):
            net = nets.get(m, t, k)
            combos = []
            for l in [0, 1, 2, 3, 4, 8, 32]:
                combos.append(('int', l, 0, None, 2))
                for p in rng.sample(small_primes, 4) + [9, 15, 2 ** (l + k + 1) + 1, 2 ** (l + k + 2) - 1]:
                    combos.append(('int', l, 0, p, 2))
            for (l, f) in [(2, 1), (4, 2), (8, 4), (3, 0), (16, 8)]:
                combos.append(('fxp', l, f, None, 2))
                for p in rng.sample(small_primes, 3):
                    combos.append(('fxp', l, f, p, 2))
            combos.append(('int', 4, 0, None, 5))
            combos.append(('int', 2, 0, None, 3))
            for (kind, l, f, p, n) in combos:
                clear_caches()

                def call():
                    if kind == 'int':
                        return sectypes.SecInt(l, p, n)
                    return sectypes.SecFxp(l, f, p, n)
                try:
                    T = net.ctx[0].run(call)
                    got = f'ok {T.field.modulus}'
                except Exception as exc:
                    T = None
                    got = type(exc).__name__
                ctx.case(('pfield', m, t, k, kind, l, f, p, n), nontrivial=t > 0)
                ctx.count('pfield_' + ('ok' if T is not None else got))
                # oracle
                if T is not None:
                    q = T.field.order
                    bad = None
                    if not is_prime(q) or T.field.ext_deg != 1:
                        bad = f'order {q} is not prime'
                    elif t > 0 and q <= m:
                        bad = f'field order {q} <= m={m} with t={t}'
                    elif p is not None and q != p:
                        bad = f'field modulus {q} != requested prime {p}'
                    elif q.bit_length() < l + f + k + 2:
                        bad = f'prime {q} has no headroom for l+f+k+2 = {l + f + k + 2} bits'
                    if bad:
                        ctx.violation(f'C39 Sec{kind}(l={l}, f={f}, p={p}, n={n}) m={m} t={t} sec_param={k}: {bad}',
                                      violation_replay('pfield', (m, t, k, kind, l, f, p, n), 'prime field larger than m', got))
                        continue
                elif p is None and got != 'AssertionError':
                    ctx.violation(f'C39 Sec{kind}(l={l}, f={f}) m={m} t={t} sec_param={k}: default prime refused with {got}',
                                  violation_replay('pfield', (m, t, k, kind, l, f, p, n), 'a type or AssertionError', got))
                    continue
                fp = finfields.find_prime_root(l + f + k + 2, n=n)[0] if p is None else None
                eff = p if p is not None else fp
                reqs.append(f'pfield {l} {f} {k} {opt(p)} {n} {m} {t} {opt(fp)} {int(is_prime(eff))}')
                impl.append(got)
            # SecFlt builds on SecFxp/SecInt: both component fields must exceed m when t > 0
            if t > 0:
                for (s_, e_) in [(4, 3), (8, 4), (24, 8)]:
                    clear_caches()
                    try:
                        T = net.ctx[0].run(lambda: sectypes.SecFlt(None, s_, e_))
                        orders = (T.significand_type.field.order, T.exponent_type.field.order)
                        if min(orders) <= m:
                            ctx.violation(f'C39 SecFlt(s={s_}, e={e_}) m={m} t={t}: component field order {orders} <= m',
                                          violation_replay('secflt', (m, t, k, s_, e_), 'orders > m', list(orders)))
                        ctx.count('secflt_ok')
                    except AssertionError:
                        ctx.count('secflt_AssertionError')
                    ctx.case(('secflt', m, t, k, s_, e_))
    nets.close()
    BATCH.append(('_pfield (SecInt/SecFxp)', reqs, impl, None))


def lifted_run(m, t, q, seed, t_initial=None):
    """One real multi-party computation over SecFld(q) with q <= m, t > 0.  Returns (problem or None, parties)."""
    import random as pyrandom
    clear_caches()
    r = pyrandom.Random(f'{seed}:{m}:{t}:{q}')
    xs = [r.randrange(q) for _ in range(3)]

    async def prog(mpc):
        S = mpc.SecFld(q)
        a, b, c = (S(v) for v in xs)
        # public ints are elements of the BASE field, whatever their representative: constructor and operands
        k1, k2 = xs[0] + 3 * q, xs[1] - 2 * q
        res = await mpc.output([a * b + c, a + b, a * a * c, a - b, S(k1) + S(k2), S(k1) * S(k2), a * k1, k2 * b, a + k1, k2 - b])
        return (S.subfield is not None, S.field.order, [(type(v).__name__, int(v), type(v).order) for v in res])
    net = SimNet(m, t, no_prss=False, seed=seed, t_initial=t_initial)   # t_initial: mpc.threshold assigned after set-up
    try:
        outs = net.run(prog)
    except Exception as exc:
        clear_caches()
        return f'run failed: {type(exc).__name__}: {str(exc)[:200]}', 0
    clear_caches()
    a, b, c = xs
    k1, k2 = a + 3 * q, b - 2 * q
    want = [(a * b + c) % q, (a + b) % q, (a * a * c) % q, (a - b) % q, (k1 + k2) % q, (k1 * k2) % q, (a * k1) % q, (k2 * b) % q,
            (a + k1) % q, (k2 - b) % q]
    for i, (lifted, order, res) in enumerate(outs):
        vals = [v for _, v, _ in res]
        ords = {o for _, _, o in res}
        if not lifted or order <= m or vals != want or ords != {q}:
            return (f'party {i}: lifted={lifted} sharing field order={order} outputs={res}, expected values {want} in GF({q}) '
                    f'shared over a field with more than {m} elements'), len(outs)
    return None, len(outs)


def check_lifted_runs(ctx):
    """Real multi-party computations over lifted fields: outputs are base-field elements with the right values."""
    for (m, t, q) in [(3, 1, 2), (3, 1, 3), (5, 2, 2), (5, 2, 5), (5, 1, 3), (7, 3, 7), (4, 1, 2)] + \
            ([(9, 4, 2), (9, 4, 3), (8, 3, 7), (7, 2, 5)] if ctx.thorough else []):
        prob, n = lifted_run(m, t, q, ctx.seed)
        for i in range(max(n, 1)):
            ctx.case(('liftrun', m, t, q, i))
        ctx.count('lifted_runs')
        if prob:
            ctx.violation(f'C39 lifted run m={m} t={t} q={q}: {prob}',
                          {'kind': 'liftrun', 'case': [m, t, q], 'seed': ctx.seed,
                           'expected': 'outputs in GF(q), sharing field larger than m', 'observed': prob})
    # the live threshold decides: runtime set up with threshold 0 (-T0), the program assigns mpc.threshold afterwards
    for (m, t, q, t0) in [(3, 1, 2, 0), (3, 1, 3, 0), (5, 2, 5, 0), (5, 2, 3, 1)]:
        prob, n = lifted_run(m, t, q, ctx.seed, t_initial=t0)
        ctx.case(('liftrun-reassigned', m, t, q, t0))
        ctx.count('lifted_runs_threshold_reassigned')
        if prob:
            ctx.violation(f'C39 lifted run m={m} t={t} q={q} (threshold {t0} at set-up, then mpc.threshold = {t}): {prob}',
                          {'kind': 'liftrun', 'case': [m, t, q], 't_initial': t0, 'seed': ctx.seed,
                           'expected': 'outputs in GF(q), sharing field larger than m', 'observed': prob})


BATCH = []   # (what, requests, implementation lines, postprocess of model lines)


def flush_batch(ctx):
    """One Lean driver invocation for everything collected so far."""
    parts = list(BATCH)
    del BATCH[:]
    allreq = [r for _, reqs, _, _ in parts for r in reqs]
    model = common.LeanDriver('Config').run(allreq, timeout=1500)
    if isinstance(model, common.DriverFailure):
        ctx.compare('C39 driver batch', [], model, allreq)
        return
    pos = 0
    for what, reqs, impl, post in parts:
        ml = model[pos:pos + len(reqs)]
        pos += len(reqs)
        if post is not None:
            ml = [post(x) for x in ml]
        ctx.compare(what, impl, ml, reqs)


def run(ctx):
    rng = ctx.subrng('run')
    del BATCH[:]
    check_number_theory(ctx)
    check_float_log(ctx)
    check_threshold(ctx)
    check_pfield(ctx, rng)
    check_lifted_runs(ctx)
    check_secfld(ctx, secfld_cases(ctx, rng), 'run')
    check_big_min_order(ctx)
    flush_batch(ctx)


def search(ctx):
    rng = ctx.subrng('search')
    old = ctx.tier
    ctx.tier = 'thorough'
    try:
        check_secfld(ctx, secfld_cases(ctx, rng)[:60000], 'search')
        flush_batch(ctx)
    finally:
        ctx.tier = old


def replay(ctx, data):
    kind = data.get('kind')
    if kind == 'secfld':
        m, t, o, md, c, e, n = data['case']
        md = tuple(md[:1]) + tuple(tuple(x) if isinstance(x, list) else x for x in md[1:])
        case = (m, t, o, md, c, e, n)
        nets = Nets()
        res, S = real_secfld(nets, case)
        probs = secfld_oracle(case, res, S)
        nets.close()
        clear_caches()
        if probs:
            return False, f'SecFld{case}: {res}; {probs[:3]}'
        return True, f'SecFld{case}: {res} satisfies C39'
    if kind == 'floatlog':
        m, q = data['case']
        e = math.ceil(math.log(m + 1, q))
        return (q ** e > m), f'ceil(log({m}+1, {q})) = {e}'
    if kind == 'threshold':
        m, t = data['case']
        ok = (t is None) or True
        saved = sys.argv
        loop = asyncio.new_event_loop()
        asyncio.set_event_loop(loop)
        try:
            sys.argv = ['prog', '-M', str(m), '-I', '0', '--no-log', '--no-prss'] + ([] if t is None else [f'-T{t}'])
            try:
                got = f'ok {rtmod.setup().threshold}'
            except AssertionError:
                got = 'AssertionError'
        finally:
            sys.argv = saved
            simnet._install_proxy()
            asyncio.set_event_loop(None)
            loop.close()
        ok = got == data['expected']
        return ok, f'setup() m={m} T={t}: {got} (expected {data["expected"]})'
    if kind == 'pfield':
        m, t, k, knd, l, f, p, n = data['case']
        nets = Nets()
        net = nets.get(m, t, k)
        clear_caches()
        try:
            T = net.ctx[0].run(lambda: sectypes.SecInt(l, p, n) if knd == 'int' else sectypes.SecFxp(l, f, p, n))
            q = T.field.order
            ok = is_prime(q) and (t == 0 or q > m) and (p is None or q == p) and q.bit_length() >= l + f + k + 2
            msg = f'field order {q}'
        except Exception as exc:
            ok = isinstance(exc, (AssertionError, ValueError))
            msg = type(exc).__name__
        nets.close()
        clear_caches()
        return ok, f'Sec{knd}(l={l}, f={f}, p={p}, n={n}) m={m} t={t} k={k}: {msg}'
    if kind == 'liftrun':
        m, t, q = data['case']
        prob, _ = lifted_run(m, t, q, data.get('seed', 0), data.get('t_initial'))
        return prob is None, f'lifted run m={m} t={t} q={q}: {prob or "outputs correct, field exceeds m"}'
    if kind == 'secflt':
        m, t, k, s_, e_ = data['case']
        nets = Nets()
        net = nets.get(m, t, k)
        clear_caches()
        try:
            T = net.ctx[0].run(lambda: sectypes.SecFlt(None, s_, e_))
            orders = (T.significand_type.field.order, T.exponent_type.field.order)
            ok, msg = (t == 0 or min(orders) > m), f'component field orders {orders}'
        except AssertionError:
            ok, msg = True, 'AssertionError (refused)'
        nets.close()
        clear_caches()
        return ok, f'SecFlt(s={s_}, e={e_}) m={m} t={t} k={k}: {msg}'
    return True, 'nothing to execute for this replay kind'
