"""C24 -- irreducibility test, next_irreducible / find_irreducible search, GF(modulus) acceptance.

Python side: CORRESPONDENCE of the real `GFpX(p).is_irreducible / next_irreducible`, `finfields.find_irreducible`,
`finfields.GF / xGF` with the Lean models (`irr`, `nextirr`, `findirr` and their `b.` variants of lean/Drv/GFpX.lean),
and an independent ORACLE (harness/gfpx_oracle.py): exhaustive trial division (the definition of irreducible),
cross-checked against the sieve of all products, Rabin's test beyond the brute-force range, and an upward scan of
the integers for "the next monic irreducible".  Job machinery, class handling and replay format come from props/c23.py.
"""
import os
import random
import sys

HARNESS = os.path.dirname(os.path.dirname(os.path.abspath(__file__)))
if HARNESS not in sys.path:
    sys.path.insert(0, HARNESS)
from props import c23 as B  # noqa: E402  (sets up repo_path / sys.argv, imports the real gfpx)
import common  # noqa: E402
import gfpx_oracle as O  # noqa: E402
from mpyc import finfields  # noqa: E402

LEVEL = 'proof'
LEAN_MODULES = ['MpycV.Props.C24', 'MpycV.PropsGen.C24Src']
LEAN_NAMESPACES = ['MpycV.C24', 'MpycV.C24Src']
REQUIRED_THEOREMS = [
    'is_irreducible_correct', 'is_irreducible_iff_no_factor', 'reducible_detected', 'bin_is_irreducible_correct',
    'next_irreducible_spec', 'find_irreducible_spec', 'find_irreducible_degree', 'find_irreducible_one',
    'skipped_multiples_not_irreducible', 'search_terminates',
    'bin_next_irreducible_spec', 'bin_find_irreducible_spec', 'GF_accepts_iff', 'bin_GF_accepts_iff',
    'table_p2_deg6', 'table_p3_deg3', 'table_p5_deg2', 'table_p7_deg2', 'table_bin_deg6',
    # source tie (PropsGen/C24Src.lean): _is_irreducible / _next_irreducible generated from the current gfpx.py = model
    'is_irreducible_src_eq', 'next_irreducible_src_eq', 'is_irreducible_src_correct',
    'b_is_irreducible_src_eq', 'b_next_irreducible_src_eq',
]

RULE = (
    'A case is one (class, polynomial) or (p, degree) input of the real code. Exhaustive: EVERY polynomial (monic and '
    'non-monic, constants and 0 included) of degree <= 12 over GF(2) (binary class and the generic list code at p = 2), '
    '<= 7 over GF(3), <= 5 over GF(5) and GF(7) in the thorough tier; quick tier: every polynomial of degree <= 8/5/3/3 '
    'plus a seeded sample of 500/700/900/900 polynomials of the degrees up to 10/6/4/4: is_irreducible through the class method with '
    'polynomial/int/str/list argument and the static _method, next_irreducible likewise, GF(modulus) and xGF(modulus) '
    '(accepts with order p^d / modulus / characteristic / ext_deg, or ValueError); find_irreducible(p, d) for all '
    'small d. Random: p = 11 and 101, degrees 1..12, uniformly random / products of two random factors (known '
    'reducible) / oracle-certified irreducible polynomials, monic and non-monic. Each real answer is diffed against '
    'the Lean model (irr / nextirr / findirr; for p = 2 the bitmask AND the list model) and judged by the oracle: '
    'irreducible iff degree >= 1 and no monic factor of degree 1..deg/2 (non-monic: the monic associate); '
    'next_irreducible(a) = the MONIC irreducible polynomial of least integer value (base-p digits) above int(a) -- '
    'the real code only ever returns monic polynomials, so "smallest irreducible above a" is read as smallest monic one; '
    'find_irreducible(p, d) = least monic irreducible of degree d; GF/xGF accept iff irreducible.')
EXPLANATION = (
    'The oracle decides irreducibility by brute-force trial division whenever at most 3000 trial divisors are needed '
    '(all exhaustive domains, p = 11 up to degree 7, p = 101 up to degree 3); beyond that a found small factor proves '
    'reducibility and Rabin\'s test (written independently of the Ben-Or loop of the code) decides; both are '
    'cross-checked against each other and against the sieve of all products on the exhaustive domains in every run.')
ASSUMPTIONS = [
    'next_irreducible is specified on MONIC results (the docstring says "next monic irreducible polynomial")',
    'the generic list code instantiated at p = 2 (harness-made subclass) is only used for is_irreducible and '
    'next_irreducible above x; GF()/find_irreducible always go through GFpX(2) = BinaryPolynomial',
    'Lean nextirr/findirr get a fuel of 100000 loop passes (answer "nofuel" would be a mismatch)',
    'Python ints/lists/random and harness/gfpx_oracle.py are correct; random part is a seeded sample',
]
TRUSTED = ['harness/gfpx_oracle.py (trial division, sieve, Rabin test)', 'lean/Drv/GFpX.lean driver',
           'harness/py2lean_gfpx.py: the Python->Lean translation rules listed in its docstring (see props/c23.py)',
           'native compilation (lean -c + leanc) of the driver, cross-checked against the interpreter on a probe '
           'in every run (see props/c23.py prepare_driver)']

# Former genuine deviation of the real code, FIXED in /repo by commit f8e05fb (the oracle still recognises it and
# would report it under this key if it came back; the Lean model transcribes the fixed loop):
KNOWN_DEVIATIONS = {
    'C24-next-irreducible-skips-x': 'FIXED (f8e05fb): for odd p the generic _next_irreducible skipped every multiple of x '
                                    'including x itself: GF(3): next_irreducible(0) gave x+1 (expected x), '
                                    'finfields.find_irreducible(3, 1) gave x+1 (expected x).',
}
FINDING_X = 'C24-next-irreducible-skips-x'
FUEL = 100000
X = [0, 1]

# ---------------------------------------------------------------------------------------------
# oracle with memo (per worker process)
# ---------------------------------------------------------------------------------------------
_IRR = {}


def oracle_irr(p, a):
    a = O.norm(p, a)
    if O.deg(a) < 1:
        return False
    m = O.monic(p, a)                       # a non-monic polynomial is irreducible iff its monic associate is
    key = (p, O.to_int(p, m))
    r = _IRR.get(key)
    if r is None:
        r = _IRR[key] = O.is_irreducible(p, m)
    return r


def oracle_next(p, n):
    return O.next_irreducible(p, n, test=oracle_irr)


def chk_irr(D, args, obs):
    return B._is(obs, oracle_irr(D.p, args[0]))


def chk_gf(D, args, obs):
    return B._is(obs, True if oracle_irr(D.p, args[0]) else 'raises:ValueError')


def _skips_x(D, exp, obs):
    """the known deviation: the generic code never returns the polynomial x, it answers x + 1"""
    return (not D.bin) and exp == X and obs == [1, 1]


def chk_next(D, args, obs):
    p = D.p
    exp = oracle_next(p, O.to_int(p, args[0]))
    if obs != exp and _skips_x(D, exp, obs):
        return FINDING_X, exp
    if obs == exp and not (O.is_wellformed(p, obs) and obs[-1] == 1 and oracle_irr(p, obs)
                           and O.to_int(p, obs) > O.to_int(p, args[0])):
        return 'bad', exp
    return B._is(obs, exp)


def chk_find(D, args, obs):
    p, (d,) = D.p, args
    exp = O.find_irreducible(p, d, test=oracle_irr)
    if obs != exp and d == 1 and _skips_x(D, exp, obs):
        return FINDING_X, exp
    return B._is(obs, exp)


# ---------------------------------------------------------------------------------------------
# operations (registered in the table of c23 so that do_call / replay work unchanged)
# ---------------------------------------------------------------------------------------------
def _field_ok(D, a, F):
    d = a.degree()
    ok = (F.order == D.p ** d and F.modulus == a and type(F.modulus) is D.cls and F.characteristic == D.p
          and F.ext_deg == d and issubclass(F, finfields.FiniteFieldElement))
    return True if ok else f'bad-field:order={F.order},modulus={F.modulus},char={F.characteristic},ext_deg={F.ext_deg}'


V = B.V
B.defop('irr', 'P', 'B', chk_irr, [
    V('cls.is_irreducible(a)', lambda D, a: B.truth(D.cls.is_irreducible(a))),
    V('_is_irreducible', lambda D, a: B.truth(D.cls._is_irreducible(a.value))),
    V('cls.is_irreducible(int)', lambda D, a: B.truth(D.cls.is_irreducible(int(a)))),
    V('cls.is_irreducible(str)', lambda D, a: B.truth(D.cls.is_irreducible(str(a)))),
    V('cls.is_irreducible(list)', lambda D, a: B.truth(D.cls.is_irreducible(list(a)))),
], drv='irr')

# GF(modulus) accepts iff the model says irreducible: ValueError <-> "False"
B.defop('gf', 'P', 'B', chk_gf, [
    V('finfields.GF(a)', lambda D, a: _field_ok(D, a, finfields.GF(a))),
    V('finfields.xGF(a)', lambda D, a: _field_ok(D, a, finfields.xGF(a))),
], drv='irr', remap=lambda args, obs: (args, False if obs == 'raises:ValueError' else obs))


def _req_next(D, dargs, binfmt):
    return f'b.nextirr {FUEL} {B.fmtB(dargs[0])}' if binfmt else f'nextirr {D.p} {FUEL} {B.fmtL(dargs[0])}'


def _req_find(D, dargs, binfmt):
    return f'b.findirr {dargs[0]} {FUEL}' if binfmt else f'findirr {D.p} {dargs[0]} {FUEL}'


B.defop('nextirr', 'P', 'P', chk_next, [
    V('cls.next_irreducible(a)', lambda D, a: D.cls.next_irreducible(a)),
    V('_next_irreducible', lambda D, a: D.w(D.cls._next_irreducible(a.value))),
    V('cls.next_irreducible(int)', lambda D, a: D.cls.next_irreducible(int(a))),
    V('cls.next_irreducible(str)', lambda D, a: D.cls.next_irreducible(str(a))),
], drv='nextirr', req=_req_next,
    # binary class below x: BinaryPolynomial returns x, the generic code (and so the list model) skips it (known
    # deviation C24-next-irreducible-skips-x): only the bitmask model is compared there
    list_ok=lambda D, args: not (D.bin and O.to_int(2, args[0]) < 2))

B.defop('findirr', 'N', 'P', chk_find, [
    V('finfields.find_irreducible(p,d)', lambda D, d: finfields.find_irreducible(D.p, d)),
    V('GFpX(p).next_irreducible(p**d-1)', lambda D, d: B.gfpx.GFpX(D.p).next_irreducible(D.p ** d - 1)),
], drv='findirr', req=_req_find, list_ok=lambda D, args: not (D.bin and args[0] == 1))


# ---------------------------------------------------------------------------------------------
# jobs
# ---------------------------------------------------------------------------------------------
def _one(J, D, a, k, nvar, gf=True, nxt=True):
    B.do_op(J, D, 'irr', (a,), k, nvar)
    if gf and D.name != '2l':
        B.do_op(J, D, 'gf', (a,), k, None)
    if nxt and not (D.name == '2l' and O.to_int(2, a) < 2):
        B.do_op(J, D, 'nextirr', (a,), k, nvar)
    m = a[-1] == 1 if a else False
    J.count(f'{D.name}:{B.deg_bucket(a) if len(a) <= 4 else "deg" + str(len(a) - 1)}:'
            f'{"monic" if m else "non-monic"}:{"irreducible" if oracle_irr(D.p, a) else "reducible"}')


def job_exhaustive(J, D, js):
    p = D.p
    if 'list' in js:
        ns = js['list']
    else:
        lo, hi = js['range']
        ns = range(lo, hi)
    for n in ns:
        a = O.from_int(p, n)
        _one(J, D, a, n, js.get('nvar'))
        J.key(('poly', D.name, n))


def job_find(J, D, js):
    for d in js['degrees']:
        B.do_op(J, D, 'findirr', (d,), d, None)
        J.key(('find', D.name, d))
        J.count(f'{D.name}:find_irreducible')


def rand_case(rng, p, maxdeg, lowdeg=1):
    """(shape, polynomial): uniformly random / product of two factors / oracle-certified irreducible; sometimes
    multiplied by a unit (non-monic)"""
    d = rng.randrange(lowdeg, maxdeg + 1)
    shape = rng.choice(('uniform', 'uniform', 'product', 'irreducible', 'irreducible'))
    if shape == 'product' and d >= 2:
        d1 = rng.randrange(1, d)
        a = O.mul(p, B.rand_poly(rng, p, d1), B.rand_poly(rng, p, d - d1))
    elif shape == 'irreducible':
        start = p ** d + rng.randrange(p ** d)
        a = oracle_next(p, start)
        if O.deg(a) != d:
            a = O.find_irreducible(p, d, test=oracle_irr)
    else:
        shape = 'uniform'
        a = [rng.randrange(p) for _ in range(d)] + [1]
    if rng.random() < 0.35:
        a = O.scal(p, rng.randrange(1, p), a)
    return shape, a


def job_random(J, D, js):
    p = D.p
    rng = random.Random(js['seed'])
    for k in range(js['count']):
        shape, a = rand_case(rng, p, js['maxdeg'])
        B.do_op(J, D, 'irr', (a,), k, 1)
        B.do_op(J, D, 'gf', (a,), k, 1)
        J.count(f'{D.name}:random:{shape}:deg{O.deg(a)}:{"irreducible" if oracle_irr(p, a) else "reducible"}')
        J.key(('random', D.name, tuple(a)))
    for k in range(js['count_next']):
        shape, a = rand_case(rng, p, js['maxdeg_next'])
        if rng.random() < 0.5:                       # just below an irreducible / anywhere
            a = O.from_int(p, max(0, O.to_int(p, a) - rng.randrange(1, 4)))
        B.do_op(J, D, 'nextirr', (a,), k, 1)
        J.count(f'{D.name}:random-next:deg{O.deg(a)}')
        J.key(('random-next', D.name, tuple(a)))
    for k in range(js.get('count_brute', 0)):
        # keep the Rabin path of the oracle honest on this very domain: full brute force on a few inputs
        shape, a = rand_case(rng, p, js['deg_brute'], js['deg_brute'])
        if O.is_irreducible_brute(p, a) != oracle_irr(p, a) or O.is_irreducible_rabin(p, a) != oracle_irr(p, a):
            raise common.InfraError(f'oracle inconsistent (brute force vs Rabin) on p={p} a={a}')
        J.count(f'{D.name}:oracle-brute-vs-rabin')


def job_selfcheck(J, D, js):
    """trial division == sieve of products == Rabin on the whole exhaustive domain"""
    for p, maxdeg in js['domains']:
        irr = set(O.monic_irreducibles(p, maxdeg))
        for d in range(0, maxdeg + 1):
            for f in O.all_monic(p, d):
                v = O.to_int(p, f) in irr
                if O.is_irreducible_brute(p, f) != v or (d <= js['rabin_deg'] and O.is_irreducible_rabin(p, f) != v):
                    raise common.InfraError(f'oracle inconsistent on p={p} f={f}')
        J.count(f'oracle-selfcheck:{p}:deg<={maxdeg}:irreducibles', len(irr))


JOB_KINDS = {'exhaustive': job_exhaustive, 'find': job_find, 'random': job_random, 'selfcheck': job_selfcheck}


def build_jobs(ctx, nodriver=False):
    T = ctx.thorough
    jobs = []

    def add(kind, dname, weight, **kw):
        jobs.append(dict(kind=kind, dom=dname, weight=weight, nodriver=nodriver, **kw))

    # thorough: EVERY polynomial up to the degree D; quick: every polynomial up to degree Dq and a seeded sample of
    # `cnt` polynomials of the degrees Dq+1..D (the full sweep is left to the thorough tier: time budget)
    doms = (('2b', 12, 10, 8, 500), ('2l', 12, 10, 8, 300), ('3', 7, 6, 5, 700), ('5', 5, 4, 3, 900), ('7', 5, 4, 3, 900))
    if not nodriver:
        jobs.append(dict(kind='selfcheck', dom=None, weight=6, rabin_deg=6,
                         domains=[(2, 10), (3, 6), (5, 4), (7, 4)] if T else [(2, 8), (3, 5), (5, 3), (7, 3)]))
    for dname, DT, D, Dq, cnt in doms:
        p = 2 if dname in ('2b', '2l') else int(dname)
        n = p ** ((DT if T else Dq) + 1)
        for lo, hi in B._chunks(0, n, max(1, n // 2500)):
            add('exhaustive', dname, (hi - lo) * 1.2e-3, range=(lo, hi), nvar=1 if n > 4000 else 2 if n > 1000 else None)
        if n > 4000:   # all entry points on the low degrees
            add('exhaustive', dname, 1, range=(0, min(n, 600)), nvar=None)
        if not T:
            r = ctx.subrng('sample', dname)
            ns = sorted(set(r.randrange(n, p ** (D + 1)) for _ in range(cnt)))
            for lo, hi in B._chunks(0, len(ns), 2):
                add('exhaustive', dname, (hi - lo) * 2e-3, list=ns[lo:hi], nvar=1)
    # composite degrees matter: irreducible binomials X^d + c exist iff every prime factor of d divides p-1 (and 4 | p-1 if
    # 4 | d), e.g. (p, d) = (5, 8), (7, 9), (13, 8), (13, 9): the least irreducible is then X^d + c
    for dname, top in (('2b', 64 if T else 20), ('3', 16 if T else 10), ('5', 12 if T else 9), ('7', 10 if T else 9),
                       ('11', 10 if T else 6), ('13', 9), ('101', 4 if T else 3)):
        add('find', dname, 8 if dname == '2b' else 3, degrees=list(range(1, top + 1)))
    for p, cnt, cn, md, mdn, db in ((11, ctx.scale(300, 3000), ctx.scale(100, 1000), 12, 8, 4),
                                    (101, ctx.scale(300, 3000), ctx.scale(60, 600), 12, 5, 4)):
        parts = ctx.scale(3, 8)
        for part in range(parts):
            add('random', str(p), 6, count=-(-cnt // parts), count_next=-(-cn // parts), maxdeg=md, maxdeg_next=mdn,
                count_brute=ctx.scale(1, 4) if p == 101 else ctx.scale(4, 10), deg_brute=db,
                seed=ctx.subrng('random', p, part).getrandbits(64))
    return jobs


def xgf_correspondence(ctx):
    """finfields.xGF(modulus) vs the Lean model `xGF` (driver ops `xgf p a`, `b.xgf a`): the field parameters
    `order|ext_deg` or `ValueError`; every polynomial of small degree + a seeded random sample for p = 11, 101."""
    gfpx = B.gfpx
    reqs, impl, inputs = [], [], []

    def guarded(f):
        """run a call of the real code under the CPU-time watchdog of props/c23.py"""
        import signal
        if B._HAVE_ALARM:
            signal.setitimer(signal.ITIMER_VIRTUAL, B.CALL_TIMEOUT)
        try:
            return f()
        except B.RealCodeTimeout:
            return 'Timeout'
        except Exception as exc:  # ValueError expected for reducible moduli
            return type(exc).__name__
        finally:
            if B._HAVE_ALARM:
                signal.setitimer(signal.ITIMER_VIRTUAL, 0)

    def one(p, a):
        cls = gfpx.GFpX(p)

        def call():
            F = finfields.xGF(cls(O.to_int(p, a)))
            return f'{F.order}|{F.ext_deg}'
        obs = guarded(call)
        lines = [f'xgf {p} {B.fmtL(a)}']
        if p == 2:
            lines.append(f'b.xgf {O.to_int(2, a)}')
        for ln in lines:
            reqs.append(ln)
            impl.append(obs)
            inputs.append({'function': 'finfields.xGF', 'p': p, 'modulus': list(a), 'driver': ln})
        ctx.case(('xgf', p, tuple(a)))
        ctx.count(f'{p}:xgf:{"accepted" if "|" in obs else obs}')

    for p, maxdeg in ((2, ctx.scale(8, 10)), (3, ctx.scale(4, 5)), (5, 3), (7, ctx.scale(2, 3))):
        for n in range(p ** (maxdeg + 1)):
            one(p, O.from_int(p, n))
    rng = ctx.subrng('xgf')
    for p in (11, 101):
        for _ in range(ctx.scale(150, 1000)):
            d = rng.randrange(1, 7)
            a = [rng.randrange(p) for _ in range(d)] + [rng.randrange(1, p)]
            if rng.random() < 0.4:       # make irreducible inputs frequent: ask the real search for one
                r = guarded(lambda: list(gfpx.GFpX(p).next_irreducible(O.to_int(p, a[:-1] + [1]))))
                if isinstance(r, list):
                    a = r
            one(p, a)
    model = B.drive(reqs)
    ctx.compare('xgf', impl, model, inputs)


def run(ctx):
    B.prepare_driver(ctx)
    jobs = build_jobs(ctx)
    B.run_jobs(ctx, jobs, __name__)
    xgf_correspondence(ctx)
    ctx.note(f'{len(jobs)} jobs + xgf correspondence')


def generate(ctx):
    """source translator (shared with C23): current mpyc/gfpx.py -> lean/MpycV/Generated/GfpxSrc.lean"""
    B.generate(ctx)


def search(ctx):
    """Bigger oracle-only search on the real code (no Lean driver); when the source tie broke, the changed methods are
    reported and the quick domain is swept first without the driver."""
    changed, reach, ops = B.affected_ops()
    if changed:
        ctx.note('source tie: changed methods ' + ', '.join(changed) + '; reached: ' + ', '.join(reach))
    B.run_jobs(ctx, build_jobs(ctx, nodriver=True), __name__)
    if ctx.violations:
        return
    jobs = []
    for p, md, mdn in ((2, 24, 16), (3, 16, 10), (5, 12, 8), (7, 10, 7), (11, 12, 8), (13, 10, 6), (31, 8, 5),
                       (101, 10, 5), (257, 6, 4)):
        for part in range(2):
            jobs.append(dict(kind='random', dom=str(p), weight=1, nodriver=True, count=ctx.scale(600, 4000),
                             count_next=ctx.scale(150, 1000), maxdeg=md, maxdeg_next=mdn, count_brute=0, deg_brute=2,
                             seed=ctx.subrng('search', p, part).getrandbits(64)))
    B.run_jobs(ctx, jobs, __name__)


def replay(ctx, data):
    return B.replay(ctx, data)
