"""C18 — values opened inside protocols are statistically masked.

Model: lean/MpycV/Model/Share.lean (`maskBound`, the rounding of the mask range the code performs);
theorems MpycV.C18 (mask_sd, low_bits_perfect, mult_blinding, prss_mask_component, maskBound_ge and the
per-site instantiations).  NOT proved: a composable simulation argument for whole programs
(`…_partial`): the claim is per opening.
Tie: in multi-party simulator runs every value opened inside sgn / trunc / lsb / _mod / to_bits /
is_zero_public / reciprocal is logged together with the plaintext the harness chose; (a) every mask
range requested by a protocol and the effective PRF / randbelow bound derived from it is compared with
the Lean `maskBound` (driver Share), (b) over N independently seeded runs with the SAME secret input the
mask = opened value − secret-dependent part must span the bit length the model predicts
(max within [B/8·2^s, C·B·2^s + slack]) and the opened values must be pairwise distinct (multiplicative
blinding: distinct and non-zero for non-zero input, exactly 0 for zero input), (c) the low bit of the
opened values is balanced (two-sided binomial test at 1e-9), (d) SHARE level (zero_test_views): for every value opened
inside is_zero_public / reciprocal the shares b_i handed to Runtime.output by ALL parties are compared with the products of
the operand shares (a_i*r_i resp. r_i*s_i, logged by sharemon): the residual must be a fresh, non-zero sharing of zero of
degree <= 2t (theorem rerandomized_shares_view); a zero residual means the product polynomial itself is opened
(theorem product_shares_distinguish) and the oracle then runs the single-party attack (factor the quadratic, m=3, t=1) to
exhibit the candidates a party computes for another party's secret.  This found the defect repaired by repo commit 4c3ba5b.
"""
import math
import os
import sys
sys.path.insert(0, os.path.dirname(os.path.dirname(os.path.abspath(__file__))))
import simnet
from simnet import SimNet, Scheduler, Deadlock, PartyError
import sharemon
import common

LEVEL = 'other'
LEAN_MODULES = ['MpycV.Props.C18']
LEAN_NAMESPACES = ['MpycV.C18']
REQUIRED_THEOREMS = ['mask_sd', 'low_bits_perfect', 'mult_blinding', 'prss_mask_component', 'rerandomized_shares_view',
                     'product_shares_distinguish',
                     # the sites behind extra_sites(): what the repaired code requests suffices, what it requested before did not
                     'np_trunc_mask_parameter', 'np_trunc_old_mask_insufficient', 'pow_mask_total', 'pow_old_mask_small',
                     'to_bits_bin_perfect', 'to_bits_bin_short_mask_leaks', 'sincos_turns_mask']
RULE = ('case = one opening site (sgn, trunc, lsb, _mod, to_bits, is_zero_public, reciprocal) x configuration (m, t, PRSS '
        'on/off, sec_param k in {8, 30}, bit length l) x secret input, repeated over N seeds; plus share-level view cases: '
        '(is_zero_public | reciprocal) x type in {SecInt(16), SecFld(8191), SecFld(2^61-1)} (small / medium / large relative '
        'to k) x the same configurations x two secrets; distinct = (site, cfg, input); non-trivial = t >= 1')
EXPLANATION = ('PROVED (Lean): the statistical-distance / perfect-masking lemmas for additive masks, the bijection behind '
               'multiplicative blinding, the existence of a PRSS key unknown to any coalition of <= t parties, and the lower '
               'bound on the rounded mask range the code computes. TIED: mask bounds requested and derived by the real code vs '
               'the Lean maskBound; observed mask ranges / distinctness / balance over repeated runs. NOT PROVED: composition '
               'of the per-opening statements into a whole-view simulation for arbitrary programs.')
ASSUMPTIONS = ['PRF outputs and secrets.randbelow are uniform (SHAKE128 as PRF: trusted)',
               'statistical tests have false-alarm probability < 1e-9 per test']


def eff_bound(bound, m, t, no_prss):
    d = (t + 1) if no_prss else math.comb(m, t)
    return 1 << max(0, (bound // d).bit_length() - 1)


def site_program(site, a_val, l, f):
    async def prog(mpc):
        if site in ('trunc',):
            T = mpc.SecFxp(l, f)
            a = mpc.input(T(a_val), senders=0)
            b = mpc.input(T(1.5), senders=0)
            r = a * b
        else:
            T = mpc.SecInt(l)
            a = mpc.input(T(a_val), senders=0)
            if site == 'sgn':
                r = a < 0
            elif site == 'lsb':
                r = mpc.lsb(a)
            elif site == '_mod':
                r = a % 3
            elif site == 'to_bits':
                r = mpc.to_bits(a)[0]
            elif site == 'to_bits_l':
                r = mpc.to_bits(a, 2)[0]
            elif site == 'is_zero_public':
                return await mpc.is_zero_public(a)
            elif site == 'reciprocal':
                Fp = mpc.SecFld(2**61 - 1)
                x = mpc.input(Fp(a_val % (2**61 - 1)), senders=0)
                return int(await mpc.output(mpc.reciprocal(x))) if a_val else 0
        return await mpc.output(r)
    return prog


def secret_part(site, a_val, l, f):
    """the secret-dependent part of the opened value (an integer), by the protocol's definition"""
    if site == 'sgn':
        return a_val + (1 << l)
    if site == 'lsb':
        return a_val + (1 << l)
    if site == '_mod':
        return a_val + (1 << l) - ((1 << l) % 3)
    if site in ('to_bits', 'to_bits_l'):
        return a_val + (1 << l)
    if site == 'trunc':
        raw = round(a_val * 2**f) * round(1.5 * 2**f)
        return raw + (1 << (l + f - 1))
    return None


def mask_window(site, k, l, f, m, t, no_prss):
    """(lo, hi): the maximum observed mask over many runs must lie in [lo, hi)"""
    d = (t + 1) if no_prss else math.comb(m, t)
    if site == 'sgn':
        B = eff_bound(1 << k, m, t, no_prss)
        return (B << l) // 8, ((d * B) << l) + (1 << l)
    if site == 'lsb':
        B = eff_bound(1 << (l + k - 1), m, t, no_prss)
        return B // 4, 2 * d * B + 2
    if site == '_mod':
        B = eff_bound((1 << (k + l)) // 3, m, t, no_prss)
        return 3 * B // 8, 3 * d * B + 3
    if site == 'to_bits':
        B = eff_bound(1 << k, m, t, no_prss)
        return (B << l) // 8, ((d * B) << l) + (1 << l)
    if site == 'to_bits_l':
        B = eff_bound(1 << (l + k - 2), m, t, no_prss)
        return (B << 2) // 8, ((d * B) << 2) + 4
    if site == 'trunc':
        lf = l + f
        B = eff_bound(1 << (k + lf - f), m, t, no_prss)
        return (B << f) // 8, ((d * B) << f) + (1 << f)
    return None


def expected_requests(site, k, l, f):
    """mask ranges the protocol must request (the model's per-site table), in call order"""
    return {'sgn': [1 << k], 'lsb': [1 << (l + k - 1)], '_mod': [(1 << (k + l)) // 3], 'to_bits': [1 << k],
            'to_bits_l': [1 << (l + k - 2)], 'trunc': [1 << (k + l + f - f)]}.get(site)


def run_site(site, a_val, l, f, m, t, no_prss, k, seed):
    net = SimNet(m, t, no_prss=no_prss, seed=seed, sched=Scheduler(seed, 'random'), sec_param=k, max_steps=1_000_000)
    with sharemon.ShareMonitor(net, record_results=False) as mon:
        res = net.run(site_program(site, a_val, l, f))
    return net, mon, res


# ---------------------------------------------------------------------------------------------------------
# zero tests / reciprocal: the SHARES of the opened value are part of the coalition's view
# ---------------------------------------------------------------------------------------------------------
KEY_VIEW = 'C18-zero-test-product-not-rerandomized'
VIEW_TYPES = [('int', 16), ('fld', 8191), ('fld', 2**61 - 1)]


def _sqrt_mod(n, p):
    """Tonelli-Shanks (independent of the repo); returns None for non-residues"""
    n %= p
    if n == 0:
        return 0
    if pow(n, (p - 1) // 2, p) != 1:
        return None
    if p % 4 == 3:
        return pow(n, (p + 1) // 4, p)
    q, s_ = p - 1, 0
    while q % 2 == 0:
        q //= 2
        s_ += 1
    z = 2
    while pow(z, (p - 1) // 2, p) != p - 1:
        z += 1
    m_, c, t_, r = s_, pow(z, q, p), pow(n, q, p), pow(n, (q + 1) // 2, p)
    while t_ != 1:
        i, t2 = 0, t_
        while t2 != 1:
            t2 = t2 * t2 % p
            i += 1
        b = pow(c, 1 << (m_ - i - 1), p)
        m_, c, t_, r = i, b * b % p, t_ * b * b % p, r * b % p
    return r


def attack_t1(p, shares_b, i, a_i, r_i):
    """What party i (x-coordinate i+1) learns for t = 1, m = 3 from the three opened shares of b = a*r when they are the
    plain products: P(X) = A(X)R(X) with A, R linear; A(i+1) = a_i and R(i+1) = r_i known.  Returns the candidates for a."""
    xs = [1, 2, 3]
    # coefficients of the quadratic through the three points (Lagrange, mod p)
    inv = lambda v: pow(v % p, p - 2, p)
    c0 = c1 = c2 = 0
    for j in range(3):
        k, l = [u for u in range(3) if u != j]
        d = inv((xs[j] - xs[k]) * (xs[j] - xs[l]))
        w = shares_b[j] * d % p
        c2 = (c2 + w) % p
        c1 = (c1 - w * (xs[k] + xs[l])) % p
        c0 = (c0 + w * xs[k] * xs[l]) % p
    if c2 == 0:
        return None
    disc = _sqrt_mod((c1 * c1 - 4 * c2 * c0) % p, p)
    if disc is None:
        return None
    roots = {(-c1 + disc) * inv(2 * c2) % p, (-c1 - disc) * inv(2 * c2) % p}
    x = i + 1
    cands = []
    for rho in roots:                       # A(X) = a1 (X - rho), A(x) = a_i
        if (x - rho) % p == 0:
            continue
        a1 = a_i * inv(x - rho) % p
        a0 = -a1 * rho % p
        r1 = c2 * inv(a1) % p if a1 else None
        other = [u for u in roots if u != rho] or [rho]
        if r1 is not None and r1 * (x - other[0]) % p == r_i % p:   # consistent with the own share of r
            cands.append(a0)
    return cands


def view_program(kind, tspec, a_val):
    async def prog(mpc):
        T = mpc.SecInt(tspec[1]) if tspec[0] == 'int' else mpc.SecFld(tspec[1])
        a = mpc.input(T(a_val), senders=0)
        sh = await mpc.gather(a)
        if kind == 'is_zero_public':
            res = bool(await mpc.is_zero_public(a))
        else:
            res = int(await mpc.output(mpc.reciprocal(a)))
        return int(sh.value), int(T.field.modulus), res
    return prog


def view_case(kind, tspec, a_val, m, t, no_prss, k, seed):
    """Returns (message or None, details).  For every value opened inside the zero test / reciprocal the parties hand
    shares b_i to Runtime.output; with the operand shares x_i, y_i of the product being opened (a_i, r_i resp. r_i, s_i)
    the residual Z_i = b_i - x_i*y_i must be a FRESH non-zero sharing of zero: otherwise the opened degree-2t polynomial
    is the product polynomial A(X)R(X), whose roots together with its own shares A(i), R(i) give a party the secret."""
    net = SimNet(m, t, no_prss=no_prss, seed=seed, sched=Scheduler(seed, 'random'), sec_param=k, max_steps=1_000_000)
    with sharemon.ShareMonitor(net, record_results=False) as mon:
        res = net.run(view_program(kind, tspec, a_val))
    p = res[0][1]
    a_sh = [r[0] for r in res]
    per_party = []
    for i in range(m):
        evs = [e for e in mon.events[i] if e[1] == kind]
        recs, last = [], None
        for e in evs:
            if e[0] == 'rand':
                last, used = e[2], 0
            elif e[0] == 'open' and last is not None and e[3] and e[3][0] is not None:
                if len(last) == 2 and used == 0:
                    recs.append(('rs', e[2], e[3][0], last[0] * last[1] % p))
                else:
                    recs.append(('b', e[2], e[3][0], a_sh[i] * last[0] % p))
                used += 1
        per_party.append(recs)
    n = len(per_party[0])
    if n == 0 or any(len(r) != n for r in per_party):
        return f'{kind}: could not align the openings of the parties ({[len(r) for r in per_party]})', {}
    resid = []
    for j in range(n):
        what = per_party[0][j][0]
        z = [(per_party[i][j][2] - per_party[i][j][3]) % p for i in range(m)]
        thr = per_party[0][j][1]
        pts = [(i + 1, z[i]) for i in range(m)]
        if sharemon.interpolate_at(pts[:2 * t + 1], 0, p) != 0 or not sharemon.consistent(z, 2 * t, p):
            return (f'{kind}: opened shares of {what} minus the product of the operand shares is not a sharing of 0 of degree '
                    f'<= 2t: {z}'), {'residual': z}
        if t >= 1 and all(v == 0 for v in z):
            det = {'opening': what, 'index': j, 'threshold': thr}
            extra = ''
            if what == 'b' and t == 1 and m == 3:
                r2 = [e for e in mon.events[2] if e[1] == kind and e[0] == 'rand'][-1][2][0]
                cands = attack_t1(p, [per_party[i][j][2] for i in range(3)], 2, a_sh[2], r2)
                det['party2_candidates_for_secret'] = cands
                extra = (f'; party 2 (not the input party) alone narrows the secret input {a_val % p} of party 0 down to the '
                         f'candidates {cands}')
            return (f'{kind}: the shares of {what} opened (threshold {thr}) are exactly the products of the parties\' shares: '
                    f'the degree-2t product polynomial is opened without re-randomisation, every party can factor it and '
                    f'learn the secret operand' + extra), det
        resid.append(tuple(z))
    if t >= 1 and len(set(resid)) != len(resid):
        return f'{kind}: the same zero sharing re-randomises two different openings of one run', {'residuals': resid}
    return None, {'openings': n}


def zero_test_views(ctx):
    rng = ctx.subrng('views')
    cfgs = [(3, 1, False, 30), (3, 1, True, 30), (5, 2, False, 30), (5, 2, True, 8), (4, 1, False, 8)]
    for (m, t, no_prss, k) in cfgs:
        for kind in ('is_zero_public', 'reciprocal'):
            for tspec in VIEW_TYPES:
                if kind == 'reciprocal' and tspec[0] == 'int':
                    continue
                for a_val in (5, 7):
                    for _ in range(ctx.scale(1, 6)):
                        seed = rng.randrange(10**9)
                        rep = {'kind': 'view', 'site': kind, 'type': list(tspec), 'a': a_val, 'm': m, 't': t,
                               'no_prss': no_prss, 'k': k, 'seed': seed}
                        try:
                            msg, det = view_case(kind, tspec, a_val, m, t, no_prss, k, seed)
                        except (Deadlock, PartyError) as exc:
                            ctx.violation(f'C18: {kind} does not run: {str(exc)[:200]}', rep)
                            return
                        ctx.case(('view', kind, tuple(tspec), a_val, m, t, no_prss, k, seed), nontrivial=t >= 1)
                        ctx.count('view:' + kind)
                        if msg:
                            rep.update(det)
                            if 'without re-randomisation' in msg:
                                rep['finding_key'] = KEY_VIEW
                            ctx.violation('C18: ' + msg, rep)
                            if 'finding_key' not in rep:
                                return
                            break


# ---------------------------------------------------------------------------------------------------------
# generic rule: a sharing opened with a threshold above t (a product of sharings) must be re-randomised
# ---------------------------------------------------------------------------------------------------------
async def _eq_prog(mpc):
    """equality tests of wide integers ([NO07] probabilistic zero test) and public zero tests / reciprocals"""
    T = mpc.SecInt(64)
    x = mpc.input(T(12345678901), senders=0)
    y = mpc.input(T(-77), senders=0)
    F = mpc.SecFld(2**61 - 1)
    u = mpc.input(F(7), senders=0)
    r = [x == y, x == x + 0, mpc.is_zero(y), x != y, 1 / u, u / (u + 1)]
    z = await mpc.is_zero_public(u)
    return [int(v) for v in await mpc.output(r)] + [bool(z)]


def degree_rule_case(name, prog, m, t, no_prss, k, seed):
    net = SimNet(m, t, no_prss=no_prss, seed=seed, sched=Scheduler(seed, 'random'), sec_param=k, max_steps=3_000_000)
    with sharemon.ShareMonitor(net, record_results=False) as mon:
        net.run(prog)
    n_open = 0
    for i in range(m):
        zeros = {}
        for e in mon.events[i]:
            if e[0] == 'zero':
                zeros[e[3]] = zeros.get(e[3], 0) + e[2]
            elif e[0] == 'open' and e[2] is not None and e[2] > t:
                n_open += 1
                have = zeros.get(e[4], 0)
                if have < e[5]:
                    return (f'{e[1]} opens {e[5]} value(s) with threshold {e[2]} > t = {t} (a product of sharings) but drew only '
                            f'{have} fresh sharings of zero before: the product polynomial is opened as it is'), n_open
                zeros[e[4]] = have - e[5]
    return None, n_open


def _poly_coeffs(points, p):
    """coefficients (low to high) of the polynomial of degree < len(points) through the points, mod p (Gauss elimination)"""
    n = len(points)
    A = [[pow(x, j, p) for j in range(n)] + [y % p] for x, y in points]
    for c in range(n):
        piv = next(r for r in range(c, n) if A[r][c] % p)
        A[c], A[piv] = A[piv], A[c]
        inv = pow(A[c][c], p - 2, p)
        A[c] = [v * inv % p for v in A[c]]
        for r in range(n):
            if r != c and A[r][c]:
                f_ = A[r][c]
                A[r] = [(a - f_ * b) % p for a, b in zip(A[r], A[c])]
    return [A[j][n] for j in range(n)]


def zero_sharing_independence(ctx):
    """PRSS zero sharings drawn in ONE call (random_bits, _is_zero draw several) must be independent: over a large field no
    non-constant coefficient of one sharing polynomial may reappear in another one of the same batch"""
    rng = ctx.subrng('zero-independence')
    for (m, t, k) in [(5, 2, 30), (5, 2, 8)] + ([(7, 3, 30), (7, 2, 30), (6, 2, 30)] if ctx.thorough else []):
        seed = rng.randrange(10**9)

        async def prog(mpc):
            T = mpc.SecInt(32)
            bits = mpc.random_bits(T, 5)
            x = mpc.input(T(12345), senders=0)
            e = mpc.is_zero(x) if False else (x == 7)
            return [int(v) for v in await mpc.output(bits + [e])]
        rep = {'kind': 'zero-independence', 'm': m, 't': t, 'k': k, 'seed': seed}
        net = SimNet(m, t, seed=seed, sched=Scheduler(seed, 'random'), sec_param=k, max_steps=3_000_000)
        try:
            with sharemon.ShareMonitor(net, record_results=False) as mon:
                net.run(prog)
        except (Deadlock, PartyError) as exc:
            ctx.violation(f'C18: zero-sharing program does not run: {str(exc)[:200]}', rep)
            return
        ncalls = len(mon.zero_shares[0])
        for c in range(ncalls):
            origin, p, uci, _ = mon.zero_shares[0][c]
            n = len(mon.zero_shares[0][c][3])
            if n < 2 or p < 2 ** 40:
                continue
            polys = []
            for h in range(n):
                pts = [(i + 1, mon.zero_shares[i][c][3][h]) for i in range(m)]
                co = _poly_coeffs(pts[:2 * t + 1], p)
                if co[0] != 0 or any(sharemon.interpolate_at(pts[:2 * t + 1], x, p) != y for x, y in pts):
                    ctx.violation(f'C18: {origin}: PRSS zero sharing {h} of a batch is not a degree-2t sharing of 0', rep)
                    return
                polys.append(co[1:])
            ctx.case(('zero-independence', m, t, k, c), nontrivial=True)
            ctx.count('zero-sharing-batches')
            seen = {}
            for h, co in enumerate(polys):
                for j, v in enumerate(co):
                    if v != 0 and v in seen and seen[v][0] != h:
                        ctx.violation(f'C18: {origin}: zero sharings {seen[v][0]} and {h} of one batch (m={m}, t={t}) share the '
                                      f'coefficient of X^{seen[v][1] + 1} / X^{j + 1}: they are not independent, a coalition of t '
                                      f'parties can relate the values they re-randomise', rep)
                        return
                    seen.setdefault(v, (h, j))


def degree_rule(ctx):
    import programs
    rng = ctx.subrng('degree-rule')
    progs = [('eq_wide', _eq_prog)] + [(n, programs.PROGRAMS[n][0]()) for n in ('arith', 'fxp', 'bits_sort', 'fld_conv', 'secflt')
                                      if n in programs.PROGRAMS]
    for (m, t, no_prss, k) in [(3, 1, False, 30), (3, 1, True, 30), (5, 2, False, 8)] + ([(5, 2, True, 30)] if ctx.thorough else []):
        for name, prog in progs:
            seed = rng.randrange(10**9)
            rep = {'kind': 'degree-rule', 'program': name, 'm': m, 't': t, 'no_prss': no_prss, 'k': k, 'seed': seed}
            try:
                msg, n_open = degree_rule_case(name, prog, m, t, no_prss, k, seed)
            except (Deadlock, PartyError) as exc:
                ctx.violation(f'C18: program {name} does not run: {str(exc)[:200]}', rep)
                return
            ctx.case(('degree-rule', name, m, t, no_prss, k), nontrivial=n_open > 0)
            ctx.count('degree-rule-openings', n_open)
            if msg:
                ctx.violation('C18: ' + msg, rep)
                return


def mod_residue_case(a_val, b, m, t, no_prss, reps, seed):
    """the residues (mod b) of the values opened inside `_mod` for `reps` reductions of one secret"""
    async def prog(mpc):
        secint = mpc.SecInt(16)
        x = mpc.input(secint(a_val), senders=0)
        ys = [x % b for _ in range(reps)]
        return [int(v) for v in await mpc.output(ys)]
    net = SimNet(m, t, no_prss=no_prss, seed=seed, sched=Scheduler(seed, 'random'), sec_param=30, max_steps=3_000_000)
    with sharemon.ShareMonitor(net, record_results=False) as mon:
        res = net.run(prog)
    if any(r != [a_val % b] * reps for r in res):
        return None, f'{a_val} % {b} opened {res[0][:5]}'
    resid = [(v[1] % v[0]) % b for o in mon.opened[0] if o[0] == '_mod' for v in o[1] if isinstance(v[0], int)]
    return resid, None


def mod_residues(ctx):
    """`a % b` for public b opens c = a - r_modb + b*(...) with r_modb drawn by random._randbelow: c mod b = (a - r_modb) mod b
    must be UNIFORM on range(b) whatever a is (b not a power of two: the rejection branch of _randbelow is taken; a restart
    that reuses a revealed bit biases r_modb and with it c mod b as a function of a mod b)"""
    import randstat_oracle as ro
    rng = ctx.subrng('mod-residues')
    reps = ctx.scale(150, 600)
    for b in (3, 5, 6, 7) + ((11, 12) if ctx.thorough else ()):
        hist = {}
        for a_val in (1, 1 + b, 2 * b + 2):
            for (m, t, no_prss) in ((1, 0, False), (3, 1, rng.random() < 0.5)):
                seed = rng.randrange(10**9)
                rep = {'kind': 'mod-residues', 'a': a_val, 'b': b, 'm': m, 't': t, 'no_prss': no_prss, 'reps': reps, 'seed': seed}
                try:
                    resid, msg = mod_residue_case(a_val, b, m, t, no_prss, reps if m == 1 else reps // 3, seed)
                except (Deadlock, PartyError) as exc:
                    ctx.violation(f'C18: {a_val} % {b} does not run: {str(exc)[:200]}', rep)
                    return
                if msg:
                    ctx.violation('C18: ' + msg, rep)
                    return
                ctx.case(('mod-residues', a_val, b, m, no_prss), nontrivial=True)
                ctx.count('mod-residue-openings', len(resid))
                h = hist.setdefault(a_val % b, [0] * b)
                for r_ in resid:
                    h[r_] += 1
        for amod, h in hist.items():
            p = ro.chi2_uniform_p(h)
            if p < 1e-9:
                ctx.violation(f'C18: value opened inside _mod for a = {amod} (mod {b}): its residue mod {b} is not uniform over '
                              f'{sum(h)} reductions: counts {h} (chi-square p = {p:.3g}); it must not depend on a',
                              {'kind': 'mod-residues-balance', 'b': b, 'a_mod_b': amod, 'counts': h, 'seed': ctx.seed})
                return


# ---------------------------------------------------------------------------------------------------------
# further opening sites (found by defect hunting, repaired in /repo: be33b70, 3c924f8, ccbb4b9, b17c81b)
# ---------------------------------------------------------------------------------------------------------
def _extra_prog(site, a_val):
    async def prog(mpc):
        import numpy as np
        if site == 'np_trunc':
            T = mpc.SecFxp(16, 8)
            a = mpc.input(T.array(np.array([a_val, 1.0])), senders=0)
            b = mpc.input(T.array(np.array([1.5, -2.0])), senders=0)
            return [float(v) for v in await mpc.output(a * b)]
        if site == 'np_pow':
            T = mpc.SecFxp(16, 8)
            b = T.array(np.array([float(a_val), 0.0]))          # public constants as secure (integral) exponents
            b = b + mpc.input(T.array(np.array([0.0, 0.0])), senders=0)
            return [float(v) for v in await mpc.output(2 ** b)]
        if site in ('to_bits_gf2', 'np_to_bits_gf2'):
            T = mpc.SecFld(2 ** 8)
            if site == 'to_bits_gf2':
                a = mpc.input(T(a_val), senders=0)
                return [int(v) for v in await mpc.output(mpc.to_bits(a, 4))]
            a = mpc.input(T.array(np.array([a_val, a_val ^ 0xF0])), senders=0)
            return [int(v) for v in (await mpc.output(mpc.np_to_bits(a, 4))).reshape(-1)]
        if site == 'sincos':
            T = mpc.SecFxp(24, 8)
            a = mpc.input(T(a_val), senders=0)
            return [float(v) for v in await mpc.output(list(mpc.sincos(a)))]
    return prog


def extra_sites(ctx, only=None):
    """np_trunc (fixed-point ARRAY products), public base ** secret integral exponents, to_bits over binary fields with
    l < n, sincos: the mask must cover everything of the secret that the opened value contains"""
    rng = ctx.subrng('extra-sites')
    N = ctx.scale(16, 120)
    cfgs = [(3, 1, False, 30), (3, 1, True, 30), (5, 2, False, 8)] + ([(5, 2, True, 30), (4, 1, False, 30)] if ctx.thorough else [])
    table = {'np_trunc': ('np_trunc', [-9.25, 1.25]), 'np_pow': ('_np_pow_public_int_base_secret_integral_exponent', [3, 6]),
             'to_bits_gf2': ('to_bits', [0x35, 0xC5]), 'np_to_bits_gf2': ('np_to_bits', [0x35, 0xC5]),
             'sincos': ('sincos', [0.5, 100.25])}
    for (m, t, no_prss, k) in cfgs:
        d = (t + 1) if no_prss else math.comb(m, t)
        for site, (origin, inputs) in table.items():
            if only and site != only:
                continue
            if site == 'sincos' and not ctx.thorough and (m, no_prss) != (3, False):
                continue
            for a_val in inputs:
                vals, bounds = [], None
                for n in range(N if site != 'sincos' else max(4, N // 4)):
                    seed = rng.randrange(10**9)
                    rep = {'kind': 'extra-site', 'site': site, 'a': a_val, 'm': m, 't': t, 'no_prss': no_prss, 'k': k, 'seed': seed}
                    net = SimNet(m, t, no_prss=no_prss, seed=seed, sched=Scheduler(seed, 'random'), sec_param=k, max_steps=3_000_000)
                    try:
                        with sharemon.ShareMonitor(net, record_results=False) as mon:
                            res = net.run(_extra_prog(site, a_val))
                    except (Deadlock, PartyError) as exc:
                        ctx.violation(f'C18: site {site} does not run: {str(exc)[:200]}', rep)
                        return
                    ops = [o for o in mon.opened[0] if o[0] == origin]
                    if not ops or not ops[0][1]:
                        ctx.violation(f'C18: no value opened by {site} ({origin})', rep)
                        return
                    vals.append(ops[0][1][0])
                    if bounds is None:
                        bounds = [b for o, b in mon.mask_bounds[0] if o == (origin if site != 'sincos' else '_random')]
                ctx.case(('extra', site, m, t, no_prss, k, a_val), nontrivial=t >= 1)
                ctx.count('site:' + site)
                rep = {'kind': 'extra-sitestat', 'site': site, 'a': a_val, 'm': m, 't': t, 'no_prss': no_prss, 'k': k, 'N': len(vals)}
                if site == 'np_trunc':
                    l, f = 16, 8
                    want = 1 << (k + l)
                    if bounds != [want]:
                        ctx.violation(f'C18: np_trunc of a fixed-point array product requests mask ranges '
                                      f'{[b.bit_length() - 1 for b in bounds]} (log2), the masking argument (and trunc for scalars) '
                                      f'needs {want.bit_length() - 1}: the double-scaled product has l + f bits', rep)
                        return
                    sp = round(a_val * 2**f) * round(1.5 * 2**f) + (1 << (l + f - 1))
                    B = eff_bound(want, m, t, no_prss)
                    mx = max((cv - sp) % p for p, cv in vals)
                    if not ((B << f) // 8 <= mx < ((d * B) << f) + (1 << f)):
                        ctx.violation(f'C18: np_trunc: largest mask over {len(vals)} runs has {mx.bit_length()} bits, expected about '
                                      f'{(B << f).bit_length()}', rep)
                        return
                elif site == 'np_pow':
                    l, f = 16, 8
                    want = (1 << (l - f + k)) // (t + 1)          # per sender; the exponents are (l-f)-bit integers
                    mx = max(((cv - (a_val << f)) % p) >> f for p, cv in vals)
                    if not (want // 8 <= mx <= (t + 1) * want):
                        ctx.violation(f'C18: public base ** secret exponent: the mask r in the opened b + r has at most '
                                      f'{mx.bit_length()} bits over {len(vals)} runs, hiding the (l-f)-bit exponent to 2^-k needs '
                                      f'about {((t + 1) * want).bit_length()} bits (mask bound per sender (2^(l-f+k))/(t+1))', rep)
                        return
                elif site in ('to_bits_gf2', 'np_to_bits_gf2'):
                    hi = {cv >> 4 for _tag, cv in vals}
                    if len(hi) < min(4, len(vals) // 3):
                        ctx.violation(f'C18: to_bits(a, 4) over GF(2^8) opens a + r with the upper bits of a unmasked: upper nibble '
                                      f'of the opened value over {len(vals)} runs takes the values {sorted(hi)} (a = {a_val:#x})', rep)
                        return
                elif site == 'sincos':
                    l, f = 24, 8
                    want = 1 << (k + l - f)
                    if bounds != [want]:
                        ctx.violation(f'C18: sincos requests mask ranges {[b.bit_length() - 1 for b in bounds]} (log2); the opened '
                                      f'value contains a / 2 pi, which has l - f bits more than one turn: needs '
                                      f'{want.bit_length() - 1}', rep)
                        return


def binom_two_sided_ok(ones, n, alpha=1e-9):
    """is `ones` out of n fair coin flips plausible? (exact binomial tail bound via Hoeffding, conservative)"""
    if n == 0:
        return True
    dev = abs(ones - n / 2)
    return 2 * math.exp(-2 * dev * dev / n) > alpha


def run(ctx):
    rng = ctx.rng
    lines, exps, metas = [], [], []
    N = ctx.scale(24, 300)
    cfgs = [(3, 1, False, 30), (3, 1, True, 30), (5, 2, False, 30), (5, 2, True, 8), (4, 1, False, 8)]
    if ctx.thorough:
        cfgs += [(7, 3, False, 30), (7, 2, True, 30), (5, 1, False, 30)]
    sites = ['sgn', 'lsb', '_mod', 'to_bits', 'to_bits_l', 'trunc', 'is_zero_public', 'reciprocal']
    for (m, t, no_prss, k) in cfgs:
        for site in sites:
            l, f = (16, 0) if site != 'trunc' else (16, 8)
            for a_val in ([-37, 5] if site not in ('is_zero_public', 'reciprocal') else [0, 12345]):
                if site == 'trunc':
                    a_val = a_val / 4
                if site == 'reciprocal' and a_val == 0:
                    continue
                opened_all, masks = [], []
                for n in range(N):
                    seed = rng.randrange(10**9)
                    rep = {'kind': 'site', 'site': site, 'a': a_val, 'l': l, 'f': f, 'm': m, 't': t, 'no_prss': no_prss,
                           'k': k, 'seed': seed}
                    try:
                        net, mon, res = run_site(site, a_val, l, f, m, t, no_prss, k, seed)
                    except (Deadlock, PartyError) as exc:
                        ctx.violation(f'C18: site {site} does not run: {str(exc)[:200]}', rep)
                        return
                    # (a) bounds
                    if n == 0:
                        want = expected_requests(site, k, l, f)
                        got = [b for _o, b in mon.mask_bounds[0]]
                        if want is not None and got != want:
                            ctx.violation(f'C18: site {site} requests mask ranges {[x.bit_length() - 1 for x in got]} (log2), the '
                                          f'masking argument needs {[x.bit_length() - 1 for x in want]}: the opened value is not '
                                          f'statistically hidden to 2^-k', rep)
                            return
                        for origin, bound in mon.mask_bounds[0]:
                            eff = eff_bound(bound, m, t, no_prss)
                            e = bound.bit_length() - 1
                            if bound == 1 << e:
                                lines.append(f'maskbound {e} {m} {t} {1 if no_prss else 0}')
                            else:
                                lines.append(f'maskboundn {bound} {m} {t} {1 if no_prss else 0}')
                            exps.append(str(eff))
                            metas.append(f'{origin} bound {bound} m={m} t={t} noprss={no_prss}')
                            used = set(mon.prf_bounds[0]) if not no_prss else \
                                {d[1] for p in range(m) for sp in [None] for d in []}
                            if not no_prss and eff not in used:
                                ctx.violation(f'C18: {origin} requested mask range {bound} but no PRF with the rounded range '
                                              f'{eff} was used (PRF bounds {sorted(used)[:6]})', rep)
                                return
                    oname = 'to_bits' if site == 'to_bits_l' else site
                    ops = [o for o in mon.opened[0] if o[0] == oname]
                    if not ops:
                        ctx.violation(f'C18: no value opened by {site}', rep)
                        return
                    c = ops[-1][1][0] if site in ('is_zero_public', 'reciprocal') else ops[0][1][0]
                    if not (isinstance(c, tuple) and isinstance(c[0], int)):
                        continue
                    p, cv = c
                    opened_all.append(cv)
                    sp = secret_part(site, a_val, l, f)
                    if sp is not None:
                        masks.append((cv - sp) % p)
                key = (site, m, t, no_prss, k, a_val)
                ctx.case(key, nontrivial=t >= 1)
                ctx.count('site:' + site)
                rep = {'kind': 'sitestat', 'site': site, 'a': a_val, 'l': l, 'f': f, 'm': m, 't': t, 'no_prss': no_prss, 'k': k,
                       'N': N}
                if site in ('is_zero_public', 'reciprocal'):
                    if a_val == 0 and site == 'is_zero_public':
                        if any(v != 0 for v in opened_all):
                            ctx.violation('C18: zero test of 0 opened a non-zero value', rep)
                            return
                    elif a_val != 0:
                        if len(set(opened_all)) < len(opened_all) - 1 or 0 in opened_all:
                            ctx.violation(f'C18: {site} opened repeated/zero values for a non-zero input over {N} runs: '
                                          f'blinding missing? {opened_all[:4]}', rep)
                            return
                        if a_val in opened_all:
                            ctx.violation(f'C18: {site} opened the secret itself', rep)
                            return
                    continue
                win = mask_window(site, k, l, f, m, t, no_prss)
                mx = max(masks)
                if not (win[0] <= mx < win[1]):
                    ctx.violation(f'C18: site {site} (m={m},t={t},k={k},noprss={no_prss}): largest mask over {N} runs has '
                                  f'{mx.bit_length()} bits, model window [{win[0].bit_length()}, {win[1].bit_length()}] bits', rep)
                    return
                if len(set(opened_all)) < len(opened_all) - 1 and k >= 30:
                    ctx.violation(f'C18: site {site}: opened values repeat over {N} runs', rep)
                    return
                ones = sum(v & 1 for v in opened_all)
                if site != 'trunc' and not binom_two_sided_ok(ones, len(opened_all)):
                    ctx.violation(f'C18: site {site}: low bit of the opened value is unbalanced ({ones}/{len(opened_all)})', rep)
                    return
                if len(ctx.samples) < 3:
                    ctx.sample({'site': site, 'cfg': [m, t, no_prss, k], 'input': a_val, 'max_mask_bits': mx.bit_length(),
                                'window_bits': [win[0].bit_length(), win[1].bit_length()], 'runs': N})
    zero_test_views(ctx)
    degree_rule(ctx)
    zero_sharing_independence(ctx)
    mod_residues(ctx)
    extra_sites(ctx)
    model = common.LeanDriver('Share').run(lines)
    ctx.compare('mask range rounding (runtime._randoms vs MpycV.Share.maskBound)', exps, model, metas)


def search(ctx):
    run(ctx)


def replay(ctx, data):
    if data.get('kind') == 'view':
        try:
            msg, _ = view_case(data['site'], tuple(data['type']), data['a'], data['m'], data['t'], data['no_prss'], data['k'],
                               data['seed'])
        except (Deadlock, PartyError) as exc:
            return False, str(exc)[:200]
        return msg is None, msg or 'ok: every opening is re-randomised by a fresh sharing of zero'
    if data.get('kind') == 'mod-residues':
        resid, msg = mod_residue_case(data['a'], data['b'], data['m'], data['t'], data['no_prss'], data['reps'], data['seed'])
        return msg is None, msg or f'ok ({len(resid)} openings)'
    if data.get('kind') == 'mod-residues-balance':
        c2 = common.Ctx('C18', 'quick', data.get('seed', 0))
        mod_residues(c2)
        return not c2.violations, (c2.violations[0][0] if c2.violations else 'ok: residues uniform')
    if data.get('kind') == 'degree-rule':
        import programs
        prog = _eq_prog if data['program'] == 'eq_wide' else programs.PROGRAMS[data['program']][0]()
        try:
            msg, _ = degree_rule_case(data['program'], prog, data['m'], data['t'], data['no_prss'], data['k'], data['seed'])
        except (Deadlock, PartyError) as exc:
            return False, str(exc)[:200]
        return msg is None, msg or 'ok: every opening above threshold t is preceded by fresh sharings of zero'
    if data.get('kind') in ('extra-site', 'extra-sitestat'):
        c2 = common.Ctx('C18', 'quick', data.get('seed', 0))
        extra_sites(c2)
        return not c2.violations, (c2.violations[0][0] if c2.violations else 'ok: masks cover the secret part')
    if data.get('kind') == 'site':
        try:
            run_site(data['site'], data['a'], data['l'], data['f'], data['m'], data['t'], data['no_prss'], data['k'], data['seed'])
        except (Deadlock, PartyError) as exc:
            return False, str(exc)[:200]
        return True, 'ok'
    return True, 'statistical replay: rerun the check'
