"""C13 — any t Shamir shares reveal nothing about the secret.

Model: `shareAt` / `randomSplit` of lean/MpycV/Model/Thresha.lean.  Theorems: MpycV.C13 (shares_uniform,
shares_uniform_le, view_independent_of_secret, view_probability, shares_uniform_modP, coefficients_determined):
for a coalition A of at most t parties exactly |F|^(t-|A|) of the |F|^t coefficient vectors produce any given
view, whatever the secret.  Tie/oracle: the real random_split (and np_random_split) is run for EVERY value of the
dealer randomness (secrets.randbelow overridden by an enumerated stream) for GF(3), GF(5), GF(7), GF(2^2), GF(2^3),
GF(3^2), t <= 2, m <= 5; for every secret and every coalition of <= t parties the multiset of views must be
exactly uniform (each view q^(t-|A|) times); every run is also compared with the Lean model; a monitor checks that
randbelow is called with the field order exactly t times per secret.
"""
import itertools
import os
import sys
from collections import Counter

sys.path.insert(0, os.path.dirname(os.path.dirname(os.path.abspath(__file__))))
import thresha_glue as G  # noqa: E402,F401
from thresha_glue import Fld, Dealer, thresha, np, show_list, show_matrix, exc_name  # noqa: E402
import common  # noqa: E402

LEVEL = 'proof'
LEAN_MODULES = ['MpycV.Props.C13', 'MpycV.PropsGen.C13Src']   # + source tie of thresha.py (see props/c12.py)
LEAN_NAMESPACES = ['MpycV.C13', 'MpycV.C13Src']
REQUIRED_THEOREMS = ['shares_uniform', 'shares_uniform_le', 'view_independent_of_secret', 'view_probability',
                     'shares_uniform_modP', 'coefficients_determined',
                     # source tie (PropsGen/C13Src.lean, generated from the current thresha.py)
                     'random_split_src_eq', 'random_split_src_entry', 'random_split_src_refuses',
                     'random_split_src_dichotomy']
RULE = ('case = (field, t, m, secret(s), complete enumeration of the dealer randomness, coalition of <= t parties); '
        'fields GF(3), GF(5), GF(7), GF(2^2), GF(2^3), GF(3^2); t in 1..2 (and t = 0: no randomness drawn), all m with '
        't < m <= min(|F|-1, 5); every secret of the field; every coalition A with |A| <= t; batches of two secrets for '
        'the joint view (fresh coefficients per secret); list and np variants; distinct = (field, t, m, secrets, '
        'coalition); non-trivial = t >= 1 and non-empty coalition')
ASSUMPTIONS = ['secrets.randbelow(order) returns independent uniform values (the theorems count coefficient vectors; the '
               'probability statement follows under this assumption) — the check monitors that exactly t draws with '
               'argument field.order are made per secret and that nothing else influences the shares',
               'enumeration replaces thresha.secrets (module attribute) by a recorded stream; no other source of '
               'randomness is observed in random_split (a change to another source shows up as "no draws")']
TRUSTED = ['harness/thresha_glue.py Dealer']
EXHAUSTIVE = True


def fields(ctx):
    fs = [Fld(3), Fld(5), Fld(7), Fld(2, 2), Fld(2, 3), Fld(3, 2)]
    return fs


def split_once(F, secrets, stream, t, m, variant):
    f = F.field
    if variant == 'list':
        fn, s_arg = thresha.random_split, list(secrets)
    else:
        fn, s_arg = thresha.np_random_split, f.array(list(secrets))
    with Dealer(stream) as D:
        st, res = exc_name(fn, f, s_arg, t, m)
    if st == 'ok':
        res = F.canon_matrix(res)
    return st, res, D.calls


def enumerate_views(ctx, F, t, m, secrets, variant, lines, impl, meta, want_lean):
    """run the real code for every dealer stream; return list of share matrices or None after a violation"""
    n = len(secrets)
    q = F.q
    out = []
    rep = {'kind': 'enumeration', 'field': F.desc(), 't': t, 'm': m, 'secrets': list(secrets), 'variant': variant}
    for stream in itertools.product(range(q), repeat=t * n):
        st, res, calls = split_once(F, secrets, list(stream), t, m, variant)
        if st != 'ok':
            ctx.violation(f'random_split raised {res}', dict(rep, stream=list(stream), observed=res))
            return None
        draws = [c for c in calls if c[0] == 'randbelow']
        if len(draws) != t * n or any(a != q for _k, a, _v in draws):
            ctx.violation('random_split must draw exactly t coefficients per secret with randbelow(field.order)',
                          dict(rep, stream=list(stream), expected={'draws': t * n, 'bound': q},
                               observed={'draws': len(draws), 'bounds': sorted({a for _k, a, _v in draws})}))
            return None
        if len(res) != m or any(len(r) != n for r in res):
            ctx.violation('random_split: wrong shape', dict(rep, stream=list(stream), observed=res))
            return None
        out.append(res)
        if want_lean and F.lean is not None:
            if variant == 'list':
                cs = list(stream)
            else:
                cs = [stream[(t - 1 - k) * n + h] for h in range(n) for k in range(t)]
            lines.append(f'split {t} {m} {show_list(list(secrets))} {show_list(cs)}')
            impl.append(show_matrix(res))
            meta.append(dict(rep, stream=list(stream)))
    return out


def check_uniform(ctx, F, t, m, secrets, variant, mats):
    """every coalition of <= t parties sees every possible view equally often"""
    n = len(secrets)
    q = F.q
    ok = True
    for k in range(0, t + 1):
        for A in itertools.combinations(range(m), k):
            hist = Counter(tuple(mat[i][h] for i in A for h in range(n)) for mat in mats)
            want = q ** ((t - k) * n)
            nviews = q ** (k * n)
            ctx.case(('view', F.name, t, m, tuple(secrets), A, variant), nontrivial=t >= 1 and k >= 1)
            ctx.count(f'coalition-size:{k}')
            if len(hist) != nviews or any(v != want for v in hist.values()):
                ok = False
                worst = hist.most_common(1)[0]
                ctx.violation(f'{"np_" if variant == "np" else ""}random_split: the view of coalition {list(A)} '
                              f'(<= t = {t} parties) is not uniform over the dealer randomness',
                              {'kind': 'view-distribution', 'field': F.desc(), 't': t, 'm': m, 'secrets': list(secrets),
                               'variant': variant, 'coalition': list(A),
                               'expected': {'distinct_views': nviews, 'count_each': want},
                               'observed': {'distinct_views': len(hist), 'most_common': [list(worst[0]), worst[1]],
                                            'min_count': min(hist.values())}})
                return False
    return ok


def generate(ctx):
    """source translator tie shared with C12: regenerate lean/MpycV/Generated/ThreshaSrc.lean from the current source"""
    from props import c12
    c12.generate(ctx)


def run(ctx):
    lines_by_field = []
    mmax = 5
    for F in fields(ctx):
        lines, impl, meta = [], [], []
        q = F.q
        for t in range(0, 3):
            for m in range(t + 1, min(q - 1, mmax) + 1):
                if t == 0 and m > 2:
                    continue
                # quick: all secrets for m = t+1 and the largest m; thorough: all m
                if not ctx.thorough and m not in (t + 1, min(q - 1, mmax)):
                    continue
                per_secret = {}
                for s in range(q):
                    mats = enumerate_views(ctx, F, t, m, [s], 'list', lines, impl, meta, want_lean=True)
                    if mats is None:
                        return finish(ctx, lines_by_field + [(F, lines, impl, meta)])
                    ctx.count(f'enumerations:{F.name}')
                    if not check_uniform(ctx, F, t, m, [s], 'list', mats):
                        return finish(ctx, lines_by_field + [(F, lines, impl, meta)])
                    per_secret[s] = mats
                # identical distribution for every secret: compare the histograms of every coalition directly
                for k in range(1, t + 1):
                    for A in itertools.combinations(range(m), k):
                        h0 = Counter(tuple(mat[i][0] for i in A) for mat in per_secret[0])
                        for s in range(1, q):
                            hs = Counter(tuple(mat[i][0] for i in A) for mat in per_secret[s])
                            if hs != h0:
                                ctx.violation('view distribution depends on the secret',
                                              {'kind': 'view-distribution', 'field': F.desc(), 't': t, 'm': m,
                                               'secrets': [s], 'variant': 'list', 'coalition': list(A),
                                               'expected': 'same histogram as for secret 0', 'observed': 'differs'})
                                return finish(ctx, lines_by_field + [(F, lines, impl, meta)])
                # np variant (one secret value per (t, m); all in thorough)
                if np is not None and t >= 1:
                    for s in (range(q) if ctx.thorough else [ctx.rng.randrange(q)]):
                        mats = enumerate_views(ctx, F, t, m, [s], 'np', lines, impl, meta, want_lean=ctx.thorough)
                        if mats is None or not check_uniform(ctx, F, t, m, [s], 'np', mats):
                            return finish(ctx, lines_by_field + [(F, lines, impl, meta)])
        # batches of two secrets: joint view must be uniform (fresh coefficients per secret)
        for t in (1, 2):
            if q ** (2 * t) > ctx.scale(700, 7000) or t + 1 > q - 1:
                continue
            m = min(q - 1, t + 2)
            for variant in ['list'] + (['np'] if np is not None else []):
                for pair in ([(0, 0), (1, q - 1)] if not ctx.thorough else list(itertools.product(range(q), repeat=2))[:12]):
                    mats = enumerate_views(ctx, F, t, m, list(pair), variant, lines, impl, meta, want_lean=True)
                    if mats is None or not check_uniform(ctx, F, t, m, list(pair), variant, mats):
                        return finish(ctx, lines_by_field + [(F, lines, impl, meta)])
                    ctx.count('two-secret-batches')
        lines_by_field.append((F, lines, impl, meta))
    finish(ctx, lines_by_field)


def finish(ctx, batches):
    req, exp, info = [], [], []
    for F, lines, impl, meta in batches:
        if F.lean is None or not lines:
            continue
        req.append(F.lean)
        exp.append('ok')
        info.append({'field': F.name})
        req += lines
        exp += impl
        info += meta
    if req:
        model = common.LeanDriver('Thresha').run(req)
        ctx.compare('random_split under enumerated dealer randomness vs MpycV.Thresha.randomSplit', exp, model, info)
        ctx.sample({'request': req[-1][:200], 'answer': exp[-1][:200]})


def search(ctx):
    """wider oracle-only enumeration (more m, more secrets, both variants)"""
    for F in fields(ctx) + [Fld(11)]:
        for t in (1, 2):
            for m in range(t + 1, min(F.q - 1, 6) + 1):
                if F.q ** t > 200:
                    continue
                for s in range(F.q):
                    for variant in ['list'] + (['np'] if np is not None else []):
                        mats = enumerate_views(ctx, F, t, m, [s], variant, [], [], [], False)
                        if mats is None or not check_uniform(ctx, F, t, m, [s], variant, mats):
                            return


def replay(ctx, data):
    F = Fld.from_desc(data['field'])
    t, m = int(data['t']), int(data['m'])
    secrets = [int(x) for x in data['secrets']]
    variant = data.get('variant', 'list')
    before = len(ctx.violations)
    if data.get('kind') == 'enumeration' and 'stream' in data:
        st, res, calls = split_once(F, secrets, [int(x) for x in data['stream']], t, m, variant)
        draws = [c for c in calls if c[0] == 'randbelow']
        ok = st == 'ok' and len(draws) == t * len(secrets) and all(a == F.q for _k, a, _v in draws)
        return ok, f'random_split -> {res}; draws {[(a, v) for _k, a, v in draws]}'
    mats = enumerate_views(ctx, F, t, m, secrets, variant, [], [], [], False)
    ok = mats is not None and check_uniform(ctx, F, t, m, secrets, variant, mats)
    bad = ctx.violations[before:]
    del ctx.violations[before:]
    return ok, (bad[0][0] if bad else 'all coalition views uniform')
