"""C16 — PRSS keys are shared exactly among each subset's members.

Model: lean/MpycV/Model/Comb.lean (threshold setter, _prss_keys_to_peer, _prss_keys_from_peer, the
client/server handshake of MessageExchanger).  Theorems: MpycV.C16 (for ALL m, t; any order of the
pairwise handshakes; any chunking), MpycV.C16Gen (`decide +kernel` on key tables extracted from real
Runtime objects after real handshakes in the simulator, regenerated on every run).
Tie: (a) itertools.combinations / the three subset filters / the key block bytes / the server-side
handshake of real objects vs the Lean driver; (b) complete simulated set-ups (random connection
orders and chunkings): every party's `_prss_keys` vs the model replaying the recorded tokens and
handshake events.  Oracle (independent of both): subsets by bitmask enumeration; every subset's
key is held by exactly its members, equal everywhere, 16 bytes, drawn by the lowest member; every
coalition of t parties misses a key; no key travels to a non-member; prfs() has the same subsets;
without PRSS no keys exist or travel.
"""
import asyncio
import itertools
import os
import sys

sys.path.insert(0, os.path.dirname(os.path.dirname(os.path.abspath(__file__))))
import simnet  # noqa: E402  (sets argv for mpyc, installs the proxy)
from simnet import SimNet, Scheduler, PartyError, Deadlock  # noqa: E402
from mpyc import asyncoro  # noqa: E402
import common  # noqa: E402

LEVEL = 'proof'
LEAN_MODULES = ['MpycV.Props.C16', 'MpycV.PropsGen.C16']
LEAN_NAMESPACES = ['MpycV.C16', 'MpycV.C16Gen']
REQUIRED_THEOREMS = ['combinations_mem', 'subsets_spec', 'subsets_each_once', 'sender_receiver_same_list',
                     'handshake_any_chunking', 'handshake_feed_append', 'slice_is_key', 'keys_exact',
                     'keys_iff_member', 'members_hold_generators_key', 'non_member_holds_nothing',
                     'coalition_lacks_key', 'client_message_time_independent', 'prfs_subsets', 'no_prss_no_keys',
                     'tableOK_sound', 'extracted_tables_ok', 'extracted_runs_match_model',
                     'extracted_configs_cover',
                     # the threshold setter on a connected runtime (repo fix b17a618)
                     'setter_after_setup_drops_peer_keys', 'setter_after_setup_owner_holds_key', 'prfsE_stale', 'prfsE_fresh']
RULE = ('configuration = (m, t) with 2t < m, m <= 5 plus sampled m in {6,7} (quick) / all m <= 7 (thorough), PRSS on/off; '
        'case = one complete simulated set-up under a seeded scheduler (modes random/fifo/starve/lazynet/eagernet, chunking '
        'mixed/bytes/whole): connection order and chunk boundaries differ per seed; distinct = distinct (m,t,prss,handshake '
        'completion order, chunk cuts); non-trivial = m >= 2 (some key crosses a connection). Plus unit cases: all '
        '(m,t,pid,peer) for the subset filters and key blocks, single-connection handshakes under every single cut position.')
ASSUMPTIONS = ['secrets.token_bytes(16) returns 16 bytes (the harness patches it by a seeded stream and records the tokens); '
               'the theorems hold for arbitrary token values',
               'pid < 65536 (2-byte pid in the handshake), i.e. m <= 65536',
               'the simulator (harness/simnet.py) delivers each direction in order, in arbitrary chunks, handshakes in '
               'arbitrary interleaving; lower pid = client as in Runtime.start']
TRUSTED = ['harness/simnet.py (virtual transports, scheduling)', 'harness/props/c16.py wrapper of '
           'MessageExchanger.data_received recording chunk sizes and handshake completion order']

GEN_FILE = os.path.join(common.LEAN_DIR, 'MpycV', 'Generated', 'Keys.lean')
MODES = ['random', 'fifo', 'starve', 'lazynet', 'eagernet']
CHUNKS = ['mixed', 'bytes', 'whole']


# ---------------------------------------------------------------------------------------------
# running a set-up on the real code
# ---------------------------------------------------------------------------------------------
def configs(max_m):
    return [(m, t) for m in range(1, max_m + 1) for t in range(0, m) if 2 * t < m]


async def _prog(mpc):
    ks = getattr(mpc, '_prss_keys', None)
    at_start = None if ks is None else {tuple(k): bytes(v) for k, v in ks.items()}
    prf = None
    if ks is not None:
        prf = sorted(tuple(k) for k in mpc.prfs(1 << 16).keys())
    return at_start, prf


def run_setup(m, t, seed, mode='random', chunk_mode='mixed', no_prss=False, t_initial=None):
    """One complete set-up on the real code.  Returns dict with tables, tokens, events, wire."""
    events, chunks = [], {}
    orig = asyncoro.MessageExchanger.data_received

    def wrapped(self, data):
        was_none = self.peer_pid is None
        if was_none:
            chunks.setdefault(id(self), []).append(len(data))
        orig(self, data)
        if was_none and self.peer_pid is not None:
            events.append((self.peer_pid, self.runtime.pid, chunks[id(self)][:-1]))

    out = {'m': m, 't': t, 'seed': seed, 'mode': mode, 'chunk_mode': chunk_mode, 'no_prss': no_prss,
           'error': None, 't_initial': t_initial}
    asyncoro.MessageExchanger.data_received = wrapped
    simnet.SECRETS.log = []
    try:
        net = SimNet(m, t, no_prss=no_prss, seed=seed, sched=Scheduler(seed, mode, chunk_mode=chunk_mode), t_initial=t_initial)
        toks = {i: [] for i in range(m)}
        for pid, kind, arg, val in simnet.SECRETS.log[net.token_start:]:
            if kind == 'token_bytes' and 0 <= pid < m:
                toks[pid].append(bytes(val))
        out['tokens'] = toks
        n_init = len(simnet.SECRETS.log)
        try:
            res = net.run(_prog)
        except (PartyError, Deadlock) as exc:
            out['error'] = f'{type(exc).__name__}: {exc}'[:600]
            res = None
        out['late_tokens'] = len([1 for e in simnet.SECRETS.log[n_init:] if e[1] == 'token_bytes'])
        out['at_start'] = res
        tabs = []
        for rt in net.rts:
            ks = getattr(rt, '_prss_keys', None)
            tabs.append(None if ks is None else {tuple(k): bytes(v) for k, v in ks.items()})
        out['tables'] = tabs
        out['events'] = events
        out['wire'] = {k: bytes(v) for k, v in net.wire.items()}
    finally:
        asyncoro.MessageExchanger.data_received = orig
        simnet.SECRETS.log = None
    return out


# ---------------------------------------------------------------------------------------------
# independent oracle: the property, from its statement
# ---------------------------------------------------------------------------------------------
def subsets_by_mask(m, k):
    res = []
    for mask in range(1 << m):
        if bin(mask).count('1') == k:
            res.append(tuple(i for i in range(m) if mask >> i & 1))
    return res


def oracle(r):
    """List of problems of one set-up w.r.t. the property statement."""
    m, t = r['m'], r['t']
    if r['error']:
        return [f"set-up did not complete: {r['error']}"]
    probs = []
    if r['no_prss']:
        for i, tb in enumerate(r['tables']):
            if tb:
                probs.append(f'no_prss: party {i} holds keys {sorted(tb)[:3]}')
        for (a, b), w in r['wire'].items():
            if a < b and w[:2] != a.to_bytes(2, 'little'):
                probs.append(f'no_prss: handshake {a}->{b} does not start with the pid')
        return probs
    subs = subsets_by_mask(m, m - t)
    tabs = r['tables']
    for i in range(m):
        if tabs[i] is None:
            return [f'party {i} has no _prss_keys']
    for S in subs:
        vals = {i: tabs[i].get(S) for i in range(m)}
        holders = tuple(i for i in range(m) if vals[i] is not None)
        if holders != S:
            probs.append(f'subset {S}: held by {holders}, expected exactly its members')
            continue
        ks = {vals[i] for i in S}
        if len(ks) != 1:
            probs.append(f'subset {S}: members hold different keys')
            continue
        key = next(iter(ks))
        if len(key) != 16:
            probs.append(f'subset {S}: key has {len(key)} bytes')
        if key not in r['tokens'][min(S)]:
            probs.append(f'subset {S}: key was not drawn by its lowest member {min(S)}')
    allowed = set(subs)
    for i in range(m):
        extra = [S for S in tabs[i] if S not in allowed]
        if extra:
            probs.append(f'party {i} holds keys for non-subsets {extra[:3]}')
    # all keys distinct (128-bit tokens of a seeded stream: a repetition means reuse of one token)
    allk = [tabs[min(S)].get(S) for S in subs]
    if len(set(allk)) != len(allk):
        probs.append('two subsets share one key')
    # every coalition of t parties lacks a key
    for C in subsets_by_mask(m, t):
        if not any(all(S not in tabs[c] for c in C) for S in subs):
            probs.append(f'coalition {C} holds every key')
    # no key reaches a non-member over the wire
    for (a, b), w in r['wire'].items():
        for S in subs:
            key = tabs[min(S)].get(S)
            if key and b not in S and key in w:
                probs.append(f'key of {S} sent {a}->{b}, a non-member')
    # view at program start = final view; prfs() has exactly the member subsets
    if r['at_start'] is not None:
        for i, st in enumerate(r['at_start']):
            if st is None:
                continue
            ks0, prf = st
            if ks0 != tabs[i]:
                probs.append(f'party {i}: keys at program start differ from keys at the end')
            want = sorted(S for S in subs if i in S)
            if prf != want:
                probs.append(f'party {i}: prfs() subsets {prf[:3]}.. differ from member subsets')
    if r['late_tokens']:
        probs.append('keys drawn after construction')
    return probs


# ---------------------------------------------------------------------------------------------
# canonical text forms shared with the Lean driver
# ---------------------------------------------------------------------------------------------
def sh_sub(S):
    return '.'.join(map(str, S)) if len(S) else 'e'


def sh_subs(L):
    return ';'.join(sh_sub(S) for S in L) if L else '-'


def sh_store(tb):
    if not tb:
        return '-'
    return ';'.join(f'{sh_sub(S)}:{bytes(tb[S]).hex() or "-"}' for S in sorted(tb))


def hx(b):
    return bytes(b).hex() if len(b) else '-'


def final_request(r):
    toks = '/'.join(hx(b''.join(r['tokens'][i])) for i in range(r['m']))
    evs = ' '.join(f"{j}>{i}:{'.'.join(map(str, cuts)) if cuts else '-'}" for j, i, cuts in r['events'])
    return f"final {r['m']} {r['t']} {toks} {evs}".rstrip()


def final_impl(r):
    return '/'.join(sh_store(tb) for tb in r['tables'])


# ---------------------------------------------------------------------------------------------
# generate: tables extracted from real runs -> Lean
# ---------------------------------------------------------------------------------------------
def gen_configs(ctx):
    if ctx.thorough:
        return configs(7)
    rng = ctx.subrng('gen')
    extra = rng.sample([c for c in configs(7) if c[0] > 5], 2)
    return configs(5) + sorted(extra)


def lean_sub(S):
    return '[' + ', '.join(map(str, S)) + ']'


def generate(ctx):
    rng = ctx.subrng('generate')
    cfgs = gen_configs(ctx)
    lines = ['/- GENERATED by harness/props/c16.py from real Runtime objects after simulated handshakes. -/',
             'import MpycV.Model.Comb', 'namespace MpycV.Generated.Keys', 'open MpycV.Comb', '',
             '/-- (m, t, key table): row i = `_prss_keys` of party i sorted by subset, keys as LE numbers -/',
             'def tables : List (Nat × Nat × List (List (Subset × Nat))) := [']
    runs = []
    tabs = []
    for (m, t) in cfgs:
        seed = rng.randrange(1 << 30)
        mode = rng.choice(MODES)
        cm = rng.choice(['mixed', 'mixed', 'bytes'])
        r = run_setup(m, t, seed, mode, cm)
        if r['error'] or any(tb is None for tb in r['tables']):
            ctx.note(f'generate: set-up m={m} t={t} seed={seed} failed: {r["error"]}')
            continue
        rows = ['[' + ', '.join(f'({lean_sub(S)}, {int.from_bytes(tb[S], "little")})' for S in sorted(tb)) + ']'
                for tb in r['tables']]
        tabs.append(f'  ({m}, {t}, [' + ',\n    '.join(rows) + '])')
        if m <= 6:
            toks = '[' + ', '.join('[' + ', '.join(str(int.from_bytes(k, 'little')) for k in r['tokens'][i]) + ']'
                                   for i in range(m)) + ']'
            evs = '[' + ', '.join(f'⟨{j}, {i}, [{", ".join(map(str, cuts))}]⟩' for j, i, cuts in r['events']) + ']'
            runs.append(f'  ({m}, {t}, {toks},\n    {evs},\n    [' + ',\n    '.join(rows) + '])')
    lines.append(',\n'.join(tabs))
    lines.append(']')
    lines.append('')
    lines.append('/-- (m, t, tokens drawn per party, handshake events in completion order with chunk cuts, key table) -/')
    lines.append('def runs : List (Nat × Nat × List (List Nat) × List Hs × List (List (Subset × Nat))) := [')
    lines.append(',\n'.join(runs))
    lines.append(']')
    lines.append('')
    lines.append('/-- configurations that must be present -/')
    lines.append('def required : List (Nat × Nat) := [' + ', '.join(f'({m}, {t})' for m, t in cfgs) + ']')
    lines.append('')
    lines.append('end MpycV.Generated.Keys')
    text = '\n'.join(lines) + '\n'
    os.makedirs(os.path.dirname(GEN_FILE), exist_ok=True)
    old = open(GEN_FILE).read() if os.path.exists(GEN_FILE) else None
    if old != text:
        tmp = GEN_FILE + f'.tmp{os.getpid()}'
        with open(tmp, 'w') as f:
            f.write(text)
        os.replace(tmp, GEN_FILE)
    ctx.count('generated_tables', len(tabs))
    ctx.count('generated_model_runs', len(runs))


# ---------------------------------------------------------------------------------------------
# unit-level correspondence on real objects
# ---------------------------------------------------------------------------------------------
class _Tr:
    def __init__(self):
        self.data = bytearray()

    def write(self, d):
        self.data.extend(d)

    def writelines(self, ls):
        for d in ls:
            self.data.extend(d)


def dispose(net):
    """Close the event loop of a SimNet that was built but never run."""
    try:
        net.loop.close()
    except Exception:
        pass


def unit_correspondence(ctx):
    reqs, impl = [], []
    # itertools.combinations
    for n in range(0, ctx.scale(7, 9)):
        for k in range(0, n + 2):
            reqs.append(f'comb {n} {k}')
            impl.append(sh_subs(list(itertools.combinations(range(n), k))))
            ctx.case(('comb', n, k), nontrivial=0 < k < n)
    rng = ctx.subrng('unit')
    max_m = ctx.scale(6, 7)
    for (m, t) in configs(max_m):
        for no_prss in (False, True):
            seed = rng.randrange(1 << 30)
            simnet.SECRETS.log = []
            net = SimNet(m, t, no_prss=no_prss, seed=seed)
            toks = {i: [bytes(v) for p, kd, a, v in simnet.SECRETS.log if p == i and kd == 'token_bytes'] for i in range(m)}
            simnet.SECRETS.log = None
            for i in range(m):
                rt = net.rts[i]
                if not no_prss:
                    inv = {bytes(v): k for k, v in rt._prss_keys.items()}
                    reqs.append(f'gen {m} {t} {i}')
                    impl.append(sh_subs(list(rt._prss_keys.keys())))
                for j in range(m):
                    if j == i:
                        continue
                    ctx.case(('unit', m, t, i, j, no_prss), nontrivial=not no_prss)
                    if not no_prss:
                        reqs.append(f'to {m} {t} {i} {j}')
                        try:
                            impl.append(sh_subs([inv[bytes(k)] for k in net.ctx[i].run(rt._prss_keys_to_peer, j)]))
                        except Exception as exc:
                            impl.append(type(exc).__name__)
                        reqs.append(f'lenpacket {m} {t} {i} {j}')
                        try:
                            impl.append(str(net.ctx[i].run(rt._prss_keys_from_peer, j)))
                        except Exception as exc:
                            impl.append(type(exc).__name__)
                    # client bytes of connection_made
                    tr = _Tr()
                    cl = asyncoro.MessageExchanger(rt, j)
                    for p in rt.parties:
                        p.protocol = asyncio.Future(loop=net.loop) if p.pid == i else None
                    sent_ok = True
                    try:
                        net.ctx[i].run(cl.connection_made, tr)
                        got = hx(tr.data)
                    except Exception as exc:  # e.g. KeyError when generation and sending disagree
                        got = type(exc).__name__
                        sent_ok = False
                    reqs.append(f'clientmsg {m} {t} {i} {j} {int(no_prss)} {hx(b"".join(toks[i]))}')
                    impl.append(got)
                    # server-side handshake of party j fed with that message (+ junk) under a random chunking
                    if sent_ok and len(tr.data) >= 2 and i < j:
                        extra = bytes(rng.randrange(256) for _ in range(rng.choice([0, 1, 5, 11])))
                        stream = bytes(tr.data) + extra
                        cuts = sorted(rng.sample(range(len(stream) + 1), min(len(stream) + 1, rng.choice([0, 1, 2, 3, 5]))))
                        pieces = [stream[a:b] for a, b in zip([0] + cuts, cuts + [len(stream)])]
                        reqs.append(f'server {m} {t} {j} {int(no_prss)} {hx(b"".join(toks[j]))} ' + ' '.join(hx(p) for p in pieces))
                        impl.append(feed_real_server(m, t, j, no_prss, seed, pieces))
                        ctx.count('server_handshake_chunks_' + str(min(len(pieces), 4)))
            dispose(net)
    BATCH.append(('Comb filters / key block / server handshake', reqs, impl))


def feed_real_server(m, t, j, no_prss, seed, pieces):
    """Fresh runtime of party j (same seed => same tokens), one server-side MessageExchanger fed with pieces."""
    net = SimNet(m, t, no_prss=no_prss, seed=seed)
    rt = net.rts[j]
    for p in rt.parties:
        p.protocol = None
    rt.parties[j].protocol = asyncio.Future(loop=net.loop)
    srv = asyncoro.MessageExchanger(rt)
    try:
        for pc in pieces:
            net.ctx[j].run(srv.data_received, pc)
    except Exception as exc:
        dispose(net)
        return type(exc).__name__
    ks = getattr(rt, '_prss_keys', {})
    peer = '-' if srv.peer_pid is None else str(srv.peer_pid)
    dispose(net)
    return f'peer={peer} rest={hx(srv.bytes)} keys={sh_store({tuple(k): bytes(v) for k, v in ks.items()})}'


def single_cut_sweep(ctx):
    """Every single cut position of one handshake (m=4,t=1 and m=5,t=2): real server vs model."""
    reqs, impl = [], []
    for (m, t, i, j) in [(4, 1, 0, 3), (5, 2, 1, 3)] + ([(6, 2, 0, 5), (7, 3, 2, 6)] if ctx.thorough else []):
        seed = ctx.subrng('cut', m, t).randrange(1 << 30)
        simnet.SECRETS.log = []
        net = SimNet(m, t, seed=seed)
        toks = {k: [bytes(v) for p, kd, a, v in simnet.SECRETS.log if p == k and kd == 'token_bytes'] for k in range(m)}
        simnet.SECRETS.log = None
        rt = net.rts[i]
        tr = _Tr()
        cl = asyncoro.MessageExchanger(rt, j)
        for p in rt.parties:
            p.protocol = asyncio.Future(loop=net.loop) if p.pid == i else None
        try:
            net.ctx[i].run(cl.connection_made, tr)
        except Exception as exc:
            ctx.mismatch(f'connection_made raises {type(exc).__name__} (m={m}, t={t}, client {i} -> server {j})',
                         {'kind': 'correspondence', 'what': 'connection_made', 'm': m, 't': t, 'client': i, 'server': j})
            dispose(net)
            continue
        stream = bytes(tr.data) + b'\x01\x02\x03'
        dispose(net)
        for c in range(len(stream) + 1):
            pieces = [stream[:c], stream[c:]]
            reqs.append(f'server {m} {t} {j} 0 {hx(b"".join(toks[j]))} ' + ' '.join(hx(p) for p in pieces))
            impl.append(feed_real_server(m, t, j, False, seed, pieces))
            ctx.case(('cut', m, t, i, j, c))
    BATCH.append(('server handshake, every single cut', reqs, impl))


# ---------------------------------------------------------------------------------------------
# run / search / replay
# ---------------------------------------------------------------------------------------------
def replay_dict(r, probs):
    return {'kind': 'setup', 'm': r['m'], 't': r['t'], 'seed': r['seed'], 'mode': r['mode'],
            'chunk_mode': r['chunk_mode'], 'no_prss': r['no_prss'], 't_initial': r.get('t_initial'),
            'expected': 'every (m-t)-subset key held by exactly its members, same 16-byte key drawn by the lowest member; '
                        'every t-coalition lacks a key; no key on a wire to a non-member',
            'observed': probs[:5]}


def explore(ctx, cases, tag):
    reqs, impl = [], []
    for (m, t, seed, mode, cm, no_prss, *rest) in cases:
        t_initial = rest[0] if rest else None
        r = run_setup(m, t, seed, mode, cm, no_prss, t_initial)
        if t_initial is not None:
            ctx.count('threshold-reassigned-before-start')
        key = (m, t, t_initial, no_prss, tuple((j, i, tuple(c)) for j, i, c in r.get('events', [])))
        ctx.case(key, nontrivial=m >= 2)
        ctx.count(f'm={m}')
        ctx.count(f'sched={mode}/{cm}')
        ctx.count('prss=' + ('off' if no_prss else 'on'))
        probs = oracle(r)
        if probs:
            ctx.violation(f'C16 fails for m={m} t={t} seed={seed} ({mode}/{cm}): {probs[0]}', replay_dict(r, probs))
            continue
        if not no_prss:
            reqs.append(final_request(r))
            impl.append(final_impl(r))
            if m >= 3:
                ctx.sample({'m': m, 't': t, 'seed': seed, 'sched': f'{mode}/{cm}',
                            'handshake_order': [f'{j}>{i}:{c}' for j, i, c in r['events']][:6],
                            'keys_of_party_0': len(r['tables'][0])})
    BATCH.append((f'final key tables ({tag})', reqs, impl))


def make_cases(ctx, rng, max_m, per_cfg, min_m=1):
    cases = []
    for (m, t) in [c for c in configs(max_m) if c[0] >= min_m]:
        for k in range(per_cfg):
            cases.append((m, t, rng.randrange(1 << 30), MODES[k % len(MODES)] if k < len(MODES) else rng.choice(MODES),
                          CHUNKS[k % 3] if k < 3 else rng.choice(CHUNKS), False))
        cases.append((m, t, rng.randrange(1 << 30), rng.choice(MODES), rng.choice(CHUNKS), True))
        # mpc.threshold assigned after the runtime was created with another threshold (demos/parallelsort.py does this)
        others = [t0 for t0 in range(m) if 2 * t0 < m and t0 != t]
        if others and m >= 2:
            cases.append((m, t, rng.randrange(1 << 30), rng.choice(MODES), rng.choice(CHUNKS), False, rng.choice(others)))
    return cases


BATCH = []   # (what, requests, implementation lines)


def flush_batch(ctx):
    """One Lean driver invocation for everything collected so far."""
    parts = list(BATCH)
    del BATCH[:]
    allreq = [r for _, reqs, _ in parts for r in reqs]
    model = common.LeanDriver('Config').run(allreq, timeout=1500)
    if isinstance(model, common.DriverFailure):
        ctx.compare('C16 driver batch', [], model, allreq)
        return
    pos = 0
    for what, reqs, impl in parts:
        ctx.compare(what, impl, model[pos:pos + len(reqs)], reqs)
        pos += len(reqs)


def setter_case(m, t, t_new, no_prss, seed):
    """mpc.threshold = t_new at every party AFTER the set-up: what is left in the key stores, and does PRSS refuse?"""
    async def prog(mpc):
        before = sorted(tuple(k) for k in getattr(mpc, '_prss_keys', {}))
        mpc.threshold = t_new
        after = sorted(tuple(k) for k in getattr(mpc, '_prss_keys', {}))
        try:
            mpc.prfs(1 << 12)
            refused = False
        except RuntimeError:
            refused = True
        except AttributeError:          # without PRSS there are no keys at all
            refused = None
        x = mpc.input(mpc.SecInt(16)(mpc.pid + 1))          # operations that do not use PRSS keep working
        return before, after, refused, int(await mpc.output(mpc.sum(x)))
    res = SimNet(m, t, no_prss=no_prss, seed=seed, sched=Scheduler(seed, 'random')).run(prog)
    for i, (before, after, refused, total) in enumerate(res):
        want_before = sorted(s_ for s_ in itertools.combinations(range(m), m - t) if i in s_)
        want_after = sorted(s_ for s_ in itertools.combinations(range(m), m - t_new) if s_[0] == i)
        if no_prss:
            if before or after:
                return f'party {i} holds PRSS keys although PRSS is off'
            continue
        if before != want_before:
            return f'party {i}: key subsets after the set-up {before}, expected {want_before}'
        if after != want_after:
            return (f'party {i}: key subsets after assigning mpc.threshold = {t_new}: {after}; the setter generates the keys of the '
                    f'subsets whose lowest member it is: {want_after} (model initStores, theorem setter_after_setup_drops_peer_keys)')
        complete = all(s_[0] == i for s_ in itertools.combinations(range(m), m - t_new) if i in s_)
        if m > 1 and not refused:
            return (f'party {i}: after mpc.threshold = {t_new} on a connected runtime the members of a subset no longer hold the same '
                    f'key (party {i} holds {len(after)} of {len([1 for s_ in itertools.combinations(range(m), m - t_new) if i in s_])} '
                    f'keys{", all its own" if complete else ""}; the other members hold different or no keys) and prfs() still hands '
                    f'out PRFs: PRSS results differ per party')
        if total != m * (m + 1) // 2:
            return f'party {i}: sum of the inputs after the assignment = {total}'
    return None


def setter_after_setup(ctx):
    rng = ctx.subrng('setter')
    for (m, t) in [(3, 1), (2, 0), (4, 1), (5, 2)] + ([(5, 1), (6, 2), (7, 3)] if ctx.thorough else []):
        for t_new in sorted({t, 0, (m - 1) // 2}):
            for no_prss in (False, True):
                seed = rng.randrange(1 << 30)
                rep = {'kind': 'setter', 'm': m, 't': t, 't_new': t_new, 'no_prss': no_prss, 'seed': seed}
                try:
                    msg = setter_case(m, t, t_new, no_prss, seed)
                except (PartyError, Deadlock) as exc:
                    msg = f'run does not complete: {str(exc)[:300]}'
                ctx.case(('setter', m, t, t_new, no_prss), nontrivial=m > 1 and not no_prss)
                ctx.count('setter-after-setup')
                if msg:
                    ctx.violation('C16: ' + msg, rep)
                    return


def run(ctx):
    del BATCH[:]
    unit_correspondence(ctx)
    single_cut_sweep(ctx)
    setter_after_setup(ctx)
    rng = ctx.subrng('run')
    cases = make_cases(ctx, rng, 5, ctx.scale(6, 20))
    if ctx.thorough:
        cases += make_cases(ctx, rng, 7, 12, min_m=6)
    else:
        big = [c for c in configs(7) if c[0] > 5]
        for (m, t) in rng.sample(big, 3):
            cases.append((m, t, rng.randrange(1 << 30), rng.choice(MODES), rng.choice(CHUNKS), False))
    explore(ctx, cases, 'run')
    flush_batch(ctx)


def search(ctx):
    rng = ctx.subrng('search')
    explore(ctx, make_cases(ctx, rng, 6, 12), 'search')
    flush_batch(ctx)


def replay(ctx, data):
    if data.get('kind') == 'setter':
        try:
            msg = setter_case(data['m'], data['t'], data['t_new'], data['no_prss'], data['seed'])
        except (PartyError, Deadlock) as exc:
            msg = f'run does not complete: {str(exc)[:300]}'
        return msg is None, msg or 'ok: stale keys refused, operations without PRSS work'
    if data.get('kind') != 'setup':
        return True, 'not a set-up replay (nothing to execute)'
    r = run_setup(data['m'], data['t'], data['seed'], data.get('mode', 'random'), data.get('chunk_mode', 'mixed'),
                  data.get('no_prss', False), data.get('t_initial'))
    probs = oracle(r)
    if probs:
        return False, f"m={data['m']} t={data['t']} seed={data['seed']}: {probs[:3]}"
    return True, f"m={data['m']} t={data['t']} seed={data['seed']}: key tables satisfy C16"
