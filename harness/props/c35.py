"""C35 — barriers and shutdown wait for all started MPyC coroutines.

Model: lean/MpycV/Model/Level.lean; theorems MpycV.C35: level_counts_unreconciled,
running_subset_unreconciled, barrier_post, shutdown_safe.
Tie: (a) every call of an MPyC coroutine in real runs is observed (Task creation, completion, _reconcile)
and the observed history is replayed through the Lean level machine: `_pc_level` of the real runtime
must equal the model's level after every event batch, and the history must be well formed; (b) oracle on
the real code: at every return of a top-level barrier, and at every close_connection of ANY party, no
MPyC coroutine started by the program earlier (at that party / at any party) is unfinished; after the run
every transport is closed and every party's shutdown returned — under adversarial schedules, with
fire-and-forget coroutines, barriers inside coroutines, throttler, and exceptions-free early returns.
"""
import asyncio
import os
import sys
sys.path.insert(0, os.path.dirname(os.path.dirname(os.path.abspath(__file__))))
import simnet
from simnet import SimNet, Scheduler, Deadlock, PartyError, asyncoro, rtmod, CUR
import common

LEVEL = 'proof'
LEAN_MODULES = ['MpycV.Props.C35']
LEAN_NAMESPACES = ['MpycV.C35']
REQUIRED_THEOREMS = ['level_counts_unreconciled', 'running_subset_unreconciled', 'barrier_post', 'shutdown_safe']
RULE = ('case = (program with fire-and-forget coroutines / barriers at depth 0 and inside coroutines / throttler, m, t, '
        'PRSS on/off, scheduler mode, seed); checkpoints = every top-level barrier return and every close_connection; '
        'distinct = (program, cfg, seed); non-trivial = at least one coroutine task was still pending when the barrier or '
        'shutdown was ENTERED')
ASSUMPTIONS = ['asyncio runs a task\'s done-callbacks after the task completed (modelled as wfB)',
               'barriers enabled (option no_barrier off), asynchronous mode']


def progs():
    async def fire_and_forget(mpc):
        secint = mpc.SecInt(16)
        x = mpc.input(secint(mpc.pid + 2))
        y = mpc.prod(x)                       # never awaited by the program
        z = [a * a + 1 for a in x]            # never awaited
        w = mpc.output(mpc.sum(z))            # never awaited
        r = await mpc.output(x[0])
        return r

    async def barriers(mpc):
        secint = mpc.SecInt(16)
        x = mpc.input(secint(mpc.pid + 1))
        y = [a * a for a in x]
        s = mpc.sorted(y)
        await mpc.barrier('b1')
        z = mpc.prod(y)
        mpc.output(z)
        await mpc.barrier()
        for _ in range(3):
            z = z * z % 7 if hasattr(z, '__mod__') else z
            await mpc.throttler(0.5)
        r = await mpc.output(s[0])
        return r

    async def nested(mpc):
        secint = mpc.SecInt(16)

        @mpc.coroutine
        async def inner(a, b):
            await mpc.returnType(type(a))
            c = a * b
            d = [c * a for _ in range(3)]
            await mpc.barrier('inner')        # barrier at depth 1
            return c + d[0]

        x = mpc.input(secint(mpc.pid + 3))
        u0 = inner(x[0], x[-1])               # a single coroutine with a barrier inside (siblings that both
        await mpc.barrier('outer')            # wait at an inner barrier would wait for each other forever)
        u = [u0] + [a * a for a in x]
        v = mpc.max(u)
        r = await mpc.output(v)
        mpc.output(u[0])                      # pending at shutdown
        return r

    async def early(mpc):
        secint = mpc.SecInt(16)
        a = mpc.input([], senders=0)          # _distribute returns before its first await
        b = mpc.output([])                    # returns [] after the first await
        e = mpc._reshare([])                  # early return
        x = mpc.input(secint(5), senders=0)
        t0 = mpc.transfer(mpc.pid)            # pending
        await mpc.barrier()
        r = await mpc.output(x * x)
        return r, await t0

    class InjectedFault(Exception):
        pass

    async def faulty(mpc):
        """a coroutine without return value (declared -> None, like mpc.peek) fails at every party; its exception is
        swallowed by the runtime; later barriers and shutdown must still wait for everything started"""
        secint = mpc.SecInt(16)

        @mpc.coroutine
        async def check(x) -> None:
            v = await mpc.output(x)
            if v != 0:
                raise InjectedFault(f'check failed: {v}')

        @mpc.coroutine
        async def late_square(a):
            await mpc.returnType(type(a))
            b = a * a
            await mpc.gather(b)
            return b * a

        x = mpc.input(secint(mpc.pid + 2))
        check(x[0])                           # raises inside the coroutine's task
        await mpc.barrier('after-fault')
        u = late_square(x[-1])                # one coroutine in flight ...
        await mpc.barrier('A')                # ... must be finished when this barrier returns
        w = late_square(x[0])                 # pending at shutdown
        r = await mpc.output(x[0])
        return r

    faulty.expected_exc = (InjectedFault,)

    async def cancelled(mpc):
        """the caller gives up on a result (cancels the placeholder, as asyncio.wait_for does on a timeout) while the MPyC
        coroutine is still running; when it finishes, copying its result into the cancelled placeholder fails inside the
        done-callback; barriers and shutdown must still work"""
        secint = mpc.SecInt(16)
        x = mpc.input(secint(mpc.pid + 2))
        f = mpc.transfer(('obj', mpc.pid), senders=0)      # placeholder Future of a running coroutine
        g = mpc.output(x[0] * x[-1])
        f.cancel()
        g.cancel()
        await mpc.barrier('after-cancel')
        y = x[0] * x[0]                                     # one more coroutine in flight
        await mpc.barrier('B')
        w = x[-1] * y                                       # pending at shutdown
        r = await mpc.output(x[0])
        return r

    cancelled.expected_exc = (asyncio.InvalidStateError,)
    return {'fire_and_forget': fire_and_forget, 'barriers': barriers, 'nested': nested, 'early': early, 'faulty': faulty,
            'cancelled': cancelled}


class Monitor:
    def __init__(self, net):
        self.net = net
        m = net.m
        self.tasks = [[] for _ in range(m)]        # (task, created_in_shutdown)
        self.in_shutdown = [False] * m
        self.problems = []
        self.hist = [[] for _ in range(m)]         # level-machine events
        self.level_obs = [[] for _ in range(m)]    # (event index, real _pc_level)
        self.nontrivial = False
        self.ids = {}

    def __enter__(self):
        mon = self
        self.o_task = asyncoro.Task
        self.o_barrier = rtmod.Runtime.barrier
        self.o_shutdown = rtmod.Runtime.shutdown
        self.o_close = asyncoro.MessageExchanger.close_connection
        self.o_reconcile = asyncoro._reconcile

        def Task(coro, loop=None):
            tk = mon.o_task(coro, loop=loop)
            p = CUR.get()
            tid = len(mon.ids)
            mon.ids[id(tk)] = tid
            mon.tasks[p].append((tk, mon.in_shutdown[p]))
            mon.hist[p].append(f'c{tid}')
            # NB: no level observation here: an enclosing coroutine call may be in progress (its level increment
            # is done, its Task not yet created); levels are compared at _reconcile time (no call in progress)

            def fin(t, p=p, tid=tid):
                mon.hist[p].append(f'f{tid}')
            tk.add_done_callback(fin)       # registered before mpc_coro's own callback: runs first
            return tk

        def _reconcile(decl, task):
            p = CUR.get()
            r = None
            try:
                r = mon.o_reconcile(decl, task)
            finally:
                mon.hist[p].append(f'r{mon.ids.get(id(task), -1)}')
                mon.level_obs[p].append((len(mon.hist[p]), mon.net.rts[p]._pc_level))
            return r

        async def barrier(rt, name=None):
            p = rt.pid
            before = [tk for tk, sh in mon.tasks[p] if not sh]
            if any(not tk.done() for tk in before):
                mon.nontrivial = True
            depth = rt._program_counter[1]
            await mon.o_barrier(rt, name)
            if rt.options.no_barrier:
                return
            if rt._pc_level > rt._program_counter[1]:
                mon.problems.append(f'party {p}: barrier returned with level {rt._pc_level} > depth {rt._program_counter[1]}')
            if depth == 0:
                pend = [tk for tk in before if not tk.done()]
                if pend:
                    mon.problems.append(f'party {p}: top-level barrier returned while {len(pend)} earlier coroutine(s) '
                                        f'are unfinished: {[str(t.get_coro())[:60] for t in pend[:2]]}')

        async def shutdown(rt):
            p = rt.pid
            if any(not tk.done() for tk, sh in mon.tasks[p]):
                mon.nontrivial = True
            mon.in_shutdown[p] = True
            return await mon.o_shutdown(rt)

        def close_connection(ex):
            p = CUR.get()
            for q in range(mon.net.m):
                pend = [tk for tk, sh in mon.tasks[q] if not sh and not tk.done()]
                if pend:
                    mon.problems.append(f'party {p} closes a connection while party {q} still has {len(pend)} unfinished '
                                        f'coroutine(s): {[str(t.get_coro())[:60] for t in pend[:2]]}')
            return mon.o_close(ex)

        asyncoro.Task = Task
        asyncoro._reconcile = _reconcile
        rtmod.Runtime.barrier = barrier
        rtmod.Runtime.shutdown = shutdown
        asyncoro.MessageExchanger.close_connection = close_connection
        return self

    def __exit__(self, *exc):
        asyncoro.Task = self.o_task
        asyncoro._reconcile = self.o_reconcile
        rtmod.Runtime.barrier = self.o_barrier
        rtmod.Runtime.shutdown = self.o_shutdown
        asyncoro.MessageExchanger.close_connection = self.o_close
        return False


def run_case(name, m, t, no_prss, seed, mode, no_barrier=False):
    prog = progs()[name]
    net = SimNet(m, t, no_prss=no_prss, seed=seed, sched=Scheduler(seed, mode), max_steps=1_000_000,
                 no_barrier=no_barrier)
    net.expected_exc = getattr(prog, 'expected_exc', ())
    with Monitor(net) as mon:
        try:
            res = net.run(prog)
        except (Deadlock, PartyError) as exc:
            return None, mon, f'shutdown/run does not complete: {type(exc).__name__}: {str(exc)[:300]}'
    if mon.problems:
        return net, mon, mon.problems[0]
    for (a, b), tr in net.transports.items():
        if not tr.closed:
            return net, mon, f'connection {a}-{b} not closed after shutdown'
    for p in range(m):
        pend = [tk for tk, sh in mon.tasks[p] if not tk.done()]
        if pend:
            return net, mon, f'party {p}: {len(pend)} coroutine task(s) unfinished after shutdown returned'
        if net.rts[p]._pc_level != 0:
            return net, mon, f'party {p}: _pc_level = {net.rts[p]._pc_level} after shutdown'
    return net, mon, None


CFGS = [(1, 0, False), (2, 0, False), (3, 1, False), (3, 1, True), (5, 2, False)]
MODES = ['random', 'starve', 'lazynet', 'eagernet']


def run(ctx):
    rng = ctx.rng
    lines, exps, metas = [], [], []
    for (m, t, no_prss) in CFGS + ([(4, 1, True), (7, 3, False)] if ctx.thorough else []):
        for name in progs():
            for k in range(ctx.scale(6, 60)):
                seed = rng.randrange(10**9)
                mode = MODES[k % 4]
                no_barrier = (k % 3 == 2)   # option --no-barrier: barriers are no-ops, shutdown must still wait
                net, mon, msg = run_case(name, m, t, no_prss, seed, mode, no_barrier)
                ctx.case((name, m, t, no_prss, seed, no_barrier), nontrivial=mon.nontrivial)
                ctx.count('no_barrier' if no_barrier else 'barriers-enabled')
                ctx.count('program:' + name)
                ctx.count(f'cfg:m{m}t{t}{"np" if no_prss else ""}')
                if msg:
                    ctx.violation('C35: ' + msg, {'kind': 'c35', 'program': name, 'm': m, 't': t, 'no_prss': no_prss,
                                                  'seed': seed, 'mode': mode, 'no_barrier': no_barrier})
                    return
                if k == 0:
                    for p in range(m):
                        # level machine replay: history + observed levels at the recorded points
                        obs_pts = mon.level_obs[p]
                        lines.append('hist ' + (','.join(mon.hist[p]) or '-') + ' ' +
                                     (','.join(str(i) for i, _ in obs_pts) or '-'))
                        exps.append('wf=1 ' + (','.join(str(l_) for _, l_ in obs_pts) or '-'))
                        metas.append(f'{name} m={m} party {p} seed {seed}')
                    if len(ctx.samples) < 2:
                        ctx.sample({'program': name, 'm': m, 'seed': seed, 'history_prefix': mon.hist[0][:12]})
    model = common.LeanDriver('Level').run(lines)
    ctx.compare('level replay (_pc_level of the runtime vs MpycV.Level machine)', exps, model, metas)


def search(ctx):
    rng = ctx.subrng('search')
    names = list(progs())
    for k in range(ctx.scale(800, 5000)):
        m, t, no_prss = rng.choice(CFGS)
        name = names[k % len(names)]
        seed = rng.randrange(10**9)
        mode = rng.choice(MODES)
        nb = rng.random() < 0.4
        net, mon, msg = run_case(name, m, t, no_prss, seed, mode, nb)
        if msg:
            ctx.violation('C35: ' + msg, {'kind': 'c35', 'program': name, 'm': m, 't': t, 'no_prss': no_prss,
                                          'seed': seed, 'mode': mode, 'no_barrier': nb})
            return


def replay(ctx, data):
    net, mon, msg = run_case(data['program'], data['m'], data['t'], data['no_prss'], data['seed'], data['mode'],
                             data.get('no_barrier', False))
    return msg is None, msg or 'ok'
