"""C02 — secure fixed-point arithmetic stays within its rounding bounds.

Model: lean/MpycV/Model/Fxp.lean (scaled integers; `trunc`, `>>` and the output conversion are the
literal field computations).  Theorems: MpycV.C02 (exactness of +,-,neg and of comparisons' sign test,
trunc_floor_or_ceil, trunc_opened, mul_within_one_unit, mul_public_float_bound, inProd_within_one_unit).
Tie: every instruction of random fixed-point programs run on the real code (harness/simnet.py, m in
{1,3,5}, PRSS on/off) is replayed through lean/Drv/Fxp.lean with the real inputs and the real
randomness of `trunc`, recovered by recombining the shares the parties hold of `random_bits`/`_randoms`;
result AND the value opened inside `trunc` must be equal (set membership {floor, ceil} per truncation
where the randomness cannot be aligned: `pow`).
Oracle: exact `fractions.Fraction` arithmetic with the bounds stated in the property on the actual
inputs of every instruction, plus a propagated bound for whole programs (compositions).
"""
import json
import os
import sys

sys.path.insert(0, os.path.dirname(os.path.dirname(os.path.abspath(__file__))))
import fxp_lib as L  # noqa: E402

LEVEL = 'other'
LEAN_MODULES = ['MpycV.Props.C02']
LEAN_NAMESPACES = ['MpycV.C02']
REQUIRED_THEOREMS = ['add_sub_neg_exact', 'output_exact', 'cmp_exact', 'mulInt_exact', 'trunc_range_ok',
                     'trunc_floor_or_ceil', 'trunc_opened', 'trunc_within_one_unit', 'mul_within_one_unit',
                     'roundHalfEven_err', 'mul_public_float_bound', 'inProd_within_one_unit']
RULE = ('case = one executed instruction of a random fixed-point program: (party configuration (m,t,PRSS), type (l,f) in '
        '{(8,4),(16,8),(32,16),(64,32),(24,6)}, operation, actual opened argument values incl. 0, +-1, +-2^-f, half-way '
        'floats, extremes of the type, flags, recovered randomness of trunc); operations: +,-,neg, comparisons, products '
        '(secure, int, float with every trailing-zero count, square), in_prod, prod, schur_prod, scalar_mul, matrix_prod, '
        'pow (n<=6), trunc by 1..f bits, division (secure/secure, secure/float, float/secure), sin, cos, if_else/if_swap, '
        'min/max/abs/sgn; distinct = distinct (type, operation, argument values, constant); non-trivial = the instruction '
        'truncates or divides')
EXPLANATION = ('PROVED in Lean for all inputs and all randomness (MpycV.C02, relative to the stated range hypotheses): +, -, negation '
               'exact; comparisons decided by the sign of the exact difference (the sign protocol itself is property C01); '
               'truncation by 2^d returns floor or floor+1 of the exact quotient for EVERY randomness, floor when 2^d divides; '
               'the value opened inside trunc; secure*secure within one unit for every flag combination; secure*int exact; '
               'secure*float within 1+|x|/2 <= 2(1+|x|) units incl. the trailing-zero optimisation; in_prod within one unit. '
               'VALIDATED ONLY (differential exploration of the real code against exact rationals, not proved): x**n within '
               'n(1+|x|)^(n-1) units; sin/cos (literal bound 4 units holds for moderate arguments only: known finding '
               'C02-sincos-large-argument, the phase error grows like 0.049|x| units; regression bound enforced: 4+|x|/16 units); division/reciprocal: the Newton iteration with float constants is '
               'not modelled. Reading of the division clause: the bound as literally stated, 16(1+|x|) units, does not hold for '
               'small divisors (known finding C02-div-small-divisor) nor for types with l > 2f+1 (known finding '
               'C02-div-wide-type); the check enforces the regression bound 16(1+|x|+|x/y|) units for l <= 2f+1 and |y| >= 2^-f, '
               'so any other division regression is a plain violation.')
ASSUMPTIONS = ['the share layer (C11/C12): a secure number is the field element its shares encode; resharing does not change it',
               'sgn/is_zero protocols return the sign of their argument (C01); only the fixed-point part (difference, shift by f) is modelled',
               'Python float * 2**f is exact and round() is half-to-even; math.sin/math.cos are accurate to 2^-10 units',
               'probabilistic equality test [NO07] (used for l/2 > k) errs with probability 2^-k per test: a wrong == / != '
               'is re-run once with fresh randomness before it is reported']
TRUSTED = ['harness/fxp_lib.py: interpreter, randomness recovery (Lagrange recombination of logged shares), Fraction oracle']

KEYS = {'div-small': 'C02-div-small-divisor', 'div-wide': 'C02-div-wide-type', 'sincos-large': 'C02-sincos-large-argument'}

OPS = ['add', 'sub', 'neg', 'mul', 'mul', 'mul', 'sq', 'muli', 'mulf', 'mulf', 'mulf', 'addf', 'lshift', 'cmp', 'cmp',
       'ifelse', 'sum', 'inprod', 'inprod', 'prod', 'prod', 'schur', 'smul', 'matprod', 'pow', 'pow', 'trunc', 'trunc',
       'abs', 'min', 'max', 'div', 'div', 'divf', 'rdivf', 'vadd', 'ifswap']
OPS_TRIG = OPS + ['sin', 'cos', 'sin', 'cos']


def directed(lf):
    l, f = lf
    u = 2.0 ** -f
    hi = 2.0 ** (l - f - 1)
    progs = []
    # extremes: most negative product in range, products of +-2^-f, half-way float factors
    a = -(2.0 ** ((l - f - 1) // 2)) - u
    b = 2.0 ** ((l - f - 1) - (l - f - 1) // 2) - 2 * (2.0 ** ((l - f - 1) - (l - f - 1) // 2)) * u * 2
    progs.append([['cfloat', [], a.hex()], ['cfloat', [], (b / 2 + u).hex()], ['mul', [0, 1], None], ['schur', [[0], [1]], None],
                  ['smul', [0, [1]], None], ['prod', [[0, 1]], None], ['matprod', [[[0]], [[1]]], 0], ['inprod', [[0], [1]], None]])
    progs.append([['cfloat', [], u.hex()], ['cfloat', [], (-u).hex()], ['mul', [0, 1], None], ['sq', [0], None], ['mulf', [0], (0.5).hex()],
                  ['mulf', [1], (0.5).hex()], ['mulf', [0], (1.5 * u).hex()], ['mulf', [0], (2.5 * u).hex()], ['trunc', [0], 1], ['trunc', [1], 1]])
    progs.append([['cfloat', [], (hi - u).hex()], ['cfloat', [], (-hi).hex()], ['mulf', [0], (0.5).hex()], ['mulf', [1], (0.5).hex()],
                  ['mulf', [1], (0.999).hex()], ['trunc', [0], f], ['trunc', [1], f], ['trunc', [1], 1], ['muli', [1], 1], ['neg', [0], None]])
    progs.append([['cfloat', [], (1 + u).hex()], ['pow', [0], 2], ['pow', [0], 3], ['pow', [0], 5], ['pow', [0], 6], ['cfloat', [], (-1.25).hex()],
                  ['pow', [5], 2], ['pow', [5], 3], ['pow', [5], 4]])
    # comparisons at the boundaries of the range: the most negative value against 0, operands exactly half a range apart
    # (their difference is +-2^(l-f-1)), and neighbours of those
    q = hi / 2
    progs.append([['cfloat', [], (-hi).hex()], ['cint', [], 0], ['eq', [0, 1], None], ['ne', [0, 1], None], ['lt', [0, 1], None],
                  ['ge', [0, 1], None], ['sgn', [0], None], ['cfloat', [], q.hex()], ['cfloat', [], (-q).hex()], ['eq', [7, 8], None],
                  ['ne', [7, 8], None], ['eq', [8, 7], None], ['cfloat', [], (q - u).hex()], ['eq', [12, 8], None],
                  ['ne', [12, 8], None], ['cfloat', [], (hi - u).hex()], ['eq', [15, 0], None], ['sgn', [15], None]])
    if l <= 2 * f + 1:
        progs.append([['cint', [], 1], ['cfloat', [], (0.75).hex()], ['div', [0, 1], None], ['cfloat', [], (-3.0).hex()], ['div', [0, 3], None],
                      ['divf', [1], (0.5).hex()], ['rdivf', [1], (1.0).hex()], ['cfloat', [], (1.0).hex()], ['div', [7, 7], None]])
    return progs


# directed inputs of the two known division findings (run in every run so the KNOWN-FINDING lines appear)
KNOWN_DIRECTED = [
    ((16, 8), [['craw', [], -104], ['craw', [], 1], ['div', [0, 1], None]]),
    ((32, 16), [['craw', [], -97525], ['craw', [], -5], ['div', [0, 1], None]]),
    ((24, 6), [['cfloat', [], (1754.96875).hex()], ['cfloat', [], (-1 / 64).hex()], ['div', [0, 1], None]]),
    ((32, 16), [['cfloat', [], (3421.75).hex()], ['cos', [0], None], ['cfloat', [], (10000.0).hex()], ['sin', [2], None]]),
]


def run(ctx):
    cfgs = list(L.CFGS_QUICK) + (list(L.CFGS_MORE) if ctx.thorough else [(5, 2, True)])
    jobs = []
    for ci, cfg in enumerate(cfgs):
        main = ci < 3
        n = ctx.scale(6, 80) if main else ctx.scale(2, 30)
        for lf in L.TYPES:
            for i in range(n):
                trig = i % 6 == 0 and lf != (64, 32) or (ctx.thorough and i % 10 == 0)
                jobs.append((f'c02:{cfg}:{lf}:{i}', cfg, lf, ctx.seed,
                             {'depth': ctx.scale(4, 6), 'len': 9, 'ops': OPS_TRIG if trig else OPS, 'div': True,
                              'trig': trig, 'forced': False}))
            if main:
                for di, prog in enumerate(directed(lf)):
                    jobs.append((f'c02d:{di}:{cfg}:{lf}', cfg, lf, ctx.seed, {'prog': prog, 'forced': False}))
    # small security parameters (an option of every configuration): k only affects privacy, never the result;
    # the probabilistic equality test is the one documented exception and is left out of these jobs
    ops_k = [o for o in OPS if o not in ('cmp', 'ifelse', 'ifswap')]
    for cfg in L.CFGS_SMALLK:
        for lf in L.TYPES:
            for i in range(ctx.scale(3, 40)):
                jobs.append((f'c02k:{cfg}:{lf}:{i}', cfg, lf, ctx.seed,
                             {'depth': ctx.scale(4, 6), 'len': 9, 'ops': ops_k, 'div': True, 'forced': False}))
    for lf, prog in KNOWN_DIRECTED:
        jobs.append((f'known:{lf}', (1, 0, False), lf, ctx.seed, {'prog': prog, 'forced': False}))
        jobs.append((f'known3:{lf}', (3, 1, False), lf, ctx.seed, {'prog': prog, 'forced': False}))
    jobs += L.prod_sweep_jobs(ctx, 'c02', forced=False)
    results = L.explore(ctx, jobs)
    items = []
    for r in results:
        lf = tuple(r['lf'])
        handle(ctx, r, lf)
        its = L.corr_items(r['prog'], r['res'], lf)
        for it in its:
            it['origin'] = {'cfg': r['cfg'], 'lf': r['lf'], 'prog': r['prog'], 'index': it.get('index')}
        items.extend(its)
    L.run_corr(ctx, items, 'fixed-point arithmetic (runtime.py trunc/mul/... vs MpycV.Fxp)')


def handle(ctx, r, lf, retry=True):
    prog, res = r['prog'], r['res']
    recs = res['records']
    ivals, _ = L.arg_values(prog, recs)
    for idx, (ins, rec) in enumerate(zip(prog, recs)):
        if 'out' in rec and ivals[idx] is not None:
            op = ins[0]
            ctx.case((lf, op, repr(ivals[idx]), repr(ins[2])), nontrivial=op in L.TRUNC_OPS or op in ('div', 'divf', 'rdivf', 'sin', 'cos'))
            ctx.count('op:' + op)
            if 'calls' in rec:
                ctx.count('trunc-calls-recovered', len(rec['calls']))
    ctx.count(f'cfg:m={r["cfg"][0]},t={r["cfg"][1]},{"noprss" if r["cfg"][2] else "prss"}' + (f',k={r["cfg"][3]}' if len(r['cfg']) > 3 else ''))
    ctx.count(f'type:{lf[0]},{lf[1]}')
    if len(ctx.samples) < 3 and len(prog) > 4:
        ctx.sample({'cfg': r['cfg'], 'lf': r['lf'], 'prog': prog[:8], 'opened': [rec.get('out') for rec in recs[:8]]})
    viol = L.check_program(prog, res, lf, None, want=('bounds', 'forced'))
    seen_keys = set()
    for kind, msg, det in viol:
        idx = det.get('index')
        rep = {'kind': 'program', 'cfg': r['cfg'], 'lf': r['lf'], 'prog': prog if idx is None else prog[:idx + 1],
               'seed': ctx.seed, 'check': kind, 'detail': det,
               'observed': [rec.get('out', rec.get('error')) for rec in recs][:None if idx is None else idx + 1]}
        if kind in KEYS:
            if kind not in seen_keys:
                seen_keys.add(kind)
                rep['finding_key'] = KEYS[kind]
                ctx.violation('C02: ' + msg, rep)
            continue
        if kind == 'forced' and idx is not None and L._uses_div(prog, idx) and any(k in seen_keys for k in KEYS):
            continue   # downstream of a division that already exceeded its (known) bound
        if retry and idx is not None and prog[idx][0] in ('eq', 'ne') and lf[0] / 2 > (res.get('k') or 30):
            # [NO07] equality test: error probability 2^-k; re-run once with fresh randomness
            res2 = L.run_real(tuple(r['cfg']), lf, prog, seed=ctx.seed + 7919)
            ctx.note(f'probabilistic equality test disagreed once, re-run: {msg}')
            r2 = dict(r)
            r2['res'] = res2
            handle(ctx, r2, lf, retry=False)
            return
        ctx.violation('C02: ' + msg, rep)
        break


def replay(ctx, data):
    prog = data['prog']
    lf = tuple(data['lf'])
    res = L.run_real(tuple(data['cfg']), lf, prog, seed=data.get('seed', 0))
    viol = L.check_program(prog, res, lf, None, want=('bounds', 'forced'))
    key = data.get('finding_key')
    inv = {v: k for k, v in KEYS.items()}
    if key:   # replay of a known finding: does THIS finding still reproduce?
        hit = [v for v in viol if v[0] == inv.get(key)]
        return (not hit), (hit[0][1] if hit else 'the known finding no longer reproduces')
    viol = [v for v in viol if v[0] not in KEYS]
    if viol:
        return False, viol[0][1]
    return True, 'ok: all results within the bounds of the property'


def search(ctx):
    jobs = []
    for cfg in L.CFGS_SMALLK + L.CFGS_QUICK:
        for lf in L.TYPES:
            for i in range(ctx.scale(60, 200)):
                jobs.append((f'c02s:{cfg}:{lf}:{i}', cfg, lf, ctx.seed + 1, {'depth': 5, 'len': 10, 'ops': OPS, 'div': True, 'forced': False}))
    for r in L.explore(ctx, jobs):
        handle(ctx, r, tuple(r['lf']))
        if any(not (isinstance(rep, dict) and rep.get('finding_key')) for _, rep in ctx.violations):
            return
