"""C31 — secure lists behave like Python lists under any operation history.

Model: lean/MpycV/Model/SecList.lean (value layer: contents = List Int; secret-index operations transcribed
from seclists.py: inner products with unit vectors, step-function shifting, `_norm` scan, `find` recursion).
Theorems: MpycV.C31 (per-operation refinement to Python list semantics, history_refines, only_len_public).
Tie: the REAL `seclist`/`secindex` run on the in-process simulator (m = 1 bulk, m = 3 sample) over random
operation histories; after EVERY step the contents are opened and compared with
  (a) a plain Python list subjected to the same history  (independent oracle, source of replays),
  (b) the Lean driver `Drv/SecList.lean`                  (correspondence).
"Only len is public" oracle on the real code: twin histories with the same public shape but different secret
values must produce the same sequence of runtime-primitive calls (name, vector length) and, for m = 3, the
same sequence of (sender, receiver, #bytes) writes on the wire.
"""
import functools
import os
import sys

sys.path.insert(0, os.path.dirname(os.path.dirname(os.path.abspath(__file__))))
import simnet  # noqa: E402  (sets argv for mpyc, installs the party proxy)
from simnet import SimNet, PartyError, Deadlock  # noqa: E402
import mpyc.runtime as rtmod  # noqa: E402
from mpyc import seclists as _seclists_mod  # noqa: E402
from mpyc.seclists import seclist, secindex  # noqa: E402
import common  # noqa: E402
import random  # noqa: E402

LEVEL = 'proof'
LEAN_MODULES = ['MpycV.Props.C31']
LEAN_NAMESPACES = ['MpycV.C31']
REQUIRED_THEOREMS = ['getitem_refines', 'setitem_refines', 'delitem_refines', 'insert_refines', 'pop_refines',
                     'count_refines', 'contains_refines', 'find_refines', 'index_refines', 'remove_refines',
                     'sort_refines', 'lt_refines', 'cmp_refines', 'eq_refines', 'step_refines',
                     'history_refines', 'only_len_public', 'unitVector_spec', 'shared_index_parallel',
                     'shared_index_parallel_del', 'pop_then_insert_same_index']
RULE = ('case = one operation history on one secure list: element type from {SecInt(16), SecInt(32), SecFxp(16,4), '
        'SecFxp(32,8)} (fixed-point lists mix integral and non-integral values), initial length 0..6, then up to 12 (quick) / 40 '
        '(thorough) operations drawn from get/set/del/insert/pop with public int (incl. negative and out-of-range), secret number, '
        'secindex with offset and plain list-of-bits keys, slices with steps (get/set/del), append/extend/+/radd/*/*=/copy, '
        'count/contains/find/index/remove (present and absent values), sort (both directions), the six comparisons against '
        'prefixes/extensions/perturbations/empty lists; list length kept <= 8; error injections: wrong-length index vectors, '
        'non-integral fixed-point index, secret index into an empty list, slice step 0, extended-slice size mismatch. '
        'distinct = distinct (type, init, ops) tuples; non-trivial = at least one secret-key or comparison/find operation. '
        '35 % of the histories run on TWO parallel lists; with probability 0.6 a keyed operation re-uses the very same index '
        'OBJECT (secindex / list of bits) as the previous keyed operation where its public length fits (insert/insert and del/del '
        'on parallel lists, pop/insert, get after insert, set after del). After every keyed call the caller\'s index object is '
        'opened and must still be the value it was built from (operations do not corrupt their arguments). '
        'Contents of the list operated on (and of the other list) are opened and compared after EVERY step.')
EXPLANATION = ''
ASSUMPTIONS = [
    'value layer: a secure number is the integer (scaled integer for secfxp) its sharing encodes; runtime primitives '
    '(in_prod, schur_prod, scalar_mul, vector_add/sub, sum, ==, sgn, if_else, all, eq_public) compute their exact integer '
    'functions without wrap-around (C01/C11; list values are far below the field size)',
    'runtime._sort returns the ascending arrangement (C29): hypothesis `SortSpec` of sort_refines/history_refines',
    'CPython list semantics for public indices and slices as transcribed in MpycV.SecList.Py (compared on every run)',
]
TRUSTED = ['harness/props/c31.py: history generator, plain-Python-list oracle, call tracer (wrappers on Runtime methods, '
           'not repo edits)']

TYPES = {'int16': (16, 0), 'int32': (32, 0), 'fxp16_4': (16, 4), 'fxp32_8': (32, 8)}
MAXLEN = 8
CMPS = ['lt', 'le', 'eq', 'ge', 'gt', 'ne']


# ---------------------------------------------------------------------------------------------
# history generation: every PUBLIC choice from `sh` (shape rng), every SECRET choice from `se`
# ---------------------------------------------------------------------------------------------
class Gen:
    def __init__(self, sh, se, tname, present_only=False):
        self.sh, self.se = sh, se
        self.tname = tname
        self.f = TYPES[tname][1]
        self.unit = 1 << self.f
        self.present_only = present_only

    def val(self):
        """a fresh secret value (scaled); its integrality flag is public (shape rng)"""
        u = self.unit
        if self.f == 0 or self.sh.random() < 0.5:
            return self.se.randrange(-9, 10) * u
        while True:
            v = self.se.randrange(-9 * u, 9 * u + 1)
            if v % u:
                return v

    def vals(self, k):
        return [self.val() for _ in range(k)]

    def bits(self, p, n):
        return [1 if j == p else 0 for j in range(n)]

    def key(self, n, bound):
        """key for a list op; bound = number of valid positions (n, or n+1 for insert)"""
        sh, se = self.sh, self.se
        r = sh.random()
        if r < 0.28:  # public int
            q = sh.random()
            if q < 0.7 and bound > 0:
                i = sh.randrange(-bound, bound)
            else:
                i = sh.choice([-bound - 1, bound, bound + 2, -bound - 3, 0, -1])
            return ['p', i], None
        if bound == 0 or (r > 0.97):  # secret key on an empty list / error injections
            q = sh.random()
            if bound == 0:
                if q < 0.5:
                    return ['s', se.randrange(0, 3) * self.unit], None
                return ['u', 0, []], 'oob'          # empty index vector on an empty list: no in-range position exists
            if q < 0.5 and self.f:
                a = se.randrange(0, bound) * self.unit + se.randrange(1, self.unit)
                return ['s', a], 'ValueError'       # non-integral fixed-point index (flag is public)
            wrong = sh.choice([bound - 1, bound + 1])
            return ['l', self.bits(se.randrange(0, max(1, wrong)), wrong)], 'IndexError'   # wrong public length
        if r > 0.95:          # out-of-range secret number: outside the property's guard, correspondence only
            return ['s', se.choice([bound, bound + 1, -1, -2, bound + 5, 2 * bound, 17]) * self.unit], 'oob'
        p = se.randrange(0, bound)
        if r < 0.6:
            return ['s', p * self.unit], None
        if r < 0.85:
            off = sh.randrange(0, bound)
            if off > p:           # offset is public, position secret: keep the offset, move the position
                p = se.randrange(off, bound)
            return ['u', off, self.bits(p - off, bound - off)], None
        return ['l', self.bits(p, bound)], None

    def slice_(self, n):
        sh = self.sh

        def end():
            return None if sh.random() < 0.3 else sh.randrange(-n - 2, n + 3)
        step = sh.choice([None, None, 1, 1, 2, 3, -1, -1, -2, 0 if sh.random() < 0.15 else 2])
        return [end(), end(), step]

    def op(self, cur, force=None):
        """one operation for a list with current contents `cur` (only len(cur) and public outcomes steer `sh`);
        force = (kind, key spec): a keyed operation re-using an existing index object"""
        sh, se = self.sh, self.se
        n = len(cur)
        if force is not None:
            op = {'op': force[0], 'key': force[1], 'reuse': True}
            if force[0] in ('set', 'insert'):
                op['v'] = self.val()
            return op
        kinds = ['get', 'get', 'set', 'set', 'del', 'insert', 'insert', 'pop', 'append', 'extend', 'add', 'radd', 'mul',
                 'imul', 'copy', 'count', 'contains', 'find', 'find', 'index', 'remove', 'sort', 'cmp', 'cmp', 'cmp',
                 'getsl', 'setsl', 'delsl']
        while True:
            kind = sh.choice(kinds)
            if kind in ('insert', 'append') and n >= MAXLEN:
                continue
            break
        op = {'op': kind}
        if kind in ('get', 'del', 'pop'):
            op['key'], err = self.key(n, n)
        elif kind == 'set':
            op['key'], err = self.key(n, n)
            op['v'] = self.val()
        elif kind == 'insert':
            op['key'], err = self.key(n, n + 1)
            op['v'] = self.val()
        else:
            err = None
        if err == 'oob':
            op['oob'] = True
        elif err:
            op['expect_err'] = err
        if kind == 'append':
            op['v'] = self.val()
        elif kind in ('extend', 'add', 'radd'):
            k = sh.randrange(0, 4)
            if kind == 'extend':
                k = min(k, MAXLEN - n)
            op['vs'] = self.vals(k)
        elif kind in ('mul', 'imul'):
            hi = 3 if kind == 'mul' else max(1, MAXLEN // max(n, 1))
            op['n'] = sh.choice([-1, 0, 1, 2, 3][:2 + min(hi, 3)])
        elif kind in ('count', 'contains', 'find', 'index', 'remove'):
            want_present = n > 0 and (self.present_only or sh.random() < 0.7)
            if self.present_only and n == 0 and kind in ('index', 'remove'):
                op['op'] = kind = 'find'
            if want_present:
                op['v'] = cur[se.randrange(0, n)]
            else:
                while True:
                    v = self.val()
                    if v not in cur:
                        break
                op['v'] = v
            op['present'] = bool(want_present)
        elif kind == 'sort':
            op['reverse'] = sh.random() < 0.4
        elif kind == 'cmp':
            op['cmp'] = sh.choice(CMPS)
            q = sh.random()
            if q < 0.2:
                k = n
            elif q < 0.5:
                k = sh.randrange(0, n + 1)
            elif q < 0.75:
                k = n + sh.randrange(1, 3)
            else:
                k = sh.randrange(0, MAXLEN + 1)
            other = list(cur[:k]) + self.vals(max(0, k - n))
            if other and se.random() < 0.5:      # perturb one position (secret choice)
                j = se.randrange(0, len(other))
                other[j] = other[j] + se.choice([-1, 1]) * self.unit
            if se.random() < 0.15:
                other = self.vals(k)
            op['other'] = other
            op['plain'] = sh.random() < 0.25
        elif kind == 'getsl' or kind == 'delsl':
            op['sl'] = self.slice_(n)
        elif kind == 'setsl':
            op['sl'] = sl = self.slice_(n)
            ind = None if sl[2] == 0 else slice(*sl).indices(n)
            if ind is None:
                k = sh.randrange(0, 3)
            elif ind[2] == 1:
                k = sh.randrange(0, 4)
                k = max(0, min(k, MAXLEN - n + len(range(*ind))))
            else:
                k = len(range(*ind))
                if sh.random() < 0.2:
                    k += sh.choice([-1, 1])
                    k = max(0, k)
            op['vs'] = self.vals(k)
        return op


def gen_history(shape_seed, secret_seed, tname, n_ops, present_only=False):
    sh = random.Random(f'sh:{shape_seed}')
    se = random.Random(f'se:{secret_seed}')
    g = Gen(sh, se, tname, present_only)
    init = g.vals(sh.choice([0, 1, 2, 3, 3, 4, 5, 6]))
    h = {'type': tname, 'init': init}
    curs = {1: list(init)}
    if sh.random() < 0.35:       # a companion list of the same length (parallel lists sharing index objects)
        h['init2'] = g.vals(len(init))
        curs[2] = list(h['init2'])
    ops = []
    last = None                  # key spec of the last index OBJECT handed to the list (secindex / list of bits)
    for _ in range(n_ops):
        which = 2 if 2 in curs and sh.random() < 0.45 else 1
        force = None
        if last is not None and sh.random() < 0.6:
            # re-use the very same index object where its (public) length fits: insert/insert, del/del on parallel
            # lists, pop/insert, get after insert, set after del, ...
            veclen = last[1] + len(last[2]) if last[0] == 'u' else len(last[1])
            cands = []
            for w, c in sorted(curs.items()):
                if veclen == len(c) and veclen > 0:
                    cands += [(w, k) for k in ('get', 'set', 'del', 'pop')]
                if veclen == len(c) + 1 and len(c) < MAXLEN:
                    cands.append((w, 'insert'))
            if cands:
                which, kind = sh.choice(cands)
                force = (kind, last)
        op = g.op(curs[which], force)
        if which == 2:
            op['on'] = 2
        res, curs[which] = py_apply(curs[which], op, g.f)
        ops.append(op)
        if op.get('oob') and op['op'] != 'get' and op['key'] != ['u', 0, []]:
            break      # contents after an out-of-range secret write are outside the property: end of history
        if 'key' in op and op['key'][0] in ('u', 'l') and not op.get('oob') and not op.get('expect_err') and \
                key_pos(op['key'], g.f) is not None:
            last = op['key']
        elif 'key' in op and op['key'][0] != 'p':
            last = None
    h['ops'] = ops
    return h


def rename_values(h, seed):
    """twin history: all element values renamed by a strictly increasing, integrality-preserving map;
    positions, lengths, flags, equality and order pattern (hence every public outcome) stay the same"""
    f = TYPES[h['type']][1]
    u = 1 << f
    rng = random.Random(f'ren:{seed}')
    c = rng.choice([1, 2, 3])
    d = rng.randrange(-5, 6)
    if c == 1 and d == 0:
        d = 3

    def g(v):
        q, r = divmod(v, u)          # v = q*u + r: strictly increasing map keeping the fractional part, so the
        return (c * q + d) * u + r   # equality AND order pattern (sort, positions) of the twin history is the same

    def gl(l):
        return [g(v) for v in l]
    ops = []
    for op in h['ops']:
        op = dict(op)
        if 'v' in op:
            op['v'] = g(op['v'])
        if 'vs' in op:
            op['vs'] = gl(op['vs'])
        if 'other' in op:
            op['other'] = gl(op['other'])
        ops.append(op)
    h2 = {'type': h['type'], 'init': gl(h['init']), 'ops': ops}
    if 'init2' in h:
        h2['init2'] = gl(h['init2'])
    return h2


# ---------------------------------------------------------------------------------------------
# oracle: a plain Python list under the same history (written from Python's list semantics)
# ---------------------------------------------------------------------------------------------
def key_pos(k, f):
    if k[0] == 'p':
        return k[1]
    if k[0] == 's':
        return k[1] >> f
    if k[0] == 'u':
        return k[1] + k[2].index(1) if 1 in k[2] else None
    return k[1].index(1) if 1 in k[1] else None


def py_apply(cur, op, f):
    """-> (result, new list); result = ('none',) | ('v', int) | ('l', list) | ('e', name)"""
    x = list(cur)
    kind = op['op']
    try:
        if op.get('expect_err'):
            return ('e', op['expect_err']), cur
        if kind in ('get', 'set', 'del', 'pop', 'insert'):
            p = key_pos(op['key'], f)
            if p is None:
                raise IndexError
            if op['key'][0] != 'p' and kind != 'insert' and not 0 <= p < len(x):
                raise IndexError          # a secret position is a non-negative position
            if kind == 'get':
                return ('v', x[p]), x
            if kind == 'set':
                x[p] = op['v']
                return ('none',), x
            if kind == 'del':
                del x[p]
                return ('none',), x
            if kind == 'pop':
                r = x.pop(p)
                return ('v', r), x
            x.insert(p, op['v'])
            return ('none',), x
        if kind == 'getsl':
            return ('l', x[slice(*op['sl'])]), x
        if kind == 'setsl':
            x[slice(*op['sl'])] = op['vs']
            return ('none',), x
        if kind == 'delsl':
            del x[slice(*op['sl'])]
            return ('none',), x
        if kind == 'append':
            x.append(op['v'])
            return ('none',), x
        if kind == 'extend':
            x.extend(op['vs'])
            return ('none',), x
        if kind == 'add':
            return ('l', x + op['vs']), x
        if kind == 'radd':
            return ('l', op['vs'] + x), x
        if kind == 'mul':
            return ('l', x * op['n']), x
        if kind == 'imul':
            x *= op['n']
            return ('none',), x
        if kind == 'copy':
            return ('l', x.copy()), x
        if kind == 'count':
            return ('v', x.count(op['v'])), x
        if kind == 'contains':
            return ('v', int(op['v'] in x)), x
        if kind == 'find':
            return ('v', x.index(op['v']) if op['v'] in x else -1), x
        if kind == 'index':
            return ('v', x.index(op['v'])), x
        if kind == 'remove':
            x.remove(op['v'])
            return ('none',), x
        if kind == 'sort':
            x.sort(reverse=op['reverse'])
            return ('none',), x
        if kind == 'cmp':
            o, y = op['cmp'], op['other']
            r = {'lt': x < y, 'le': x <= y, 'eq': x == y, 'ge': x >= y, 'gt': x > y, 'ne': x != y}[o]
            return ('v', int(r)), x
    except (IndexError, ValueError) as exc:
        return ('e', type(exc).__name__), cur
    raise AssertionError(kind)


def fmt(res, cur):
    if res[0] == 'none':
        r = 'none'
    elif res[0] == 'v':
        r = f'v:{res[1]}'
    elif res[0] == 'l':
        r = 'l:' + showl(res[1])
    else:
        r = 'e:' + res[1]
    return f'R={r};S={showl(cur)}'


def showl(l):
    return ','.join(str(v) for v in l) if l else '-'


# ---------------------------------------------------------------------------------------------
# the real code
# ---------------------------------------------------------------------------------------------
TRACE = []
TRACE_ON = [False]
_PRIMS = ['unit_vector', 'in_prod', 'vector_add', 'vector_sub', 'scalar_mul', 'schur_prod', 'sum', 'sgn', 'if_else',
          'find', 'indexOf', 'eq_public', 'all', '_sort', 'eq']
_installed = {}


def _from_seclists():
    fr = sys._getframe(2)
    while fr is not None and fr.f_code.co_filename.endswith('sectypes.py'):
        fr = fr.f_back
    return fr is not None and fr.f_code.co_filename.endswith('seclists.py')


def _event(name, a):
    if name == 'unit_vector':
        return f'unit_vector/{a[1]}'
    if name in ('in_prod', 'vector_add', 'vector_sub', 'schur_prod', 'sum', 'find', 'indexOf', 'all', '_sort'):
        return f'{name}/{len(a[0])}'
    if name == 'scalar_mul':
        return f'scalar_mul/{len(a[1])}'
    if name == 'if_else':
        return f'if_else/{len(a[1]) if isinstance(a[1], list) else 1}'
    return name


def install_trace():
    if _installed:
        return
    for name in _PRIMS:
        fn = getattr(rtmod.Runtime, name)
        _installed[name] = fn

        def mk(name, fn):
            @functools.wraps(fn)
            def w(self, *a, **kw):
                if TRACE_ON[0] and simnet.CUR.get() <= 0 and _from_seclists():
                    if name in ('all', 'sum') and a and not isinstance(a[0], list):
                        a = (list(a[0]),) + a[1:]
                    TRACE.append(_event(name, a))
                return fn(self, *a, **kw)
            return w
        setattr(rtmod.Runtime, name, mk(name, fn))


def uninstall_trace():
    for name, fn in _installed.items():
        setattr(rtmod.Runtime, name, fn)
    _installed.clear()


def make_type(mpc, tname):
    l, f = TYPES[tname]
    return mpc.SecInt(l) if f == 0 else mpc.SecFxp(l, f)


async def real_history(mpc, h, stop_after=None):
    """run one history on the real seclist(s); per step -> (result, contents of the list operated on, trace,
    '' or a message (class invariant broken / an argument object was modified), contents of the other list or None)"""
    l, f = TYPES[h['type']]
    u = 1 << f
    st = make_type(mpc, h['type'])

    def num(v):
        return v >> f if v % u == 0 else v / u

    def sec(v):
        return st(num(v))

    def mk(vs):
        return [sec(v) for v in vs]

    def key_new(k):
        if k[0] == 'p':
            return k[1]
        if k[0] == 's':
            return sec(k[1])
        if k[0] == 'u':
            return secindex([st(b) for b in k[2]], offset=k[1], sectype=st)
        return [st(b) for b in k[1]]

    def scaled(v):
        if f == 0:
            return int(v)
        w = v * u
        r = round(w)
        if abs(w - r) > 1e-9:
            raise AssertionError(f'opened value {v} is not a multiple of 2^-{f}')
        return r

    async def openv(a):           # an element value
        if isinstance(a, (int, float)):
            return scaled(a)
        return scaled(await mpc.output(a))

    async def openi(a):           # an index / count / bit
        if isinstance(a, (int, bool)):
            return int(a)
        v = await mpc.output(a)
        if v != int(v):
            raise AssertionError(f'index-like result {v} is not an integer')
        return int(v)

    async def openl(x):
        return [scaled(v) for v in await mpc.output(list(x))] if len(x) else []

    lists = {1: seclist(mk(h['init']), st)}
    if 'init2' in h:
        lists[2] = seclist(mk(h['init2']), st)
    out = []
    keyobj, keyspec = None, None      # the last index OBJECT built; re-used (same object) by ops marked 'reuse'

    def key(k, reuse=False):          # noqa: F811
        nonlocal keyobj, keyspec
        if not (reuse and keyspec == k and keyobj is not None):
            keyobj, keyspec = key_new(k), k
        return keyobj

    async def key_intact():
        """the caller's index object after the call: still the value it was built from?"""
        k, o = keyspec, keyobj
        if k is None or k[0] == 'p':
            return ''
        if k[0] == 's':
            got = scaled(await mpc.output(o))
            return '' if got == k[1] else f'secret index argument changed from {k[1]} to {got}'
        if k[0] == 'u':
            bits, off = k[2], k[1]
            vals = o.value
            if o.offset != off:
                return f'secindex offset changed from {off} to {o.offset}'
        else:
            bits, vals = k[1], o
        got = [int(v) for v in await mpc.output(list(vals))] if len(vals) else []
        return '' if got == list(bits) else f'index vector argument {showl(bits)} was modified by the call: now {showl(got)}'

    for k, op in enumerate(h['ops']):
        kind = op['op']
        which = op.get('on', 1)
        s = lists[which]
        argl = None
        t0 = len(TRACE)
        TRACE_ON[0] = True
        try:
            if kind == 'get':
                res = ('v', await openv(s[key(op['key'], op.get('reuse'))]))
            elif kind == 'set':
                s[key(op['key'], op.get('reuse'))] = sec(op['v']) if k % 2 else num(op['v'])
                res = ('none',)
            elif kind == 'del':
                del s[key(op['key'], op.get('reuse'))]
                res = ('none',)
            elif kind == 'insert':
                s.insert(key(op['key'], op.get('reuse')), sec(op['v']) if k % 2 else num(op['v']))
                res = ('none',)
            elif kind == 'pop':
                res = ('v', await openv(s.pop(key(op['key'], op.get('reuse')))))
            elif kind == 'getsl':
                r = s[slice(*op['sl'])]
                assert isinstance(r, seclist) and r.sectype is st
                res = ('l', await openl(r))
            elif kind == 'setsl':
                vs = op['vs']
                s[slice(*op['sl'])] = mk(vs) if k % 3 == 0 else (seclist(mk(vs), st) if k % 3 == 1 else [num(v) for v in vs])
                res = ('none',)
            elif kind == 'delsl':
                del s[slice(*op['sl'])]
                res = ('none',)
            elif kind == 'append':
                s.append(sec(op['v']) if k % 2 else num(op['v']))
                res = ('none',)
            elif kind == 'extend':
                if k % 3 == 0:
                    argl = mk(op['vs'])
                    s.extend(argl)
                elif k % 3 == 1:
                    s += seclist(mk(op['vs']), st)
                else:
                    s.extend([num(v) for v in op['vs']])
                res = ('none',)
            elif kind == 'add':
                r = s + (seclist(mk(op['vs']), st) if k % 2 else mk(op['vs']))
                assert isinstance(r, seclist) and r.sectype is st
                res = ('l', await openl(r))
            elif kind == 'radd':
                r = mk(op['vs']) + s
                assert isinstance(r, seclist) and r.sectype is st
                res = ('l', await openl(r))
            elif kind == 'mul':
                r = s * op['n'] if k % 2 else op['n'] * s
                assert isinstance(r, seclist) and r.sectype is st
                res = ('l', await openl(r))
            elif kind == 'imul':
                s *= op['n']
                res = ('none',)
            elif kind == 'copy':
                r = s.copy()
                assert isinstance(r, seclist) and r.sectype is st and r is not s
                res = ('l', await openl(r))
            elif kind == 'count':
                res = ('v', await openi(s.count(sec(op['v']) if k % 2 else num(op['v']))))
            elif kind == 'contains':
                res = ('v', await openi(s.contains(sec(op['v']))))
            elif kind == 'find':
                res = ('v', await openi(s.find(sec(op['v']))))
            elif kind == 'index':
                res = ('v', await openi(s.index(sec(op['v']))))
            elif kind == 'remove':
                await s.remove(sec(op['v']))
                res = ('none',)
            elif kind == 'sort':
                s.sort(reverse=op['reverse'])
                res = ('none',)
            elif kind == 'cmp':
                y = [num(v) for v in op['other']] if op['plain'] else seclist(mk(op['other']), st)
                argl = y
                o = op['cmp']
                r = (s < y if o == 'lt' else s <= y if o == 'le' else s == y if o == 'eq' else
                     s >= y if o == 'ge' else s > y if o == 'gt' else s != y)
                res = ('v', await openi(r))
            else:
                raise AssertionError(kind)
        except (IndexError, ValueError, TypeError, NotImplementedError) as exc:
            res = ('e', type(exc).__name__)
        finally:
            TRACE_ON[0] = False
        tr = TRACE[t0:]
        lists[which] = s
        inv = '' if isinstance(s, seclist) and s.sectype is st and all(isinstance(a, st) for a in s) else \
            "seclist invariant broken (items not all of the list's sectype)"
        if not inv and 'key' in op:
            inv = await key_intact()
        if not inv and argl is not None and len(argl) != len(op.get('vs', op.get('other', []))):
            inv = 'a list argument was modified by the call'
        other = [await openl(x) for w, x in lists.items() if w != which]
        out.append((res, await openl(s), list(tr), inv, other[0] if other else None))
        if stop_after is not None and k >= stop_after:
            break
    return out


def run_real(histories, m, seed, wire=False):
    """-> (per history: list of per-step tuples, optional write logs)"""
    results = []
    wlogs = []
    if m == 1:
        net = SimNet(1, 0, seed=seed)
        net.rts[0].options.no_async = True      # what `python prog.py` (no -M) does: exceptions reach the caller

        async def prog(mpc):
            return [await real_history(mpc, h) for h in histories]
        del TRACE[:]
        results = net.run(prog)[0]
        return results, wlogs
    for idx, h in enumerate(histories):
        # reference FIFO schedule, or (every other plain history) a seeded random interleaving with chunked delivery
        sched = None if wire or idx % 2 == 0 else simnet.Scheduler(seed * 1000 + idx, 'random')
        net = SimNet(m, (m - 1) // 2, seed=seed, no_barrier=True, sched=sched)
        wl = []
        if wire:
            net.on_write = lambda a, b, data, wl=wl: wl.append((a, b, len(data)))

        async def prog(mpc, h=h):
            return await real_history(mpc, h)
        del TRACE[:]
        res = net.run(prog)
        for i in range(1, m):
            if [(r[0], r[1]) for r in res[i]] != [(r[0], r[1]) for r in res[0]]:
                raise PartyError(f'parties disagree on opened values: party {i} vs party 0')
        results.append(res[0])
        wlogs.append(wl)
    return results, wlogs


# ---------------------------------------------------------------------------------------------
# driver lines
# ---------------------------------------------------------------------------------------------
def _opt(v):
    return '_' if v is None else str(v)


def key_str(k):
    if k[0] == 'p':
        return f'p:{k[1]}'
    if k[0] == 's':
        return f's:{k[1]}'
    if k[0] == 'u':
        return f'u:{k[1]}:{showl(k[2])}'
    return f'u:0:{showl(k[1])}'


def op_line(op):
    return ('@2 ' if op.get('on') == 2 else '') + _op_line(op)


def _op_line(op):
    kind = op['op']
    if kind in ('get', 'del', 'pop'):
        return f'{kind} {key_str(op["key"])}'
    if kind in ('set', 'insert'):
        return f'{kind} {key_str(op["key"])} {op["v"]}'
    if kind in ('getsl', 'delsl'):
        return f'{kind} ' + ':'.join(_opt(v) for v in op['sl'])
    if kind == 'setsl':
        return 'setsl ' + ':'.join(_opt(v) for v in op['sl']) + ' ' + showl(op['vs'])
    if kind in ('append', 'count', 'contains', 'find', 'index', 'remove'):
        return f'{kind} {op["v"]}'
    if kind in ('extend', 'add', 'radd'):
        return f'{kind} {showl(op["vs"])}'
    if kind in ('mul', 'imul'):
        return f'{kind} {op["n"]}'
    if kind == 'copy':
        return 'copy'
    if kind == 'sort':
        return f'sort {int(op["reverse"])}'
    if kind == 'cmp':
        return f'cmp {op["cmp"]} {showl(op["other"])}'
    raise AssertionError(kind)


def history_lines(h):
    f = TYPES[h['type']][1]
    head = [f'new {f} {showl(h["init"])}'] + ([f'new2 {showl(h["init2"])}'] if 'init2' in h else [])
    return head + [op_line(op) for op in h['ops']]


# ---------------------------------------------------------------------------------------------
# checks
# ---------------------------------------------------------------------------------------------
def oracle_check(h, steps):
    """compare the real run with plain Python lists; -> None or (step, message, expected, observed)"""
    f = TYPES[h['type']][1]
    curs = {1: list(h['init'])}
    if 'init2' in h:
        curs[2] = list(h['init2'])
    for k, (op, (res, contents, _tr, inv, other)) in enumerate(zip(h['ops'], steps)):
        w = op.get('on', 1)
        cur = curs[w]
        if op.get('oob'):                 # outside the in-range guard: Python raises, oblivious code cannot
            curs[w] = list(contents)
            continue
        exp_res, exp_cur = py_apply(cur, op, f)
        if exp_res[0] == 'e' and op.get('expect_err') == 'ValueError' and res[0] == 'e':
            res = exp_res                 # the class of this error is not a Python-list matter
        exp, obs = fmt(exp_res, exp_cur), fmt(res, contents)
        if exp != obs:
            reuse = ' [same index object as in the previous keyed operation]' if op.get('reuse') else ''
            return k, f'step {k} ({op_line(op)}){reuse} on {showl(cur)}: Python list gives {exp}, seclist gives {obs}', exp, obs
        if inv:
            return k, f'step {k} ({op_line(op)}): {inv}', 'arguments and class invariant intact', inv
        curs[w] = exp_cur
        if other is not None and other != curs[3 - w]:
            return (k, f'step {k} ({op_line(op)}) changed the OTHER list: {showl(other)} expected {showl(curs[3 - w])}',
                    showl(curs[3 - w]), showl(other))
    return None


def oracle_states(h):
    """yield (op, list operated on before the op, expected result) along the Python-list run"""
    f = TYPES[h['type']][1]
    curs = {1: list(h['init'])}
    if 'init2' in h:
        curs[2] = list(h['init2'])
    for op in h['ops']:
        w = op.get('on', 1)
        before = curs[w]
        res, curs[w] = py_apply(before, op, f)
        yield op, before, res, curs[w]


def nontrivial(h):
    return any(op['op'] in ('cmp', 'find', 'index', 'remove', 'count', 'contains', 'sort') or
               ('key' in op and op['key'][0] != 'p') for op in h['ops'])


def replay_dict(h, m, seed, k, msg, exp, obs):
    d = {'kind': 'history', 'm': m, 'seed': seed, 'type': h['type'], 'init': h['init'],
         'ops': h['ops'][:k + 1], 'step': k, 'expected': exp, 'observed': obs, 'what': msg}
    if 'init2' in h:
        d['init2'] = h['init2']
    return d


def shrink(h, m, seed, budget=40):
    """greedy: drop earlier operations while some step still contradicts the Python list"""
    def fails(hh):
        try:
            steps, _ = run_real([hh], m, seed)
            return oracle_check(hh, steps[0])
        except (PartyError, Deadlock, AssertionError):
            return None
    bad = fails(h)
    if bad is None:
        return h, None
    h = dict(h, ops=h['ops'][:bad[0] + 1])
    i = 0
    while i < len(h['ops']) - 1 and budget > 0:
        budget -= 1
        cand = dict(h, ops=h['ops'][:i] + h['ops'][i + 1:])
        if not valid(cand):
            i += 1
            continue
        b2 = fails(cand)
        if b2 is not None:
            h = dict(cand, ops=cand['ops'][:b2[0] + 1])
            bad = b2
        else:
            i += 1
    return h, bad


def valid(h):
    """all secret keys denote in-range positions on the Python-list run (the property's guard)"""
    f = TYPES[h['type']][1]
    for op, cur, _res, _after in oracle_states(h):
        if 'key' in op and op['key'][0] != 'p' and not op.get('expect_err'):
            p = key_pos(op['key'], f)
            bound = len(cur) + (1 if op['op'] == 'insert' else 0)
            veclen = None if op['key'][0] == 's' else (op['key'][1] + len(op['key'][2]) if op['key'][0] == 'u' else len(op['key'][1]))
            if bound == 0:
                pass
            elif p is None or not 0 <= p < bound or (veclen is not None and veclen != bound):
                return False
    return True


def static_errors(ctx):
    """error behaviour for public arguments that is not part of a history"""
    def prog_factory():
        async def prog(mpc):
            secint, secfxp = mpc.SecInt(16), mpc.SecFxp(16, 4)
            obs = []

            def tryit(name, fn, want):
                try:
                    fn()
                    got = 'no-error'
                except Exception as exc:   # noqa
                    got = type(exc).__name__
                obs.append((name, want, got))
            tryit('seclist of plain numbers without sectype', lambda: seclist([1, 2]), 'ValueError')
            tryit('seclist mixing sectypes', lambda: seclist([secint(1), secfxp(2)]), 'TypeError')
            tryit('seclist(secint items, secfxp)', lambda: seclist([secint(1)], secfxp), 'TypeError')
            tryit('seclist + seclist of another sectype', lambda: seclist([1], secint) + seclist([1], secfxp), 'TypeError')
            s = seclist([1, 2, 3], secint)

            def setsl():
                s[0:1] = seclist([1], secfxp)
            tryit('slice assignment from a seclist of another sectype', setsl, 'TypeError')
            tryit('item in seclist', lambda: 1 in s, 'NotImplementedError')
            tryit('empty seclist with sectype', lambda: seclist([], secint), 'no-error')
            tryit('getitem with index vector of wrong length', lambda: s[[secint(1), secint(0)]], 'IndexError')
            tryit('pop() from empty seclist', lambda: seclist([], secint).pop(), 'IndexError')
            tryit('index() on empty seclist', lambda: seclist([], secint).index(1), 'ValueError')
            return obs
        return prog
    net = SimNet(1, 0, seed=ctx.seed)
    net.rts[0].options.no_async = True
    for name, want, got in net.run(prog_factory())[0]:
        ctx.case(('static', name), nontrivial=True)
        ctx.count('static-error-check')
        if want != got:
            ctx.violation(f'error behaviour: {name}: expected {want}, observed {got}',
                          {'kind': 'static', 'name': name, 'expected': want, 'observed': got})


def make_histories(rng, count, max_ops, types, present_only=False):
    hs = []
    for _ in range(count):
        tname = rng.choice(types)
        n_ops = rng.choice([max_ops, max_ops, max(1, max_ops // 2), rng.randrange(1, max_ops + 1)])
        hs.append(gen_history(rng.getrandbits(48), rng.getrandbits(48), tname, n_ops, present_only))
    return hs


def check_batch(ctx, hs, m, seed, label, lines, impl, soft):
    """oracle on every history of the batch; append correspondence material"""
    try:
        results, _ = run_real(hs, m, seed)
    except (PartyError, Deadlock) as exc:
        # locate the history that breaks the run
        for h in hs:
            try:
                run_real([h], m, seed)
            except (PartyError, Deadlock) as exc2:
                ctx.violation(f'{label}: run of a history failed: {str(exc2)[:300]}',
                              dict(h, kind='history', m=m, seed=seed, step=None, expected='run completes',
                                   observed=str(exc2)[:500]))
                return None
        raise common.InfraError(f'{label}: batch run failed but no single history does: {exc}')
    for h, steps in zip(hs, results):
        ctx.case((h['type'], tuple(h['init']), tuple(op_line(o) for o in h['ops'])), nontrivial=nontrivial(h))
        ctx.count(f'{label}:type:{h["type"]}')
        for op in h['ops']:
            ctx.count('op:' + op['op'])
            if 'key' in op:
                ctx.count('key:' + {'p': 'public', 's': 'secret-number', 'u': 'secindex', 'l': 'bit-list'}[op['key'][0]])
        bad = oracle_check(h, steps)
        if bad is not None:
            hh, b2 = shrink(h, m, seed) if not ctx.violations else (h, None)     # shrink the first one only
            if b2 is None:
                hh, b2 = h, bad
            ctx.violation('seclist differs from Python list: ' + b2[1], replay_dict(hh, m, seed, *b2))
        hl = history_lines(h)
        lines.extend(hl)
        impl.append('R=none;S=' + showl(h['init']))
        soft.append(None)
        if 'init2' in h:
            impl.append('R=none;S=' + showl(h['init2']))
            soft.append(None)
            ctx.count(f'{label}:two-lists')
        ctx.count('op:index-object-reused', sum(1 for o in h['ops'] if o.get('reuse')))
        for (res, contents, tr, _inv, _other) in steps:
            impl.append(fmt(res, contents))
            soft.append(','.join(tr) if tr else '-')
        # histories cut short by stop_after never occur here
        if len(steps) != len(h['ops']):
            raise common.InfraError('history not completed')
        if len(ctx.samples) < 3 and nontrivial(h) and len(h['ops']) >= 3:
            ctx.sample({'m': m, 'type': h['type'], 'requests': hl[:6], 'answers': impl[-len(hl):][:6]})
    return results


def twins_check(ctx, rng, m, seed, count, max_ops):
    """only-len-is-public on the real code: same public shape, different secrets -> same work shape"""
    for _ in range(count):
        free = rng.random() < 0.5
        if free:   # independent secrets, same shape rng; integer lists
            tname = rng.choice(['int16', 'int32'])
            ss = rng.getrandbits(48)
            a = gen_history(ss, rng.getrandbits(48), tname, max_ops, present_only=(m > 1))
            b = gen_history(ss, rng.getrandbits(48), tname, max_ops, present_only=(m > 1))
        else:      # renamed values (any type, incl. absent values for m = 1)
            tname = rng.choice(list(TYPES))
            a = gen_history(rng.getrandbits(48), rng.getrandbits(48), tname, max_ops, present_only=(m > 1))
            b = rename_values(a, rng.getrandbits(32))
        if [shape_of(o) for o in a['ops']] != [shape_of(o) for o in b['ops']] or len(a['init']) != len(b['init']) \
                or ('init2' in a) != ('init2' in b):
            ctx.count('twin:shape-diverged(skipped)')
            continue
        pa, pb = predicted_kinds(a), predicted_kinds(b)
        if pa != pb or (m > 1 and any(k == 'async-error' for k in pa)):
            ctx.count('twin:public-outcome-diverged(skipped)')
            continue
        try:
            (ra,), wa = run_real([a], m, seed, wire=True)
            (rb,), wb = run_real([b], m, seed, wire=True)
        except (PartyError, Deadlock) as exc:
            ctx.violation(f'twin run failed: {str(exc)[:300]}', {'kind': 'twin', 'm': m, 'seed': seed, 'a': a, 'b': b,
                                                                  'expected': 'runs complete', 'observed': str(exc)[:300]})
            continue
        ctx.case(('twin', m, a['type'], tuple(op_line(o) for o in a['ops']), tuple(op_line(o) for o in b['ops'])))
        ctx.count(f'twin:m={m}:' + ('free' if free else 'renamed'))
        if [len(r[1]) for r in ra] != [len(r[1]) for r in rb] or [r[0][0] for r in ra] != [r[0][0] for r in rb]:
            ctx.count('twin:public-outcome-diverged(skipped)')
            continue
        ta, tb = [r[2] for r in ra], [r[2] for r in rb]
        if ta != tb:
            k = next(i for i in range(len(ta)) if ta[i] != tb[i])
            ctx.violation(f'work shape depends on secret values: step {k} ({op_line(a["ops"][k])} vs {op_line(b["ops"][k])}) '
                          f'calls {ta[k]} vs {tb[k]}',
                          {'kind': 'twin', 'm': m, 'seed': seed, 'a': a, 'b': b, 'step': k,
                           'expected': 'same primitive calls', 'observed': [ta[k], tb[k]]})
        elif m > 1 and wa != wb:
            ctx.violation('communication pattern depends on secret values: the (sender, receiver, #bytes) write sequences differ',
                          {'kind': 'twin', 'm': m, 'seed': seed, 'a': a, 'b': b, 'step': None,
                           'expected': f'{len(wa[0])} writes / {sum(x[2] for x in wa[0])} bytes',
                           'observed': f'{len(wb[0])} writes / {sum(x[2] for x in wb[0])} bytes'})


def predicted_kinds(h):
    """public outcomes of a history as predicted by the Python list: result kind per step and list lengths"""
    out = []
    for op, _cur, res, after in oracle_states(h):
        if op.get('oob'):
            out.append('oob')
            if op['op'] != 'get' and op['key'] != ['u', 0, []]:
                break
            continue
        if res[0] == 'e' and op['op'] in ('index', 'remove') and after:
            out.append('async-error')     # raised after an await inside an MPyC coroutine: lost when m > 1
        else:
            out.append((res[0], res[1] if res[0] == 'e' else None, len(after)))
    return out


def shape_of(op):
    """the public part of an operation"""
    d = {'op': op['op']}
    if 'key' in op:
        k = op['key']
        d['key'] = (['p', k[1]] if k[0] == 'p' else ['s'] if k[0] == 's' else
                    ['u', k[1], len(k[2])] if k[0] == 'u' else ['l', len(k[1])])
    for fld in ('sl', 'n', 'reverse', 'cmp', 'plain', 'expect_err', 'oob', 'on', 'reuse'):
        if fld in op:
            d[fld] = op[fld]
    for fld in ('vs', 'other'):
        if fld in op:
            d[fld] = len(op[fld])
    return d


def run(ctx):
    rng = ctx.rng
    install_trace()
    try:
        max_ops = ctx.scale(12, 40)
        lines, impl, soft = [], [], []
        static_errors(ctx)
        # bulk: one party
        hs1 = make_histories(rng, ctx.scale(800, 9000), max_ops, list(TYPES))
        check_batch(ctx, hs1, 1, ctx.seed, 'm=1', lines, impl, soft)
        # sample: three parties (values looked up by index/remove are present: an exception raised after the first
        # await of an MPyC coroutine does not reach the caller when m > 1)
        hs3 = make_histories(rng, ctx.scale(20, 200), ctx.scale(8, 20), list(TYPES), present_only=True)
        check_batch(ctx, hs3, 3, ctx.seed + 1, 'm=3', lines, impl, soft)
        # only len is public (real code, differential)
        twins_check(ctx, rng, 1, ctx.seed, ctx.scale(150, 1500), max_ops)
        twins_check(ctx, rng, 3, ctx.seed + 2, ctx.scale(10, 100), ctx.scale(7, 14))
        # correspondence with the Lean model
        model = common.LeanDriver('SecList').run(lines)
        if isinstance(model, common.DriverFailure):
            ctx.compare('seclist histories (real seclist vs MpycV.SecList)', impl, model, lines)
            return
        mres = [ln.rsplit(';T=', 1)[0] for ln in model]
        ctx.compare('seclist histories (real seclist vs MpycV.SecList.step)', impl, mres, lines)
        agree = total = 0
        first = None
        for ln, t_real, req in zip(model, soft, lines):
            if t_real is None:
                continue
            total += 1
            if ln.rsplit(';T=', 1)[-1] == t_real:
                agree += 1
            else:
                if first is None:
                    first = (req, ln.rsplit(';T=', 1)[-1], t_real)
                if os.environ.get('C31_DEBUG_TRACE'):
                    print('TRACE-DIFF', req, ln, t_real)
        ctx.count('trace-agrees-with-model', agree)
        ctx.count('trace-compared', total)
        if first is not None:
            ctx.note(f'primitive-call traces: model and code agree on {agree}/{total} steps; first difference: '
                     f'{first[0]!r}: model {first[1]} code {first[2]} (informational: internal call structure is not '
                     f'part of the property; the differential twin check on the real code is the binding one)')
    finally:
        uninstall_trace()
        TRACE_ON[0] = False


def search(ctx):
    """bigger oracle-only search on the real code"""
    rng = ctx.subrng('search')
    install_trace()
    try:
        for rnd in range(ctx.scale(6, 30)):
            hs = make_histories(rng, 300, ctx.scale(16, 40), list(TYPES))
            try:
                results, _ = run_real(hs, 1, ctx.seed + 100 + rnd)
            except (PartyError, Deadlock):
                check_batch(ctx, hs, 1, ctx.seed + 100 + rnd, 'search', [], [], [])
                if ctx.violations:
                    return
                continue
            for h, steps in zip(hs, results):
                bad = oracle_check(h, steps)
                if bad is not None:
                    hh, b2 = shrink(h, 1, ctx.seed + 100 + rnd)
                    if b2 is None:
                        hh, b2 = h, bad
                    ctx.violation('seclist differs from Python list: ' + b2[1],
                                  replay_dict(hh, 1, ctx.seed + 100 + rnd, *b2))
                    return
            twins_check(ctx, rng, 1, ctx.seed, 100, 20)
            if ctx.violations:
                return
    finally:
        uninstall_trace()


def replay(ctx, data):
    install_trace()
    try:
        if data.get('kind') == 'static':
            c2 = common.Ctx('C31', 'quick', 0)
            static_errors(c2)
            bad = [m for m, r in c2.violations if r.get('name') == data.get('name')]
            return (not bad), (bad[0] if bad else 'ok')
        if data.get('kind') == 'twin':
            m, seed = data['m'], data['seed']
            (ra,), wa = run_real([data['a']], m, seed, wire=True)
            (rb,), wb = run_real([data['b']], m, seed, wire=True)
            if [r[2] for r in ra] != [r[2] for r in rb]:
                return False, 'primitive-call traces of the twin histories differ'
            if m > 1 and wa != wb:
                return False, 'wire write sequences of the twin histories differ'
            return True, 'ok'
        h = {'type': data['type'], 'init': data['init'], 'ops': data['ops']}
        if 'init2' in data:
            h['init2'] = data['init2']
        try:
            steps, _ = run_real([h], data.get('m', 1), data.get('seed', 0))
        except (PartyError, Deadlock) as exc:
            return False, f'run failed: {str(exc)[:300]}'
        bad = oracle_check(h, steps[0])
        if bad is None:
            return True, 'ok'
        return False, bad[1]
    finally:
        uninstall_trace()
