"""C30 -- bit-level oblivious building blocks are correct for all inputs.

Lean: MpycV.Props.C30 (model MpycV.Model.Bits): add_bits, to_bits, from_bits, find (every parameter
combination), unit_vector, trailing_zeros, gcp2 -- theorems for all lengths.
run(): the REAL protocols on simnet (m = 1, sample m = 3) against the Lean model (line protocol) and
against tools_oracle (plain Python integers).
"""
import itertools
import os
import sys
from multiprocessing import Pool

sys.path.insert(0, os.path.dirname(os.path.dirname(os.path.abspath(__file__))))
import common  # noqa: E402
import tools_oracle as orc  # noqa: E402

LEVEL = 'proof'
LEAN_MODULES = ['MpycV.Props.C30']
LEAN_NAMESPACES = ['MpycV.C30']
REQUIRED_THEOREMS = ['addBits_spec', 'fromBits_bitsOf', 'toBits_spec', 'toBits_fromBits', 'toBits_assert',
                     'find_spec', 'find_empty', 'unitVector_spec', 'unitVector_wrap', 'trailingZeros_spec',
                     'gcp2_spec', 'addBits_any_ring', 'addBits_ring_int', 'addBits_doubling_constant', 'addBits_char2_sum_bit']
RULE = ('add_bits: all pairs of bit vectors of length <= 3 (quick) / 6 (thorough) + random up to 40 bits; '
        'to_bits: secint(16) and secfxp(16,4) values incl. extremes x every l (0..L+f, None, one above); '
        'from_bits: all bit vectors <= 6/8 bits; find: bit vectors <= 4/6 bits x a public/secret/general x e in '
        '{default, int, None, string} x f/cs_f families, empty list; unit_vector: all a <= n <= 17; '
        'trailing_zeros/gcp2: values x l; secint and secfxp where accepted; m = 1 and a sample with m = 3; '
        'a case is distinct by its full argument tuple')
EXPLANATION = ('every clause has a theorem over the value-layer model for all lengths; the model is tied to '
               'runtime.py by running the real protocols on the same inputs')
ASSUMPTIONS = ['secure multiplication, !=, opening of masked values are exact on the values and the field is '
               'large enough that the masked value does not wrap (C01/C18)',
               'inputs of add_bits/find(bits=True)/from_bits are bits (as the docstrings require)',
               'find: cs_f(b, i) = f(i + b) for b in {0, 1} when cs_f is supplied (docstring (*))']
TRUSTED = ['harness/tools_oracle.py (plain integer arithmetic)', 'harness/simnet.py']

FAMS = ('id', 'pow2', 'nmi', 'pair')


def _ilist(v):
    return ','.join(str(int(t)) for t in v) if len(v) else '-'


# ---------------------------------------------------------------------------------------------
# real execution
# ---------------------------------------------------------------------------------------------
def _py_f(name):
    return {'id': lambda i: i, 'pow2': lambda i: 2**i, 'nmi': lambda i: 10 - i,
            'pair': lambda i: (i, 2**i)}[name]


def _py_cs(name):
    return {'id': lambda b, i: i + b, 'pow2': lambda b, i: (b + 1) << i, 'nmi': lambda b, i: 10 - i - b,
            'pair': lambda b, i: (i + b, (b + 1) << i)}[name]


def _run_batch(args):
    cases, m, seed = args
    import simnet

    async def prog(mpc):
        secint = mpc.SecInt(16)
        secfxp = mpc.SecFxp(16, 4)
        quarter = secfxp(0.25)
        res = []

        async def out(v):
            if isinstance(v, (list, tuple)):
                return [await out(t) for t in v]
            if isinstance(v, (int, float)):
                return int(v)
            r = await mpc.output(v)
            return int(round(float(r)))

        def mk(case, v, integral=True):
            """secure number with integer value v (for secfxp: v is the number itself, an integer)"""
            if case.get('type') == 'secfxp':
                a = secfxp(v)
                if not integral:
                    a = a + quarter - quarter      # same value, integral attribute False
                return a
            return secint(v)

        for case in cases:
            fn = case['fn']
            try:
                if fn == 'addbits':
                    r = mpc.add_bits([mk(case, b) for b in case['x']], [mk(case, b) for b in case['y']])
                    res.append(_ilist(await out(r)))
                elif fn == 'frombits':
                    r = mpc.from_bits([mk(case, b) for b in case['x']])
                    res.append(str(await out(r)))
                elif fn == 'tobits':
                    if case.get('type') == 'secfxp':
                        a = secfxp(case['a'] / 16)          # 'a' is the scaled integer a * 2^4
                        if not case.get('integral'):
                            a = a + quarter - quarter
                        if bool(a.integral) != bool(case.get('integral')):
                            res.append('FLAG-MISMATCH')
                            continue
                    else:
                        a = secint(case['a'])
                    r = mpc.to_bits(a) if case['l'] is None else mpc.to_bits(a, case['l'])
                    res.append(_ilist(await out(r)))
                elif fn == 'find':
                    x = [mk(case, b) for b in case['x']]
                    mode, a = case['mode'], case['a']
                    kw = {}
                    if mode == 'pub':
                        av = a
                    elif mode == 'sec':
                        av = mk(case, a)
                    else:
                        av = mk(case, a) if case.get('a_secret', True) else a
                        kw['bits'] = False
                    if case['e'] != 'default':
                        kw['e'] = case['e']
                    fk = case['fk']
                    if fk != 'default':
                        kind, name = fk.split(':')
                        if kind in ('f', 'fcs'):
                            kw['f'] = _py_f(name)
                        if kind in ('cs', 'fcs'):
                            kw['cs_f'] = _py_cs(name)
                    r = mpc.find(x, av, **kw)
                    if case['e'] is None:
                        nf, y = r
                        y = await out(y)
                        res.append(f'{await out(nf)} ' + _ilist(y if isinstance(y, list) else [y]))
                    else:
                        y = await out(r)
                        res.append(_ilist(y if isinstance(y, list) else [y]))
                elif fn == 'unitvec':
                    r = mpc.unit_vector(mk(case, case['a']), case['n'])
                    res.append(_ilist(await out(r)))
                elif fn == 'tz':
                    a = secint(case['a'])
                    r = mpc.trailing_zeros(a) if case['l'] is None else mpc.trailing_zeros(a, case['l'])
                    res.append(_ilist(await out(r)))
                elif fn == 'gcp2':
                    a, b = secint(case['a']), secint(case['b'])
                    r = mpc.gcp2(a, b) if case['l'] is None else mpc.gcp2(a, b, case['l'])
                    res.append(str(await out(r)))
                else:
                    res.append('bad-fn')
            except Exception as exc:  # noqa
                res.append(type(exc).__name__)
        return res

    try:
        out_ = simnet.SimNet(m, None, seed=seed).run(prog)
    except Exception as exc:  # noqa
        return [f'RUN-ERROR {type(exc).__name__}: {str(exc)[:200]}'] * len(cases)
    for o in out_[1:]:
        if o != out_[0]:
            # outputs above the least significant 1 of trailing_zeros are random but must agree between parties
            return ['PARTIES-DISAGREE'] * len(cases)
    return out_[0]


def run_cases(cases, m, seed, procs=12):
    if not cases:
        return []
    size = max(1, min(150, (len(cases) + procs - 1) // procs))
    chunks = [cases[i:i + size] for i in range(0, len(cases), size)]
    args = [(c, m, seed + 31 * i) for i, c in enumerate(chunks)]
    if len(chunks) == 1:
        outs = [_run_batch(args[0])]
    else:
        with Pool(min(procs, len(chunks))) as pool:
            outs = pool.map(_run_batch, args)
    return [o for chunk in outs for o in chunk]


# ---------------------------------------------------------------------------------------------
# model requests, oracle expectations
# ---------------------------------------------------------------------------------------------
L_INT, L_FXP, F_FXP = 16, 16, 4


def request(case, rng):
    fn = case['fn']
    if fn == 'addbits':
        return f"addbits {_ilist(case['x'])} {_ilist(case['y'])}"
    if fn == 'frombits':
        return f"frombits {_ilist(case['x'])}"
    if fn == 'tobits':
        fxp = case.get('type') == 'secfxp'
        L, f = (L_FXP, F_FXP) if fxp else (L_INT, 0)
        l = L if case['l'] is None else case['l']
        rbits = [rng.randint(0, 1) for _ in range(l)]
        return (f"tobits {L} {f} {1 if (fxp and case.get('integral')) else 0} {case['a']} {l} "
                f"{_ilist(rbits)} {rng.randrange(1 << 20)}")
    if fn == 'find':
        e = case['e']
        n = len(case['x'])
        ev = {'default': n, 'len(x)': n, 'len(x)-1': n - 1, '2*len(x)+1': 2 * n + 1}.get(e, e) if isinstance(e, str) else e
        return f"find {case['mode']} {case['a']} {'None' if ev is None else ev} {case['fk']} {_ilist(case['x'])}"
    if fn == 'unitvec':
        return f"unitvec {case['a']} {case['n']}"
    if fn == 'tz':
        l = L_INT if case['l'] is None else case['l']
        return f"tz {L_INT} {case['a']} {l} {_ilist([rng.randint(0, 1) for _ in range(l)])} {rng.randrange(1 << 20)}"
    if fn == 'gcp2':
        l = L_INT if case['l'] is None else case['l']
        return (f"gcp2 {L_INT} {case['a']} {case['b']} {l} {_ilist([rng.randint(0, 1) for _ in range(l)])} "
                f"{rng.randrange(1 << 20)} {_ilist([rng.randint(0, 1) for _ in range(l)])} {rng.randrange(1 << 20)}")
    raise ValueError(fn)


def _tz_mask(case, line):
    """keep only the specified part of a trailing_zeros answer: up to and including the least significant 1"""
    if line == '-' or not line or not line[0].isdigit():
        return line
    l = L_INT if case['l'] is None else case['l']
    t = orc.trailing_zero_count(case['a'], l)
    bits = line.split(',')
    return ','.join(b if i <= t else '*' for i, b in enumerate(bits))


def expected(case):
    """independent oracle -> canonical line the property demands"""
    fn = case['fn']
    if fn == 'addbits':
        return _ilist(orc.add_bits(case['x'], case['y']))
    if fn == 'frombits':
        return str(orc.from_bits(case['x']))
    if fn == 'tobits':
        fxp = case.get('type') == 'secfxp'
        L, f = (L_FXP, F_FXP) if fxp else (L_INT, 0)
        l = L if case['l'] is None else case['l']
        if l > L + f:
            return 'AssertionError'
        return _ilist(orc.low_bits(case['a'], l))
    if fn == 'find':
        e = case['e']
        n = len(case['x'])
        ev = {'default': n, 'len(x)': n, 'len(x)-1': n - 1, '2*len(x)+1': 2 * n + 1}.get(e, e) if isinstance(e, str) else e
        fk = case['fk']
        f = (lambda i: i) if fk == 'default' else _py_f(fk.split(':')[1])
        nf, ix = orc.find_index(case['x'], case['a'])
        if ev is None:
            y = f(ix)
            return f'{nf} ' + _ilist(list(y) if isinstance(y, tuple) else [y])
        y = f(ev if nf else ix)
        return _ilist(list(y) if isinstance(y, tuple) else [y])
    if fn == 'unitvec':
        return _ilist(orc.unit_vector(case['a'], case['n']))
    if fn == 'tz':
        l = L_INT if case['l'] is None else case['l']
        return _tz_mask(case, _ilist(orc.low_bits(case['a'], l)))
    if fn == 'gcp2':
        l = L_INT if case['l'] is None else case['l']
        return str(orc.gcp2(case['a'], case['b'], l))
    raise ValueError(fn)


# ---------------------------------------------------------------------------------------------
# cases
# ---------------------------------------------------------------------------------------------
def gen_cases(ctx):
    rng = ctx.subrng('cases')
    cases = []
    # add_bits
    nadd = ctx.scale(3, 6)
    for n in range(0, nadd + 1):
        for x in itertools.product((0, 1), repeat=n):
            for y in itertools.product((0, 1), repeat=n):
                cases.append({'fn': 'addbits', 'x': list(x), 'y': list(y)})
    for n in list(range(nadd + 1, 9)) * ctx.scale(8, 60) + [9, 13, 16, 17, 31, 32, 33, 40]:
        c = {'fn': 'addbits', 'x': [rng.randint(0, 1) for _ in range(n)], 'y': [rng.randint(0, 1) for _ in range(n)]}
        if rng.random() < 0.2:
            c['type'] = 'secfxp'
        if rng.random() < 0.15:
            c['x'] = [1] * n                     # long carry chains
            c['y'] = [1] + [0] * (n - 1) if n else []
        cases.append(c)
    # from_bits
    for n in range(0, ctx.scale(6, 8) + 1):
        for x in itertools.product((0, 1), repeat=n):
            cases.append({'fn': 'frombits', 'x': list(x)})
    cases.append({'fn': 'frombits', 'x': [1, 0, 1, 1], 'type': 'secfxp'})
    # to_bits: secint(16)
    vals = [0, 1, -1, 2, -2, 5, -5, 127, 128, -128, 255, 256, 0x5555, -0x5555, 32767, -32768, 12345, -12345]
    vals += [rng.randint(-32768, 32767) for _ in range(ctx.scale(6, 40))]
    for a in vals:
        for l in [None] + list(range(0, 18)):
            if l is None or l in (0, 1, 16, 17) or rng.random() < ctx.scale(0.35, 1.0):
                cases.append({'fn': 'tobits', 'a': a, 'l': l})
    # to_bits: secfxp(16, 4); 'a' is the scaled integer
    fvals = [0, 16, -16, 48, 40, -40, 1, -1, 16 * 100, -16 * 100, 32767, -32768, 0x1234, -0x1234]
    fvals += [rng.randint(-32768, 32767) for _ in range(ctx.scale(4, 30))]
    for a in fvals:
        for l in [None] + list(range(0, 22)):
            if not (l is None or l in (0, 3, 4, 5, 16, 20, 21) or rng.random() < ctx.scale(0.3, 1.0)):
                continue
            integral = a % 16 == 0
            cases.append({'fn': 'tobits', 'type': 'secfxp', 'a': a, 'integral': False, 'l': l})
            if integral:
                cases.append({'fn': 'tobits', 'type': 'secfxp', 'a': a, 'integral': True, 'l': l})
    # find
    nfind = ctx.scale(4, 6)
    es = ['default', -1, None, 'len(x)-1', 7, '2*len(x)+1']
    fks = ['default'] + [f'{k}:{n}' for k in ('f', 'cs', 'fcs') for n in FAMS]
    for n in range(0, nfind + 1):
        for x in itertools.product((0, 1), repeat=n):
            for mode in ('pub', 'sec'):
                for a in (0, 1):
                    for e in es:
                        fk = rng.choice(fks) if rng.random() < 0.7 else 'default'
                        if 'pow2' in fk or 'pair' in fk:
                            if e == -1 or (e == 'len(x)-1' and n == 0):
                                continue            # 2**-1 is a float in Python: not an integer-valued f
                        if rng.random() < ctx.scale(0.5, 1.0) or n <= 2:
                            cases.append({'fn': 'find', 'mode': mode, 'a': a, 'x': list(x), 'e': e, 'fk': fk})
    for _ in range(ctx.scale(60, 400)):
        n = rng.randint(0, 9)
        x = [rng.randint(-3, 3) for _ in range(n)]
        a = rng.randint(-3, 3)
        e = rng.choice(es)
        fk = rng.choice(fks)
        if ('pow2' in fk or 'pair' in fk) and (e == -1 or (e == 'len(x)-1' and n == 0)):
            continue
        cases.append({'fn': 'find', 'mode': 'gen', 'a': a, 'x': x, 'e': e, 'fk': fk,
                      'a_secret': rng.random() < 0.5, 'type': 'secfxp' if rng.random() < 0.2 else 'secint'})
    for n in (9, 12, 16, 17):
        x = [1 - 0] * n
        for pos in (None, 0, n - 1, n // 2):
            xx = [0] * n
            if pos is not None:
                xx[pos] = 1
            cases.append({'fn': 'find', 'mode': 'pub', 'a': 1, 'x': xx, 'e': 'default', 'fk': 'default'})
            cases.append({'fn': 'find', 'mode': 'sec', 'a': 1, 'x': xx, 'e': None, 'fk': 'cs:pow2'})
    # unit_vector
    for n in range(1, 18):
        for a in range(0, n + 1):
            if a < n or rng.random() < 0.5:
                c = {'fn': 'unitvec', 'a': a, 'n': n}
                if rng.random() < 0.25:
                    c['type'] = 'secfxp'
                cases.append(c)
    for n in (31, 32, 33):
        for a in (0, 1, n // 2, n - 1):
            cases.append({'fn': 'unitvec', 'a': a, 'n': n})
    # trailing_zeros / gcp2
    tvals = [0, 1, 2, 3, 4, 6, 8, 12, 40, 96, 128, 1024, 16384, -2, -4, -8, -96, 32766, -32768]
    tvals += [rng.randint(-32768, 32767) * (1 << rng.randint(0, 6)) % 65536 - 32768 for _ in range(ctx.scale(5, 40))]
    for a in tvals:
        for l in [None, 0, 1, 2, 5, 8, 16]:
            if rng.random() < ctx.scale(0.6, 1.0):
                cases.append({'fn': 'tz', 'a': a, 'l': l})
    for _ in range(ctx.scale(50, 300)):
        a, b = rng.choice(tvals), rng.choice(tvals)
        cases.append({'fn': 'gcp2', 'a': a, 'b': b, 'l': rng.choice([None, None, 4, 8, 16])})
    cases.append({'fn': 'gcp2', 'a': 0, 'b': 0, 'l': None})
    cases.append({'fn': 'gcp2', 'a': 0, 'b': 0, 'l': 4})
    return cases


def gen_cases_m3(ctx):
    rng = ctx.subrng('m3')
    cs = [{'fn': 'addbits', 'x': [1, 1, 0, 1, 1], 'y': [1, 0, 1, 1, 0]},
          {'fn': 'frombits', 'x': [1, 0, 1, 1]},
          {'fn': 'tobits', 'a': -12345, 'l': None}, {'fn': 'tobits', 'a': 77, 'l': 5},
          {'fn': 'tobits', 'type': 'secfxp', 'a': 48, 'integral': True, 'l': 20},
          {'fn': 'tobits', 'type': 'secfxp', 'a': -40, 'integral': False, 'l': 16},
          {'fn': 'find', 'mode': 'pub', 'a': 1, 'x': [0, 0, 1, 0, 1], 'e': 'default', 'fk': 'default'},
          {'fn': 'find', 'mode': 'sec', 'a': 0, 'x': [1, 1, 1], 'e': None, 'fk': 'cs:pair'},
          {'fn': 'find', 'mode': 'gen', 'a': 2, 'x': [3, 1, 2, 2], 'e': -1, 'fk': 'f:nmi'},
          {'fn': 'find', 'mode': 'pub', 'a': 1, 'x': [], 'e': 'default', 'fk': 'default'},
          {'fn': 'unitvec', 'a': 3, 'n': 7}, {'fn': 'unitvec', 'a': 0, 'n': 1}, {'fn': 'unitvec', 'a': 5, 'n': 5},
          {'fn': 'tz', 'a': 96, 'l': None}, {'fn': 'gcp2', 'a': 96, 'b': -40, 'l': None}]
    for _ in range(4):
        cs.append({'fn': 'unitvec', 'a': rng.randint(0, 10), 'n': 11})
    return cs


def _check(ctx, groups):
    """groups: list of (cases, outs, m, seed, tag); one Lean driver invocation for all of them"""
    reqs = []
    for cases, outs, m, seed, tag in groups:
        rng = ctx.subrng('model', tag)
        reqs += [request(c, rng) for c in cases]
    model = common.LeanDriver('Tools').run(reqs)
    pos = 0
    for cases, outs, m, seed, tag in groups:
        mdl = model
        if not isinstance(model, common.DriverFailure):
            mdl = [_tz_mask(c, ln) if c['fn'] == 'tz' else ln for c, ln in zip(cases, model[pos:pos + len(cases)])]
        impl = [_tz_mask(c, o) if c['fn'] == 'tz' else o for c, o in zip(cases, outs)]
        ctx.compare(f'bit-level building blocks ({tag})', impl, mdl, reqs[pos:pos + len(cases)])
        pos += len(cases)
        for c, o in zip(cases, impl):
            key = (tag, c['fn'], c.get('type'), c.get('mode'), c.get('a'), c.get('b'), c.get('n'), c.get('l'),
                   str(c.get('e')), c.get('fk'), c.get('integral'), tuple(c.get('x', ())), tuple(c.get('y', ())))
            ctx.case(key)
            ctx.count(c['fn'] + ('/' + c['type'] if c.get('type') else ''))
            exp = expected(c)
            if isinstance(o, str) and (o.startswith('RUN-ERROR') or o in ('PARTIES-DISAGREE', 'FLAG-MISMATCH')):
                ctx.violation(f'real run failed: {o}', dict(c, kind='case', m=m, seed=seed, observed=o, expected=exp))
                continue
            if o != exp:
                rep = dict(c, kind='case', m=m, seed=seed, observed=o, expected=exp)
                ctx.violation(f"mpc {c['fn']} wrong on {({k: v for k, v in c.items() if k != 'fn'})}: observed {o}, "
                              f"expected {exp}", rep)


def addbits_fields(ctx):
    """add_bits on bits of secure FIELD types (theorem addBits_any_ring: the n low bits of the integer sum, in every
    commutative ring): GF(2^8), GF(2), GF(101), GF(3^2) -- all pairs of bit vectors of length <= 3 (m = 1), a sample with m = 3"""
    import simnet
    rng = ctx.subrng('addbits-fields')
    pairs = [(list(x), list(y)) for n in range(1, 4) for x in itertools.product((0, 1), repeat=n)
             for y in itertools.product((0, 1), repeat=n)]
    for (m, t, orders, sel) in ((1, 0, (2 ** 8, 2, 101, 9), pairs), (3, 1, (2 ** 8, 101), rng.sample(pairs, 12))):
        def prog(mpc, orders=orders, sel=sel):
            async def go():
                out = {}
                for q in orders:
                    S = mpc.SecFld(q)
                    res = []
                    for x, y in sel:
                        res.append([int(v) for v in await mpc.output(mpc.add_bits([S(b) for b in x], [S(b) for b in y]))])
                    out[q] = res
                return out
            return go()
        try:
            res = simnet.SimNet(m, t, seed=rng.randrange(10 ** 6)).run(prog)
        except Exception as exc:  # noqa: BLE001
            ctx.violation(f'add_bits over secure field types (m={m}) does not run: {type(exc).__name__}: {str(exc)[:200]}',
                          {'kind': 'addbits-fields', 'm': m})
            return
        for q in orders:
            for (x, y), got in zip(sel, res[0][q]):
                n = len(x)
                v = sum(b << i for i, b in enumerate(x)) + sum(b << i for i, b in enumerate(y))
                exp = [(v >> i) & 1 for i in range(n)]
                ctx.case(('addbits-field', q, m, tuple(x), tuple(y)), nontrivial=n >= 2)
                ctx.count(f'add_bits:field{q}')
                if got != exp or any(r[q] != res[0][q] for r in res):
                    ctx.violation(f'add_bits({x}, {y}) over GF({q}) with m={m}: {got}, expected {exp} (bits of the integer sum)',
                                  {'kind': 'addbits-fields', 'm': m, 'q': q, 'x': x, 'y': y, 'observed': got, 'expected': exp})
                    return


def run(ctx):
    addbits_fields(ctx)
    cases = gen_cases(ctx)
    c3 = gen_cases_m3(ctx)
    with Pool(2) as top:      # m = 3 sample concurrently with the m = 1 sweep
        r3 = top.apply_async(_run_batch, ((c3, 3, ctx.seed + 1),))
        outs = run_cases(cases, 1, ctx.seed)
        o3 = r3.get()
    _check(ctx, [(cases, outs, 1, ctx.seed, 'm=1'), (c3, o3, 3, ctx.seed + 1, 'm=3')])
    seen = set()
    for c, o in zip(cases, outs):
        if c['fn'] not in seen and len(c.get('x', [1])) > 0:
            seen.add(c['fn'])
            ctx.sample({'case': c, 'observed': o})


def search(ctx):
    rng = ctx.subrng('search')
    cases = []
    for _ in range(300):
        n = rng.randint(1, 24)
        cases.append({'fn': 'addbits', 'x': [rng.randint(0, 1) for _ in range(n)],
                      'y': [rng.randint(0, 1) for _ in range(n)]})
        cases.append({'fn': 'tobits', 'a': rng.randint(-32768, 32767), 'l': rng.choice([None] + list(range(17)))})
        x = [rng.randint(0, 1) for _ in range(rng.randint(0, 20))]
        cases.append({'fn': 'find', 'mode': rng.choice(['pub', 'sec']), 'a': rng.randint(0, 1), 'x': x,
                      'e': rng.choice(['default', None, 7]), 'fk': rng.choice(['default', 'cs:pow2', 'f:nmi'])})
        nn = rng.randint(1, 40)
        cases.append({'fn': 'unitvec', 'a': rng.randrange(nn), 'n': nn})
        cases.append({'fn': 'gcp2', 'a': rng.randint(-2000, 2000) * 2, 'b': rng.randint(-2000, 2000) * 4, 'l': None})
    outs = run_cases(cases, 1, ctx.seed + 9)
    for c, o in zip(cases, outs):
        ctx.case(('search', repr(c)))
        o2 = _tz_mask(c, o) if c['fn'] == 'tz' else o
        exp = expected(c)
        if o2 != exp:
            ctx.violation(f"mpc {c['fn']} wrong: observed {o2}, expected {exp}",
                          dict(c, kind='case', m=1, seed=ctx.seed + 9, observed=o2, expected=exp))
            return


def replay(ctx, data):
    if data.get('kind') == 'addbits-fields':
        c2 = common.Ctx('C30', 'quick', 0)
        addbits_fields(c2)
        return not c2.violations, (c2.violations[0][0] if c2.violations else 'ok')
    if data.get('kind') != 'case':
        return True, f"nothing to run for replay kind {data.get('kind')!r}"
    case = {k: v for k, v in data.items() if k in ('fn', 'x', 'y', 'a', 'b', 'l', 'n', 'type', 'integral', 'mode',
                                                   'e', 'fk', 'a_secret')}
    out = _run_batch(([case], int(data.get('m', 1)), int(data.get('seed', 0))))[0]
    if case['fn'] == 'tz':
        out = _tz_mask(case, out)
    exp = expected(case)
    return out == exp, f'observed {out}; expected {exp}'
