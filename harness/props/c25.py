"""C25 — number-theory helpers of mpyc/gmpy.py (pure-Python stubs) compute what gmpy2 computes.

Lean: model MpycV.Model.NumTh (one-for-one transcription of the stubs), theorems MpycV.Props.C25.
Here: (1) correspondence real stubs <-> Lean model through Drv/NumTh.lean on exhaustive small domains and
random large inputs, (2) independent oracle (harness/numth_oracle.py) on the real results.
"""
import math
import os
import signal
import sys
import threading
import time
from concurrent.futures import ThreadPoolExecutor

HERE = os.path.dirname(os.path.dirname(os.path.abspath(__file__)))
if HERE not in sys.path:
    sys.path.insert(0, HERE)
import common  # noqa: E402
import repo_path  # noqa: E402,F401
os.environ['MPYC_NOGMPY'] = '1'          # the stubs are the code under test
_argv = sys.argv
sys.argv = [sys.argv[0], '--no-log']
try:
    from mpyc import gmpy  # noqa: E402
finally:
    sys.argv = _argv
import numth_oracle as orc  # noqa: E402
import py2lean  # noqa: E402

LEVEL = 'proof'
LEAN_MODULES = ['MpycV.Props.C25', 'MpycV.PropsGen.C25Src']
LEAN_NAMESPACES = ['MpycV.C25', 'MpycV.C25Src']
REQUIRED_THEOREMS = [
    'is_prime_no_false_negative', 'is_prime_trial_division_exact', 'is_prime_partial',
    'next_prime_spec', 'prev_prime_spec', 'invert_spec', 'gcdext_bezout', 'gcdext_normalised', 'jacobi_eq', 'legendre_eq',
    'kronecker_eq', 'isqrt_spec', 'iroot_spec', 'is_square_spec', 'factor_prime_power_sound',
    'factor_prime_power_complete', 'factor_prime_power_iff', 'ratrec_terminates',
    # source tie (PropsGen/C25Src.lean): definitions generated from the current gmpy.py = hand-written model
    'isqrt_src_eq', 'is_square_src_eq', 'iroot_src_eq', 'gcdext_src_eq', 'invert_src_eq', 'jacobi_src_eq',
    'legendre_src_eq', 'kronecker_src_eq', 'next_prime_src_eq', 'prev_prime_src_eq', 'ratrec_src_eq',
    'factor_prime_power_src_eq',
    'ratrec_sound', 'powMod_eq',
]
RULE = ('exhaustive (thorough tier; quick tier bounds in brackets): is_prime for all x in [-50, 10^5], '
        'next_prime/prev_prime for all x <= 10^5 [15000 and every 11th up to 10^5], gcdext/invert/jacobi/kronecker for '
        'all pairs |a|,|b| <= 300 [100] incl. error cases, legendre on -60..60 x -5..59, isqrt/is_square/iroot for all '
        'x <= 2*10^5 [20000] plus every 3rd [101st] x and all perfect powers +-1 up to 10^6 (iroot with n in -1..21), '
        'factor_prime_power on all proper prime powers <= 10^6, all primes < 3000 [2000], a sample of larger primes and of '
        'non-powers, products of two primes around 2^10, ratrec for all y <= 40 [15] with all x and N, D in '
        '{None, -1..5}, powmod on a small cube; random: 64..2048-bit arguments built to hit each branch (primes, '
        'Carmichael / strong pseudoprimes, prime powers with the prime above/below 2^10, multiples, |b| = 2g, exact '
        'roots +-1, constructed rational reconstructions, invalid bounds). A case is distinct by (function, arguments).')
EXPLANATION = ('All clauses have theorems except: "composite => is_prime returns False" is probabilistic in the '
               'code (random Miller-Rabin bases): proved are no-false-negatives for every base list, exactness of '
               'the trial-division stage and soundness of a False answer (is_prime_partial); the 4^-n error bound '
               'is quoted, not proved. next_prime/prev_prime/factor_prime_power are proved relative to a correct '
               'primality oracle. gcdext: Bezout/gcd and the GMP normalisation of (s, t) are proved for all integers. '
               'factor_prime_power: soundness and completeness proved (relative to a correct oracle). ratrec: soundness '
               'and termination proved; completeness (Wang: an existing reconstruction is found) is validated by the '
               'oracle only. Source tie: 12 stubs (isqrt, is_square, iroot, gcdext, invert, jacobi, legendre, kronecker, '
               'next_prime, prev_prime, ratrec, factor_prime_power) are re-translated from the current gmpy.py on every run and '
               'proved equal to the model (PropsGen/C25Src); is_prime and powmod are tied by the differential '
               'correspondence only.')
ASSUMPTIONS = [
    'gmpy2 is not installed / MPYC_NOGMPY=1: the pure-Python stubs are the code under test',
    'CPython builtins pow(a,e,m), math.isqrt, math.gcd, int.bit_length, divmod behave as their models '
    '(powMod_eq, Nat.sqrt, Int.gcd, Nat.log2+1, Int.fdiv/fmod) — exercised by the correspondence',
    'is_prime: the Miller-Rabin bases drawn by random.randint are recorded and handed to the model; where the '
    'code calls is_prime internally (next_prime, prev_prime, factor_prime_power) the driver runs the model with 13 '
    'fixed bases, equality of results then holds unless a composite passes 25 random or 13 fixed rounds',
    'oracle primality: sieve below 1.2*10^6, sympy.isprime above',
]
TRUSTED = ['harness/numth_oracle.py (definitions: Euler criterion, Kronecker extension rules, GMP manual text)',
           'harness/py2lean.py: the Python->Lean translation rules listed in its docstring (floor division = Int.fdiv/fmod, '
           '`x & (2^k-1)` = x % 2^k, the trailing-zero idiom, one generic fuel-bounded loop combinator, hand-written fuels)',
           'sympy.isprime / sympy.factorint for large oracle values']

DRIVER = common.LeanDriver('NumTh')


# ------------------------------------------------------------------------------------------------
# calling the real code
# ------------------------------------------------------------------------------------------------
class _RecRandom:
    """stand-in for the `random` module inside mpyc.gmpy: records the Miller-Rabin bases drawn"""

    def __init__(self, rng):
        self.rng = rng
        self.bases = []

    def randint(self, a, b):
        v = self.rng.randint(a, b)
        self.bases.append(v)
        return v


FUNCS = {
    'is_prime': lambda x: gmpy.is_prime(x),
    'next_prime': lambda x: gmpy.next_prime(x),
    'prev_prime': lambda x: gmpy.prev_prime(x),
    'powmod': lambda x, y, m: gmpy.powmod(x, y, m),
    'invert': lambda x, m: gmpy.invert(x, m),
    'gcdext': lambda a, b: gmpy.gcdext(a, b),
    'jacobi': lambda x, y: gmpy.jacobi(x, y),
    'legendre': lambda x, y: gmpy.legendre(x, y),
    'kronecker': lambda x, y: gmpy.kronecker(x, y),
    'isqrt': lambda x: gmpy.isqrt(x),
    'is_square': lambda x: gmpy.is_square(x),
    'iroot': lambda x, n: gmpy.iroot(x, n),
    'factor_prime_power': lambda x: gmpy.factor_prime_power(x),
    'ratrec': lambda x, y, N, D: gmpy.ratrec(x, y, N, D),
}
DRV_OP = {'factor_prime_power': 'fpp'}


CALL_TIMEOUT = 60.0   # seconds; a call of the code under test that runs longer is reported as TimeoutError


def _on_alarm(_signum, _frame):
    raise TimeoutError('call of the code under test did not terminate in time')


def call(fn, args):
    timed = threading.current_thread() is threading.main_thread()
    if timed:
        signal.signal(signal.SIGALRM, _on_alarm)
        signal.setitimer(signal.ITIMER_REAL, CALL_TIMEOUT)
    try:
        v = FUNCS[fn](*args)
    except Exception as exc:  # error behaviour is part of the interface
        return ('err', type(exc).__name__)
    finally:
        if timed:
            signal.setitimer(signal.ITIMER_REAL, 0)
    if isinstance(v, tuple):
        v = tuple(v)
    return ('ok', v)


def canon(outcome):
    kind, v = outcome
    if kind == 'err':
        return v
    if isinstance(v, tuple):
        return ' '.join(str(e) for e in v)
    return str(v)


def drv_line(fn, args, bases=None):
    op = DRV_OP.get(fn, fn)
    toks = [op] + ['None' if a is None else str(a) for a in args]
    if fn == 'is_prime':
        toks.append(','.join(map(str, bases)) if bases else '-')
    return ' '.join(toks)


def run_driver(lines, nchunks=3):
    if len(lines) < 4000:
        return DRIVER.run(lines)
    chunks = [lines[k::nchunks] for k in range(nchunks)]     # round-robin: balances the expensive operations
    with ThreadPoolExecutor(len(chunks)) as ex:
        outs = list(ex.map(DRIVER.run, chunks))
    res = [None] * len(lines)
    for k, o in enumerate(outs):
        if isinstance(o, common.DriverFailure):
            return o
        res[k::nchunks] = o
    return res


# ------------------------------------------------------------------------------------------------
# case generation: lists of (fn, args, hint)
# ------------------------------------------------------------------------------------------------
CARMICHAEL = [561, 1105, 1729, 2465, 2821, 6601, 8911, 10585, 15841, 29341, 41041, 46657, 52633, 62745, 63973,
              75361, 101101, 115921, 126217, 162401, 172081, 188461, 252601, 278545, 294409, 314821, 334153,
              340561, 399001, 410041, 449065, 488881, 512461]
STRONG_PSP = [2047, 1373653, 25326001, 3215031751, 2152302898747, 3474749660383, 341550071728321,
              3825123056546413051, 318665857834031151167461, 3317044064679887385961981]


def rand_bits(rng, bits):
    return rng.getrandbits(bits) | (1 << (bits - 1))


_PRIMORIAL = math.prod(p for p in range(3, 2000) if all(p % q for q in range(2, int(p ** 0.5) + 1)))
_POOL = {}


def fresh_prime(rng, bits):
    if bits <= 2:
        return rng.choice([2, 3])
    while True:
        c = rand_bits(rng, bits) | 1
        if bits > 24 and (math.gcd(c, _PRIMORIAL) != 1 or pow(2, c - 1, c) != 1):
            continue
        if orc.is_prime(c):
            return c


def rand_prime(rng, bits, pool=2):
    """random prime of exactly `bits` bits; large ones come from a small per-size pool (generation is slow)"""
    if bits <= 160:
        return fresh_prime(rng, bits)
    lst = _POOL.setdefault((id(rng), bits), [])
    if len(lst) < pool:
        lst.append(fresh_prime(rng, bits))
        return lst[-1]
    return rng.choice(lst)


def gen_exhaustive(ctx):
    cases = []
    X = 100_000
    XN = ctx.scale(15_000, 100_000)
    for x in range(-50, X + 1):
        cases.append(('is_prime', (x,), None))
        if x <= XN or x % 11 == 0:
            cases.append(('next_prime', (x,), None))
            cases.append(('prev_prime', (x,), None))
    R = ctx.scale(100, 300)
    fact = {y: orc.factorint(y) for y in range(1, R + 1)}
    oddpart = {}
    for y in range(1, R + 1):
        z = y
        while z % 2 == 0:
            z //= 2
        oddpart[y] = fact[z] if z > 1 else {}
    for a in range(-R, R + 1):
        for b in range(-R, R + 1):
            cases.append(('gcdext', (a, b), None))
            cases.append(('invert', (a, b), None))
            cases.append(('jacobi', (a, b), fact.get(b) if b > 0 and b % 2 else None))
            cases.append(('kronecker', (a, b), oddpart.get(abs(b)) if b else None))
    for a in range(-60, 61):
        for b in range(-5, 60):
            cases.append(('legendre', (a, b), None))
    # roots: all x <= XR, every step-th x up to 10^6, all perfect powers +-1 up to 10^6
    squares = set(i * i for i in range(0, 1100))
    XR = ctx.scale(20_000, 200_000)
    step = ctx.scale(101, 3)
    xs = set(range(-40, XR + 1)) | set(range(XR, 1_000_001, step))
    powers = set()
    for n in range(2, 21):
        r = 0
        while r ** n <= 1_000_100:
            powers.update((r ** n - 1, r ** n, r ** n + 1))
            r += 1
    xs |= powers
    for x in sorted(xs):
        cases.append(('isqrt', (x,), None))
        cases.append(('is_square', (x,), x in squares))
        if x <= ctx.scale(500, 3000):
            ns = (-1, 0, 1, 2, 3, 4, 5, 6, 7, 11, 12, 19, 20, 21)
        elif x in powers:
            ns = ctx.scale((2, 3, 4, 5, 7, 19), (1, 2, 3, 4, 5, 6, 7, 8, 9, 10, 13, 19, 20))
        elif x <= XR:
            ns = (2, 3) if x % 2 else (2 + x % 7,)
        else:
            ns = (2 + x % 5,)
        for n in ns:
            cases.append(('iroot', (x, n), None))
    # prime powers <= 10^6 and non-powers (a prime > 2^10 costs ~170 is_prime calls in the code: sampled)
    sv = orc.sieve()
    rng = ctx.subrng('fpp-small')
    nprimes = ctx.scale(300, 12000)
    PSMALL = ctx.scale(2000, 3000)
    primes_big = [p for p in range(PSMALL, 1_000_001) if sv[p]]
    chosen = set(rng.sample(primes_big, nprimes))
    for p in range(2, 1_000_001):
        if sv[p]:
            q, d = p, 1
            while q <= 1_000_000:
                if d > 1 or p < PSMALL or p in chosen:
                    cases.append(('factor_prime_power', (q,), ('ok', (p, d))))
                q *= p
                d += 1
    for x in range(-10, 3000):
        cases.append(('factor_prime_power', (x,), None))
    for _ in range(ctx.scale(2000, 60000)):
        cases.append(('factor_prime_power', (rng.randrange(2, 1_000_001),), None))
    # products of two primes around 2^10 (first prime not covered by the trial stage)
    around = [p for p in range(ctx.scale(990, 900), ctx.scale(1070, 1200)) if sv[p]]
    for p in around:
        for q in around:
            if p <= q:
                cases.append(('factor_prime_power', (p * q,), ('err', 'ValueError') if p != q else ('ok', (p, 2))))
    # ratrec, small exhaustive
    for y in range(-2, ctx.scale(16, 41)):
        for x in range(-3, y + 4):
            opts = [None] + list(range(-1, 6))
            for N in opts:
                for D in opts:
                    cases.append(('ratrec', (x, y, N, D), None))
    # powmod cube
    for x in range(-9, 10):
        for m in range(-9, 10):
            for y in range(-3, 6):
                cases.append(('powmod', (x, y, m), None))
    return cases


def gen_random(ctx):
    rng = ctx.subrng('random-large')
    cases = []
    sizes = [64, 96, 128, 256, 512, 1024, 2048]
    reps = ctx.scale(4, 40)
    # primality
    for x in CARMICHAEL + STRONG_PSP:
        cases.append(('is_prime', (x,), None))
    for bits in sizes:
        for _ in range(reps):
            cases.append(('is_prime', (rand_bits(rng, bits) | 1,), None))
            hb = bits // 2
            p, q = rand_prime(rng, hb), rand_prime(rng, bits - hb)
            cases.append(('is_prime', (p * q,), None))
            cases.append(('is_prime', (p * p,), None))
        for _ in range(max(1, reps // 3)):
            p = rand_prime(rng, bits)
            cases.append(('is_prime', (p,), None))
            if bits <= 512:
                cases.append(('next_prime', (p,), None))
                cases.append(('prev_prime', (p,), None))
                cases.append(('next_prime', (rand_bits(rng, bits),), None))
                cases.append(('prev_prime', (rand_bits(rng, bits),), None))
    # pairs
    for bits in sizes:
        for _ in range(reps * 3):
            sa, sb = rng.choice([1, -1]), rng.choice([1, -1])
            a = sa * rng.getrandbits(rng.choice([bits, bits // 2, 8]))
            b = sb * rng.getrandbits(bits)
            g = rng.getrandbits(rng.choice([1, 4, 16, bits // 4]))
            variants = [(a, b), (a * g, b * g), (b, b), (b, -b), (a * b, b), (b, a * b), (a, 0), (0, b)]
            if a:
                gg = math.gcd(a, b)
                variants.append((a, 2 * gg * sb))          # |b| = 2g
                variants.append((2 * gg * sa, b))
            for (u, v) in variants:
                cases.append(('gcdext', (u, v), None))
                cases.append(('invert', (u, v), None))
            # symbols: modulus with known factorisation
            fs = {}
            y = 1
            while y.bit_length() < bits:
                p = rand_prime(rng, rng.choice([2, 3, 8, 17, 40]))
                if p == 2:
                    continue
                fs[p] = fs.get(p, 0) + 1
                y *= p
            x = sa * rng.getrandbits(bits + 3)
            xz = x * rng.choice(list(fs))                  # symbol 0
            for xx in (x, xz, x % y, 1, -1, 2, y + 1):
                cases.append(('jacobi', (xx, y), fs))
                cases.append(('legendre', (xx, y), fs))
                e = rng.choice([0, 1, 2, 3, 6])
                cases.append(('kronecker', (xx, sb * y << e), fs))
            cases.append(('jacobi', (x, 2 * y), None))
            cases.append(('jacobi', (x, -y), None))
            p = rand_prime(rng, min(bits, 256))
            if p > 2:
                cases.append(('legendre', (x, p), {p: 1}))
                cases.append(('legendre', (x * x % p, p), {p: 1}))
            # powmod
            m = sb * (rng.getrandbits(bits) + 1)
            cases.append(('powmod', (x, rng.getrandbits(bits), m), None))
            cases.append(('powmod', (x, -rng.getrandbits(8) - 1, m), None))
            cases.append(('powmod', (x, -1, p), None))
    # roots
    for bits in sizes:
        for _ in range(reps * 2):
            n = rng.choice([1, 2, 3, 4, 5, 7, 8, 13, 64, 100])
            r = rng.getrandbits(max(2, bits // n)) + 2
            for x in (r ** n, r ** n - 1, r ** n + 1, rng.getrandbits(bits), (r + 1) ** n - 1):
                cases.append(('iroot', (x, n), None))
                cases.append(('iroot', (x, n + 1), None))
            r = rng.getrandbits(bits // 2) + 2
            for d in (0, 1, -1, 2 * r, 2 * r + 1, rng.randrange(1, 2 * r)):
                x = r * r + d
                cases.append(('isqrt', (x,), None))
                cases.append(('is_square', (x,), d in (0, 2 * r + 1)))
            cases.append(('is_square', (-r * r,), False))
            cases.append(('isqrt', (-r,), None))
            cases.append(('iroot', (-r, 3), None))
            cases.append(('iroot', (r, -rng.randrange(0, 3)), None))
    # prime powers
    for bits in sizes:
        for _ in range(reps):
            pb = rng.choice([2, 5, 9, 10, 11, 12, 16, 24, 33, 64, 128, bits])
            pb = min(pb, bits)
            p = rand_prime(rng, pb)
            d = max(1, bits // pb) if rng.random() < 0.7 else rng.randrange(1, max(2, bits // pb + 1))
            x = p ** d
            cases.append(('factor_prime_power', (x,), ('ok', (p, d))))
            q = rand_prime(rng, rng.choice([11, 12, 20, pb + 1]))
            if q != p:
                cases.append(('factor_prime_power', (x * q,), ('err', 'ValueError')))
                cases.append(('factor_prime_power', ((p * q) ** max(1, d // 2),), ('err', 'ValueError')))
            if d > 1:
                cases.append(('factor_prime_power', (x + rng.choice([-1, 1, 2]),), None if x < 1 << 70 else 'skip'))
    for p in (1013, 1019, 1021, 1031, 1033, 1039):
        for d in (1, 2, 3, 4, 6, 9, 10, 12, 15, 25, 30, 49, 60, 77, 121):
            cases.append(('factor_prime_power', (p ** d,), ('ok', (p, d))))
    # ratrec
    for bits in [8, 16, 32] + sizes:
        for _ in range(reps * 3):
            y = rng.choice([rand_prime(rng, bits), rand_bits(rng, bits)])
            mode = rng.randrange(4)
            if mode == 0:
                N, D = None, None
            elif mode == 1:
                N, D = rng.getrandbits(bits // 2), None
            elif mode == 2:
                N, D = None, rng.getrandbits(bits // 2) + 1
            else:
                D = rng.getrandbits(rng.randrange(1, bits)) + 1
                N = max(0, (y - 1) // (2 * D) - rng.choice([0, 0, 1, 5]))
            nd = orc.ratrec_bounds(y, N, D)
            cases.append(('ratrec', (rng.getrandbits(bits), y, N, D), None))
            if nd is None:
                continue
            NN, DD = nd
            for _k in range(3):
                d = rng.randrange(1, DD + 1)
                n = rng.randrange(-NN, NN + 1)
                if math.gcd(n, d) != 1 or math.gcd(d, y) != 1:
                    continue
                x = n * pow(d, -1, y) % y + rng.choice([0, y, -y])
                cases.append(('ratrec', (x, y, N, D), (n, d)))
            # invalid bounds
            cases.append(('ratrec', (5, y, -1, D), None))
            cases.append(('ratrec', (5, y, N, 0), None))
            cases.append(('ratrec', (5, y, y, 1), None))
            cases.append(('ratrec', (5, -y, N, D), None))
    return cases


# ------------------------------------------------------------------------------------------------
def evaluate(ctx, cases, what, corr=True):
    """run the real code on all cases, compare with the Lean driver, check with the oracle"""
    rec = _RecRandom(ctx.subrng('mr-bases', what))
    saved = gmpy.random
    outcomes = [None] * len(cases)
    lines = [None] * len(cases)
    # is_prime first (cheap): its driver line needs the Miller-Rabin bases the real run drew
    gmpy.random = rec
    try:
        for i, (fn, args, _hint) in enumerate(cases):
            if fn == 'is_prime':
                rec.bases = []
                outcomes[i] = call(fn, args)
                lines[i] = drv_line(fn, args, rec.bases)
            else:
                lines[i] = drv_line(fn, args)
    finally:
        gmpy.random = saved
    fut = ex = None
    t_start = time.time()
    if corr:   # the Lean driver processes run while the real code and the oracle are evaluated below
        ex = ThreadPoolExecutor(1)
        fut = ex.submit(run_driver, lines)
    nviol = ntimeouts = 0
    for i, (fn, args, hint) in enumerate(cases):
        out = outcomes[i]
        if out is None:
            out = outcomes[i] = call(fn, args)
        ctx.case((fn, args))
        ctx.count(fn + ('/raises' if out[0] == 'err' else ''))
        if out == ('err', 'TimeoutError'):
            ntimeouts += 1
            ctx.violation(f'{fn}{args} did not return within {CALL_TIMEOUT:.0f}s',
                          {'function': fn, 'args': list(args), 'observed': 'TimeoutError', 'expected': 'a result'})
            if ntimeouts >= 2:       # do not sit through thousands of hanging calls
                ctx.note('evaluation aborted after 2 non-terminating calls of the code under test')
                if ex is not None:
                    ex.shutdown(wait=False, cancel_futures=True)
                return outcomes
            continue
        if hint == 'skip':
            continue
        msg = orc.check(fn, args, out, hint)
        if msg is not None:
            nviol += 1
            if nviol <= 5:
                ctx.violation(f'{fn}{args} -> {canon(out)}: {msg}',
                              {'function': fn, 'args': list(args), 'observed': canon(out), 'expected': msg,
                               'hint': hint if not isinstance(hint, dict) else {str(k): v for k, v in hint.items()}})
    t_py = time.time() - t_start
    if corr:
        model = fut.result()
        ex.shutdown()
        ctx.note(f'{what}: real code + oracle {t_py:.1f}s, Lean driver finished after {time.time()-t_start:.1f}s')
        ctx.compare(f'gmpy stubs vs Lean NumTh model ({what})', [canon(o) for o in outcomes], model, lines)
    return outcomes


def run(ctx):
    assert gmpy.version() == 'MPyC stubs', 'gmpy2 present: stubs not under test'
    t0 = time.time()
    cases = gen_exhaustive(ctx)
    nex = len(cases)
    rnd = gen_random(ctx)
    cases += rnd
    ctx.note(f'cases: {nex} exhaustive + {len(rnd)} random large (generated in {time.time()-t0:.1f}s)')
    outs = evaluate(ctx, cases, 'exhaustive+random')
    for (fn, args, _h), o in list(zip(cases[nex:], outs[nex:]))[:: max(1, len(rnd) // 4)]:
        if o is not None:
            ctx.sample({'function': fn, 'args': [str(a) for a in args], 'result': canon(o)})
    ctx.note(f'run: {time.time()-t0:.1f}s')
    ctx.note('observation (not a violation): ratrec(x, y, None, 0) raises ZeroDivisionError rather than ValueError')


GEN_FILE = os.path.join(common.LEAN_DIR, 'MpycV', 'Generated', 'GmpySrc.lean')
MIRROR_FILE = os.path.join(common.LEAN_DIR, 'MpycV', 'Lemmas', 'NumThSrcMirror.lean')
GMPY_SRC = os.path.join(repo_path.REPO, 'mpyc', 'gmpy.py')
# who is affected when a stub changes (callers in the translated source)
DEPENDENTS = {'jacobi': ['legendre', 'kronecker'], 'isqrt': ['is_square', 'ratrec', 'factor_prime_power'],
              'is_square': ['factor_prime_power'], 'iroot': ['factor_prime_power'],
              'next_prime': ['factor_prime_power'], 'is_prime': ['next_prime', 'prev_prime', 'factor_prime_power']}


def _translate_current():
    try:
        text = open(GMPY_SRC).read()
    except OSError as exc:
        text = ''
        return py2lean.translate_source(text)[0], {'*': f'cannot read {GMPY_SRC}: {exc}'}
    return py2lean.translate_source(text)


def generate(ctx):
    """source translator: current mpyc/gmpy.py -> lean/MpycV/Generated/GmpySrc.lean (deterministic)"""
    text, problems = _translate_current()
    os.makedirs(os.path.dirname(GEN_FILE), exist_ok=True)
    old = open(GEN_FILE).read() if os.path.exists(GEN_FILE) else None
    if old != text:
        tmp = GEN_FILE + f'.tmp{os.getpid()}'
        with open(tmp, 'w') as f:
            f.write(text)
        os.replace(tmp, GEN_FILE)
    for fn, msg in problems.items():
        ctx.note(f'py2lean: {fn} not translated: {msg}')
    changed = changed_functions(text)
    if changed:
        ctx.note('py2lean: translated text differs from the pinned mirror for: ' + ', '.join(changed))
    ctx.count('py2lean/functions translated', len(py2lean.ORDER) - len([k for k in problems if k != '*']))


def _blocks(text):
    """split a generated file into {function: text of its definitions}"""
    out = {}
    cur = None
    for ln in text.replace('MpycV.GmpyMirror', 'MpycV.GmpySrc').split('\n'):
        if ln.startswith('-- ≙ gmpy.py:'):
            cur = ln.split('`')[1]
            out[cur] = []
            continue          # the line number in the header may move without any change of the function
        if ln.startswith('end MpycV.'):
            cur = None
        if cur is not None:
            out[cur].append(ln)
    return {k: '\n'.join(v).strip() for k, v in out.items()}


def changed_functions(text=None):
    """functions whose translation differs textually from the mirror the bridge lemmas are proved for"""
    if text is None:
        text = _translate_current()[0]
    try:
        mirror = _blocks(open(MIRROR_FILE).read())
    except OSError:
        return list(py2lean.ORDER)
    cur = _blocks(text)
    return [fn for fn in py2lean.ORDER if cur.get(fn) != mirror.get(fn)]


def search(ctx):
    """bigger oracle-only sweep on the real code (called when proof or correspondence broke); concentrates on the stubs
    whose translation changed (and their callers) when the break comes from the source tie"""
    ctx.tier = 'thorough'
    focus = set()
    for fn in changed_functions():
        focus.add(fn)
        focus.update(DEPENDENTS.get(fn, []))
    if focus:
        ctx.note('search focused on: ' + ', '.join(sorted(focus)))
        cases = [c for c in gen_exhaustive(ctx) if c[0] in focus]
        evaluate(ctx, cases, 'search-focus-exhaustive', corr=False)
        for k in range(6):
            if ctx.violations:
                return
            ctx.seed = f'{ctx.seed}-s{k}'
            evaluate(ctx, [c for c in gen_random(ctx) if c[0] in focus], f'search-focus-random-{k}', corr=False)
        return
    evaluate(ctx, gen_exhaustive(ctx), 'search-exhaustive', corr=False)
    for k in range(3):
        ctx.seed = f'{ctx.seed}-s{k}'
        evaluate(ctx, gen_random(ctx), f'search-random-{k}', corr=False)


def _unjson(h):
    if isinstance(h, list):
        return tuple(_unjson(e) for e in h)
    if isinstance(h, str) and h.lstrip('-').isdigit():
        return int(h)
    if isinstance(h, dict):
        return {k: _unjson(v) for k, v in h.items()}
    return h


def replay(ctx, data):
    fn = data['function']
    args = tuple(None if a is None else (int(a) if not isinstance(a, bool) else a) for a in data['args'])
    out = call(fn, args)
    hint = _unjson(data.get('hint'))
    if isinstance(hint, dict):
        hint = {int(k): v for k, v in hint.items()}
    if hint == 'skip':
        hint = None
    msg = orc.check(fn, args, out, hint)
    if msg is None:
        return True, f'{fn}{args} -> {canon(out)} accepted by the oracle'
    return False, f'{fn}{args} -> {canon(out)}: {msg}'
