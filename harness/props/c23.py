"""C23 -- polynomials over GF(p) (mpyc/gfpx.py): ring laws, division algorithm, gcd/gcdext/invert/powmod,
binary (bitmask) and generic (list) representation agree for p = 2.

Python side of the check:
  * CORRESPONDENCE: the real classes `gfpx.GFpX(p)` (public operators, class methods, reflected forms,
    constructors, conversions AND the static `_methods`) against the executable Lean models
    `MpycV.GFpX` / `MpycV.BinPoly`, through the line-protocol driver `lean/Drv/GFpX.lean`.
  * ORACLE: every real result is checked against `harness/gfpx_oracle.py` (textbook definitions,
    written independently of gfpx.py and of the Lean model).

The work is cut into jobs that run in worker processes (each job evaluates the real code, checks the
oracle, pipes its request lines through one Lean driver process and diffs the answers with
`Ctx.compare`); the parent merges the results into `ctx`.
This module also provides the job machinery used by `props/c24.py`.
"""
import json
import multiprocessing
import os
import random
import signal
import sys

HARNESS = os.path.dirname(os.path.dirname(os.path.abspath(__file__)))
if HARNESS not in sys.path:
    sys.path.insert(0, HARNESS)
import repo_path  # noqa: E402,F401  (puts $VERIF_REPO, default /repo, first on sys.path)
sys.argv = [sys.argv[0], '--no-log']  # mpyc parses argv on import
import common  # noqa: E402
import gfpx_oracle as O  # noqa: E402
from mpyc import gfpx  # noqa: E402

# ---------------------------------------------------------------------------------------------
# module interface constants
# ---------------------------------------------------------------------------------------------
LEVEL = 'proof'
LEAN_MODULES = ['MpycV.Props.C23', 'MpycV.PropsGen.C23Src']
LEAN_NAMESPACES = ['MpycV.C23', 'MpycV.C23Src']
REQUIRED_THEOREMS = [
    'normalised_preserved', 'normalised_preserved_div', 'toPoly_injective', 'toPoly_hom', 'sq_eq_mul_self',
    'ring_laws', 'divmod_spec', 'mod_floordiv_consistent', 'gcd_spec', 'gcdext_bezout', 'invert_spec',
    'invert_reduced', 'powmod_spec', 'pow_spec', 'powmod_neg_spec', 'powmod_unreduced_witness',
    'bin_list_agree', 'bin_eval_agree_odd', 'bin_eval_even_finding', 'bin_eval_even_witness',
    'lt_lex', 'int_roundtrip', 'eval_horner', 'table_p3_deg2',
    # source tie (PropsGen/C23Src.lean): definitions generated from the current gfpx.py = hand-written model
    'add_src_eq', 'sub_src_eq', 'sq_src_eq', 'mul_src_eq', 'mul_same_src_eq', 'divmod_src_eq', 'mod_src_eq',
    'mod_N_src_eq', 'monic_src_eq', 'monic_lc_src_eq', 'gcd_src_eq', 'gcdext_src_eq', 'invert_src_eq',
    'powmod_src_eq', 'powmod_N_src_eq', 'degree_src_eq', 'to_int_src_eq', 'from_int_src_eq', 'divmod_src_spec',
    'b_degree_src_eq', 'b_sq_src_eq', 'b_mul_src_eq', 'b_mod_src_eq', 'b_divmod_src_eq', 'b_gcd_src_eq',
    'b_gcdext_src_eq', 'b_invert_src_eq',
]

RULE = (
    'A case is one (class, operands) tuple on which the real gfpx code is evaluated; classes are GFpX(p) for '
    'p in {2,3,5,7} (exhaustive), {11,101,2^61-1} (random) and, for the clause "representations agree", the '
    'generic list code of gfpx.Polynomial instantiated at p = 2 next to BinaryPolynomial. '
    'Exhaustive: every polynomial of degree <= 3 incl. 0 (unary ops, shifts 0..3, evaluation at -2..p+1, '
    'indexing, int/list/tuple/str constructors, powmod with n in -3..6 and 13 moduli incl. None/0/constants/'
    'reducible/irreducible); every ordered PAIR for p = 2 (degree <= 3; p = 3: thorough tier); p in {5,7}: thorough tier every pair of '
    'degree <= 2 (p = 5: <= 3), quick tier every pair of degree <= 1 plus seeded samples of 1500 pairs of '
    'degree <= 2 and 1000 pairs involving degree 3 (quick p = 3: all pairs of degree <= 2 + 1500 sampled pairs involving '
    'degree 3; quick p = 5/7: unary ops on degree <= 2 / the first 147 polynomials, powmod on degree <= 2 / <= 1 + 200 '
    'sampled); ring laws on all triples of '
    'degree <= 3 (p=2) / <= 2 (p=3; quick: degree <= 1 + 3000 sampled) and random triples otherwise. Random: degrees -1..40 with shapes generic/'
    'equal operands/b divides a/common factor/constant/zero/monic and non-monic divisors. Every operation is '
    'reached through several entry points (operator, reflected operator with int/list/tuple/str operand, class '
    'method, static _method), rotating over the pairs (all entry points on the small domains). '
    'Each real result is (1) formatted exactly like the Lean driver answer and diffed against the model on the '
    'same operands (for p = 2 against BOTH the bitmask model and the list model at p = 2), (2) checked against '
    'the independent oracle. Distinct non-trivial cases = distinct (class, operands) keys.')
EXPLANATION = (
    'Oracle clauses: +,-,*,<<,>> equal schoolbook arithmetic; divmod(a,b) = (q,r) with a = q b + r and '
    'deg r < deg b, ZeroDivisionError iff b = 0, % and // agree with it; gcd is monic, divides both and equals '
    's a + t b for the gcdext coefficients (so every common divisor divides it; brute-force maximal common '
    'divisor on the tiny domains inside the oracle self check); invert(a,b) u satisfies a u = 1 mod b, '
    'deg u < deg b, raises iff no inverse; powmod equals n-fold multiplication reduced mod b after each step '
    '(negative n through the inverse); < is degree-then-top-down lexicographic; int/list/str round trips; '
    'evaluation equals sum c_i x^i mod p; ring laws on triples evaluated with the real operators only; the SageMath-style '
    'helpers reverse/truncate (Lean model: correspondence, no theorem) and deriv (oracle only) equal their definitions '
    'in both representations.')
ASSUMPTIONS = [
    'the correspondence is a finite sample (exhaustive on the listed small domains, seeded random beyond)',
    'powmod with the ZERO polynomial as modulus is compared with the model but not judged by the oracle '
    '(the docstring excludes it; the code returns a for n = 1 and 1 for n = 0, raises ZeroDivisionError otherwise)',
    'the class used for "generic list representation at p = 2" is a subclass of gfpx.Polynomial with p = 2 '
    'created by the harness (GFpX(2) itself always returns BinaryPolynomial)',
    'Python int arithmetic, itertools, random and the harness oracle gfpx_oracle.py are correct',
]
TRUSTED = ['harness/gfpx_oracle.py (independent schoolbook reference)',
           'harness/py2lean_gfpx.py: the Python->Lean translation rules listed in its docstring (lists as values with a '
           'syntactic no-alias check, Python indexing guards, the strip idiom, % p / // p as Int.emod / ediv for the '
           'positive modulus, gmpy2.invert = the C25 model of the stub, `a is b` as a Bool parameter, generic pyFor / loop '
           'combinators, hand-written fuels)',
           'lean/Drv/GFpX.lean line-protocol driver (parsing/printing of the model values)',
           'native compilation (lean -c + leanc) of the driver and the two model files, used for speed; a seeded '
           'probe of every run is answered by the interpreter too and must be identical, else the interpreter is used']

# Known genuine deviations of the real code (reported once each, minimal instance, under these stable keys; the
# correspondence still agrees on them because the Lean model transcribes the code as it is):
KNOWN_DEVIATIONS = {
    'C23-powmod-unreduced': 'powmod(a, 1, b) returns a unreduced when deg a >= deg b, powmod(a, 0, b) returns 1 for a '
                            'nonzero constant b (expected 0); congruent to a^n but not the canonical representative. '
                            'E.g. GF(3): powmod(x^5, 1, x^2+1) = x^5, expected x. Both classes.',
    'C23-binary-eval-even': 'BinaryPolynomial.__call__(x) returns 0 for every even x; expected the constant coefficient. '
                            'E.g. GF(2): (x+1)(0) = 0, expected 1.',
    'C23-binary-reverse-unpadded': 'FIXED in /repo (f8e05fb); would be reported again under this key: '
                                   'BinaryPolynomial.reverse(d) with d < degree does not pad the truncated polynomial back '
                                   'to d+1 coefficients before reversing, the generic list code does (representations '
                                   'disagree for p = 2). E.g. GFpX(2)(5).reverse(1) = 1, expected x (= reverse of 1 + 0x).',
}
FINDING_POWMOD = 'C23-powmod-unreduced'
FINDING_EVAL = 'C23-binary-eval-even'
FINDING_REVERSE = 'C23-binary-reverse-unpadded'
P61 = 2 ** 61 - 1


# ---------------------------------------------------------------------------------------------
# classes under test
# ---------------------------------------------------------------------------------------------
class Dom:
    """One polynomial class of the real code.  name: '2b' = GFpX(2) (BinaryPolynomial), '2l' = the generic
    list code instantiated at p = 2, otherwise str(p) = GFpX(p)."""

    def __init__(self, name):
        self.name = name
        if name == '2l':
            self.p = 2
            self.cls = type('GF(2)[x]/list', (gfpx.Polynomial,), {'__slots__': (), 'p': 2})
        else:
            self.p = int(name.rstrip('b'))
            self.cls = gfpx.GFpX(self.p)
        self.bin = issubclass(self.cls, gfpx.BinaryPolynomial)
        self.label = {'2b': 'GF(2)[x] (binary)', '2l': 'GF(2)[x] (generic list code)'}.get(name, f'GF({self.p})[x]')

    def mk(self, t):
        """fresh real object from a coefficient list, through the public constructor"""
        return self.cls(list(t))

    def w(self, v):
        """wrap an internal value returned by a static _method"""
        if isinstance(v, tuple):
            return tuple(self.w(x) for x in v)
        return self.cls(v, check=False)


_DOMS = {}


def dom(name):
    name = str(name)
    if name == '2':
        name = '2b'
    if name not in _DOMS:
        _DOMS[name] = Dom(name)
    return _DOMS[name]


# ---------------------------------------------------------------------------------------------
# canonical results and driver formats
# ---------------------------------------------------------------------------------------------
def canon_value(D, v):
    """internal value -> coefficient list exactly as stored (nothing repaired)"""
    if D.bin:
        if isinstance(v, int) and not isinstance(v, bool) and v >= 0:
            return O.bits_to_list(int(v))
        return 'bad-value:' + repr(v)[:80]
    if isinstance(v, list) and all(isinstance(c, int) and not isinstance(c, bool) for c in v):
        return [int(c) for c in v]
    return 'bad-value:' + repr(v)[:80]


def canon(D, r):
    if isinstance(r, gfpx.Polynomial):
        if type(r) is not D.cls:
            return 'wrong-type:' + type(r).__name__
        return canon_value(D, r.value)
    if isinstance(r, tuple):
        return [canon(D, x) for x in r]
    if isinstance(r, (bool, int, str, list)):
        return r
    return 'bad-result:' + repr(r)[:80]


def truth(r):
    """results of comparisons are bools or the ints 0/1"""
    if r is True or r is False or (type(r) is int and r in (0, 1)):
        return bool(r)
    return 'bad-result:' + repr(r)[:80]


def fmtL(a):
    return ','.join(map(str, a)) if a else '-'


def fmtB(a):
    return str(O.list_to_bits(a))


def show(kind, r, binfmt):
    """canonical result -> exactly the answer format of lean/Drv/GFpX.lean"""
    try:
        if isinstance(r, str):
            return r[7:] if r.startswith('raises:') else r
        P = fmtB if binfmt else fmtL
        if kind == 'P':
            return P(r)
        if kind in ('PP', 'PPP'):
            return '|'.join(P(x) for x in r)
        if kind == 'PI':
            return P(r[0]) + '|' + str(r[1])
        if kind == 'B':
            return 'True' if r is True else 'False' if r is False else repr(r)
        if kind == 'I':
            return str(r)
        return repr(r)
    except Exception:
        return 'unformattable:' + repr(r)[:80]


def fmt_arg(kind, a, binfmt):
    if kind in ('I', 'N'):
        return str(a)
    if kind == 'M' and a is None:
        return 'N'
    if kind == 'O':
        return 'N' if a is None else str(a)
    if kind == 'L':
        return fmtL(a)
    return fmtB(a) if binfmt else fmtL(a)


# ---------------------------------------------------------------------------------------------
# oracle checks: chk(D, args, observed) -> (status, expected); status 'ok' | 'bad' | <finding key>
# ---------------------------------------------------------------------------------------------
def _is(obs, exp):
    return ('ok' if obs == exp and type(obs) is type(exp) else 'bad'), exp


def _try(f, *a):
    try:
        return f(*a)
    except (ZeroDivisionError, ValueError) as exc:
        return 'raises:' + type(exc).__name__


def _pl(p, x):
    """observed value is a well-formed polynomial"""
    return O.is_wellformed(p, x)


def chk_divmod(D, args, obs):
    p, (a, b) = D.p, args
    if not b:
        return _is(obs, 'raises:ZeroDivisionError')
    exp = list(O.divmod_(p, a, b))
    if obs != exp:
        return 'bad', exp
    ok = O.satisfies_division(p, a, b, obs[0], obs[1])
    return ('ok' if ok else 'bad'), 'a == q*b + r and deg r < deg b'


def chk_monicinv(D, args, obs):
    p, (a,) = D.p, args
    return _is(obs, [O.monic(p, a), (O.inv_p(p, a[-1]) if a else 0)])


def chk_gcdext(D, args, obs):
    p, (a, b) = D.p, args
    g = O.gcd(p, a, b)
    exp = {'d': g, 'such that': 's*a + t*b == d'}
    if not (isinstance(obs, list) and len(obs) == 3 and all(_pl(p, x) for x in obs)):
        return 'bad', exp
    d, s, t = obs
    return ('ok' if d == g and O.is_gcd_certified(p, a, b, d, s, t) else 'bad'), exp


def chk_gcd(D, args, obs):
    p, (a, b) = D.p, args
    g = O.gcd(p, a, b)
    if obs != g:
        return 'bad', g
    ok = (not g and not a and not b) or (g and g[-1] == 1 and O.divides(p, g, a) and O.divides(p, g, b))
    return ('ok' if ok else 'bad'), g


def chk_invert(D, args, obs):
    p, (a, b) = D.p, args
    exp = _try(O.inverse, p, a, b)
    if obs != exp:
        return 'bad', exp
    if isinstance(obs, list):
        ok = _pl(p, obs) and O.deg(obs) < O.deg(b) and O.mod(p, O.mul(p, a, obs), b) == O.one_mod(p, b)
        return ('ok' if ok else 'bad'), exp
    return 'ok', exp


def oracle_power(p, a, n, m):
    if m is not None and abs(n) > 64:
        if n < 0:
            a, n = O.inverse(p, a, m), -n
        return O.power_big(p, a, n, m)
    return O.power(p, a, n, m)


def chk_powmod(D, args, obs):
    p, (a, n, m) = D.p, args
    if m is not None and not m:
        return 'ok', 'unconstrained (zero modulus)'
    exp = _try(oracle_power, p, a, n, m)
    if obs == exp:
        return 'ok', exp
    if m is not None and isinstance(exp, list) and _pl(p, obs) and O.mod(p, obs, m) == exp:
        # congruent to a^n but not the canonical representative
        known = (n == 1 and O.deg(a) >= O.deg(m) and obs == a) or (n == 0 and O.deg(m) == 0 and obs == [1])
        return (FINDING_POWMOD if known else 'bad'), exp
    return 'bad', exp


def chk_eval(D, args, obs):
    p, (a, x) = D.p, args
    exp = O.eval_direct(p, a, x)
    assert exp == O.eval_horner(p, a, x % p)
    if D.bin and obs == 0 and type(obs) is int and exp == 1 and x % 2 == 0:
        return FINDING_EVAL, exp
    return _is(obs, exp)


def chk_terms(D, args, obs):
    (a,) = args
    exp = 'a string that parses back to the polynomial'
    try:
        return ('ok' if isinstance(obs, str) and O.parse_terms(D.p, obs) == a else 'bad'), exp
    except ValueError:
        return 'bad', exp


def chk_true(D, args, obs):
    return _is(obs, True)


# ---------------------------------------------------------------------------------------------
# operation table
# ---------------------------------------------------------------------------------------------
class Op:
    def __init__(self, name, kinds, res, check, variants, drv=None, has_p=True, bin_drv=True, remap=None, req=None,
                 list_ok=None):
        self.name, self.kinds, self.res, self.check = name, kinds, res, check
        self.req, self.list_ok = req, list_ok       # custom request line; predicate: emit the list-model line?
        self.variants = [(v[0], v[1], v[2] if len(v) > 2 else None) for v in variants]
        self.drv, self.has_p, self.bin_drv, self.remap = drv, has_p, bin_drv, remap


OPS = {}


def defop(name, kinds, res, check, variants, **kw):
    OPS[name] = Op(name, kinds, res, check, variants, **kw)


def V(label, fn, pred=None):
    return (label, fn, pred)


def _binop(name, sym, exp, static):
    """the entry points of a binary ring operator"""
    import operator
    f = {'+': operator.add, '-': operator.sub, '*': operator.mul}[sym]
    vs = [
        V(f'a{sym}b', lambda D, a, b: f(a, b)),
        V(f'cls.{name}', lambda D, a, b: getattr(D.cls, name)(a, b)),
        V(static, lambda D, a, b: D.w(getattr(D.cls, static)(a.value, b.value))),
        V(f'int{sym}b', lambda D, a, b: f(int(a), b)),
        V(f'a{sym}int', lambda D, a, b: f(a, int(b))),
        V(f'list{sym}b', lambda D, a, b: f(list(a), b)),
        V(f'a{sym}tuple', lambda D, a, b: f(a, tuple(b))),
        V(f'str{sym}b', lambda D, a, b: f(str(a), b)),
        V(f'a{sym}str', lambda D, a, b: f(a, str(b))),
        V(f'cls.{name}(int,list)', lambda D, a, b: getattr(D.cls, name)(int(a), list(b))),
    ]
    defop(name, 'PP', 'P', lambda D, args, obs: _is(obs, exp(D.p, *args)), vs, drv=name)


_binop('add', '+', O.add, '_add')
_binop('sub', '-', O.sub, '_sub')
_binop('mul', '*', O.mul, '_mul')

defop('sq', 'P', 'P', lambda D, args, obs: _is(obs, O.mul(D.p, args[0], args[0])), [
    V('a*a', lambda D, a: a * a),
    V('cls.mul(a,a)', lambda D, a: D.cls.mul(a, a)),
    V('_mul(v,v)', lambda D, a: D.w(D.cls._mul(a.value, a.value))),
    V('_sq', lambda D, a: D.w(D.cls._sq(a.value))),
], drv='sq')

defop('neg', 'P', 'P', lambda D, args, obs: _is(obs, O.neg(D.p, args[0])), [
    V('-a', lambda D, a: -a),
    V('_neg', lambda D, a: D.w(D.cls._neg(a.value))),
    V('0-a', lambda D, a: 0 - a),
], drv='neg')

defop('pos', 'P', 'P', lambda D, args, obs: _is(obs, list(args[0])), [
    V('+a', lambda D, a: +a),
    V('cls(a)', lambda D, a: D.cls(a)),
    V('cls(tuple(a))', lambda D, a: D.cls(tuple(a))),
    V('cls(int(a))', lambda D, a: D.cls(int(a))),
    V('cls(str(a))', lambda D, a: D.cls(str(a))),
    V('cls(repr(a))', lambda D, a: D.cls(repr(a))),
    V('cls.from_terms(cls.to_terms(a))', lambda D, a: D.cls.from_terms(D.cls.to_terms(a))),
    V('list(a)', lambda D, a: list(a)),
    V('[a[i]]', lambda D, a: [a[i] for i in range(a.degree() + 1)]),
])

for _name, _exp, _sym in (('lshift', O.shift, '<<'), ('rshift', O.unshift, '>>')):
    def _mk(name, exp, sym):
        import operator
        f = operator.lshift if sym == '<<' else operator.rshift
        defop(name, 'PN', 'P', lambda D, args, obs: _is(obs, exp(*args)), [
            V(f'a{sym}n', lambda D, a, n: f(a, n)),
            V(f'cls.{name}', lambda D, a, n: getattr(D.cls, name)(a, n)),
            V(f'_{name}', lambda D, a, n: D.w(getattr(D.cls, '_' + name)(a.value, n))),
            V(f'cls.{name}(str,n)', lambda D, a, n: getattr(D.cls, name)(str(a), n)),
        ], drv=name)
    _mk(_name, _exp, _sym)

defop('divmod', 'PP', 'PP', chk_divmod, [
    V('divmod(a,b)', lambda D, a, b: divmod(a, b)),
    V('cls.divmod', lambda D, a, b: D.cls.divmod(a, b)),
    V('_divmod', lambda D, a, b: D.w(D.cls._divmod(a.value, b.value))),
    V('divmod(int,b)', lambda D, a, b: divmod(int(a), b)),
    V('divmod(a,int)', lambda D, a, b: divmod(a, int(b))),
    V('divmod(list,b)', lambda D, a, b: divmod(list(a), b)),
    V('divmod(a,str)', lambda D, a, b: divmod(a, str(b))),
    V('cls.divmod(tuple,int)', lambda D, a, b: D.cls.divmod(tuple(a), int(b))),
], drv='divmod')

defop('mod', 'PP', 'P', lambda D, args, obs: _is(obs, _try(O.mod, D.p, *args)), [
    V('a%b', lambda D, a, b: a % b),
    V('cls.mod', lambda D, a, b: D.cls.mod(a, b)),
    V('_mod', lambda D, a, b: D.w(D.cls._mod(a.value, b.value))),
    V('int%b', lambda D, a, b: int(a) % b),
    V('a%int', lambda D, a, b: a % int(b)),
    V('list%b', lambda D, a, b: list(a) % b),
    V('a%str', lambda D, a, b: a % str(b)),
    V('cls.mod(str,tuple)', lambda D, a, b: D.cls.mod(str(a), tuple(b))),
], drv='mod')

defop('floordiv', 'PP', 'P',
      lambda D, args, obs: _is(obs, _try(lambda p, a, b: O.divmod_(p, a, b)[0], D.p, *args)), [
          V('a//b', lambda D, a, b: a // b),
          V('_divmod[0]', lambda D, a, b: D.w(D.cls._divmod(a.value, b.value)[0])),
          V('int//b', lambda D, a, b: int(a) // b),
          V('a//int', lambda D, a, b: a // int(b)),
          V('list//b', lambda D, a, b: list(a) // b),
          V('a//str', lambda D, a, b: a // str(b)),
      ], drv='floordiv')

defop('monic', 'P', 'P', lambda D, args, obs: _is(obs, O.monic(D.p, args[0])), [
    V('a.monic()', lambda D, a: a.monic()),
    V('_monic', lambda D, a: D.w(D.cls._monic(a.value))),
], drv='monic', bin_drv=False)

defop('monicinv', 'P', 'PI', chk_monicinv, [
    V('a.monic(lc_pinv=True)', lambda D, a: a.monic(lc_pinv=True)),
    V('_monic(lc_pinv=True)', lambda D, a: (lambda r: (D.w(r[0]), r[1]))(D.cls._monic(a.value, lc_pinv=True))),
], drv='monicinv', bin_drv=False)

defop('gcd', 'PP', 'P', chk_gcd, [
    V('cls.gcd', lambda D, a, b: D.cls.gcd(a, b)),
    V('_gcd', lambda D, a, b: D.w(D.cls._gcd(a.value, b.value))),
    V('cls.gcd(int,b)', lambda D, a, b: D.cls.gcd(int(a), b)),
    V('cls.gcd(a,str)', lambda D, a, b: D.cls.gcd(a, str(b))),
    V('cls.gcd(list,tuple)', lambda D, a, b: D.cls.gcd(list(a), tuple(b))),
], drv='gcd')

defop('gcdext', 'PP', 'PPP', chk_gcdext, [
    V('cls.gcdext', lambda D, a, b: D.cls.gcdext(a, b)),
    V('_gcdext', lambda D, a, b: D.w(D.cls._gcdext(a.value, b.value))),
    V('cls.gcdext(int,list)', lambda D, a, b: D.cls.gcdext(int(a), list(b))),
    V('cls.gcdext(str,b)', lambda D, a, b: D.cls.gcdext(str(a), b)),
], drv='gcdext')

defop('invert', 'PP', 'P', chk_invert, [
    V('cls.invert', lambda D, a, b: D.cls.invert(a, b)),
    V('_invert', lambda D, a, b: D.w(D.cls._invert(a.value, b.value))),
    V('cls.invert(int,b)', lambda D, a, b: D.cls.invert(int(a), b)),
    V('cls.invert(a,str)', lambda D, a, b: D.cls.invert(a, str(b))),
    V('cls.powmod(a,-1,b)', lambda D, a, b: D.cls.powmod(a, -1, b)),
], drv='invert')

_HASM = lambda args: args[2] is not None  # noqa: E731
_NOM = lambda args: args[2] is None  # noqa: E731
defop('powmod', 'PIM', 'P', chk_powmod, [
    V('_powmod', lambda D, a, n, m: D.w(D.cls._powmod(a.value, n, modulus=None if m is None else m.value))),
    V('cls.powmod', lambda D, a, n, m: D.cls.powmod(a, n, m), _HASM),
    V('cls.powmod(int,n,str)', lambda D, a, n, m: D.cls.powmod(int(a), n, str(m)), _HASM),
    V('cls.powmod(list,n,tuple)', lambda D, a, n, m: D.cls.powmod(list(a), n, tuple(m)), _HASM),
    V('a**n', lambda D, a, n, m: a ** n, _NOM),
    V('pow(a,n)', lambda D, a, n, m: pow(a, n), _NOM),
    V('_powmod(v,n)', lambda D, a, n, m: D.w(D.cls._powmod(a.value, n)), _NOM),
], drv='powmod')


def _cmp(name, exp, variants, remap):
    defop(name, 'PP', 'B', lambda D, args, obs: _is(obs, exp(*args)), variants, drv='lt', has_p=False, remap=remap)


_cmp('lt', O.lt, [
    V('a<b', lambda D, a, b: truth(a < b)),
    V('_lt', lambda D, a, b: truth(D.cls._lt(a.value, b.value))),
    V('int<b', lambda D, a, b: truth(int(a) < b)),
    V('a<int', lambda D, a, b: truth(a < int(b))),
    V('a<list', lambda D, a, b: truth(a < list(b))),
    V('str<b', lambda D, a, b: truth(str(a) < b)),
], None)
_cmp('gt', lambda a, b: O.lt(b, a), [
    V('a>b', lambda D, a, b: truth(a > b)),
    V('int>b', lambda D, a, b: truth(int(a) > b)),
    V('a>tuple', lambda D, a, b: truth(a > tuple(b))),
], lambda args, obs: ((args[1], args[0]), obs))
_NOT = lambda obs: (not obs) if isinstance(obs, bool) else obs  # noqa: E731
_cmp('le', lambda a, b: not O.lt(b, a), [
    V('a<=b', lambda D, a, b: truth(a <= b)),
    V('int<=b', lambda D, a, b: truth(int(a) <= b)),
    V('a<=str', lambda D, a, b: truth(a <= str(b))),
], lambda args, obs: ((args[1], args[0]), _NOT(obs)))
_cmp('ge', lambda a, b: not O.lt(a, b), [
    V('a>=b', lambda D, a, b: truth(a >= b)),
    V('list>=b', lambda D, a, b: truth(list(a) >= b)),
    V('a>=int', lambda D, a, b: truth(a >= int(b))),
], lambda args, obs: (args, _NOT(obs)))

defop('eq', 'PP', 'B', lambda D, args, obs: _is(obs, args[0] == args[1]), [
    V('a==b', lambda D, a, b: truth(a == b)),
    V('not a!=b', lambda D, a, b: _NOT(truth(a != b))),
    V('a==int', lambda D, a, b: truth(a == int(b))),
    V('int==b', lambda D, a, b: truth(int(a) == b)),
    V('a==list', lambda D, a, b: truth(a == list(b))),
    V('not a!=str', lambda D, a, b: _NOT(truth(a != str(b)))),
    V('int(a)==int(b)', lambda D, a, b: int(a) == int(b)),
    V('str(a)==str(b)', lambda D, a, b: str(a) == str(b)),
    V('a in {b}', lambda D, a, b: a in {b}),
])
defop('hasheq', 'PP', 'B', chk_true, [
    V('a!=b or hash(a)==hash(b)', lambda D, a, b: bool(a != b) or hash(a) == hash(b)),
    V('(a==1.5) is False', lambda D, a, b: (a == 1.5) is False and (a != None) is True),  # noqa: E711
    V('trichotomy', lambda D, a, b: [bool(a < b), bool(a == b), bool(a > b)].count(True) == 1),
])

defop('toint', 'P', 'I', lambda D, args, obs: _is(obs, O.to_int(D.p, args[0])), [
    V('int(a)', lambda D, a: int(a)),
    V('_to_int', lambda D, a: D.cls._to_int(a.value)),
    V('int.from_bytes(a.to_bytes)', lambda D, a: int.from_bytes(a.to_bytes((int(a).bit_length() >> 3) + 1, 'little'), 'little')),
], drv='toint')
defop('fromint', 'I', 'P', lambda D, args, obs: _is(obs, O.from_int(D.p, args[0])), [
    V('cls(n)', lambda D, n: D.cls(n)),
    V('_from_int', lambda D, n: D.w(D.cls._from_int(n))),
    V('cls()+n', lambda D, n: D.cls() + n),
], drv='fromint')
defop('fromlist', 'L', 'P', lambda D, args, obs: _is(obs, O.norm(D.p, args[0])), [
    V('cls(list)', lambda D, a: D.cls(list(a))),
    V('cls(tuple)', lambda D, a: D.cls(tuple(a))),
    V('_from_list', lambda D, a: D.w(D.cls._from_list(list(a)))),
], drv='fromlist', has_p=False)
defop('degree', 'P', 'I', lambda D, args, obs: _is(obs, O.deg(args[0])), [
    V('a.degree()', lambda D, a: a.degree()),
    V('_degree', lambda D, a: D.cls._degree(a.value)),
], drv='degree', has_p=False)
defop('terms', 'P', 'S', chk_terms, [
    V('str(a)', lambda D, a: str(a)),
    V('repr(a)', lambda D, a: repr(a)),
    V('cls.to_terms(a)', lambda D, a: D.cls.to_terms(a)),
    V('_to_terms', lambda D, a: D.cls._to_terms(a.value)),
    V("f'{a}'", lambda D, a: f'{a}'),
], drv='terms', has_p=False)
defop('parse', 'S', 'P', lambda D, args, obs: _is(obs, O.parse_terms(D.p, args[0])), [
    V('cls(str)', lambda D, s: D.cls(s)),
    V('cls.from_terms', lambda D, s: D.cls.from_terms(s)),
    V('0+str', lambda D, s: D.cls(0) + s),
])
defop('eval', 'PI', 'I', chk_eval, [
    V('a(x)', lambda D, a, x: a(x)),
], drv='eval',
      # known deviation C23-binary-eval-even: only the bitmask model transcribes it, the list model is right
      list_ok=lambda D, args: not (D.bin and args[1] % 2 == 0))
defop('getitem', 'PN', 'I', lambda D, args, obs: _is(obs, O.coeff(*args)), [
    V('a[i]', lambda D, a, i: a[i]),
    V('a._getitem(i)', lambda D, a, i: a._getitem(i)),
])
defop('bool', 'P', 'B', lambda D, args, obs: _is(obs, bool(args[0])), [
    V('bool(a)', lambda D, a: bool(a)),
    V('a!=0', lambda D, a: truth(a != 0)),
    V('not a==[]', lambda D, a: _NOT(truth(a == []))),
    V('a[a.degree()]!=0', lambda D, a: a[a.degree()] != 0),
])


def oracle_reverse(p, a, d):
    """x^d * a_d(1/x) where a_d = a truncated / zero-padded to exactly d+1 coefficients (d None: d = deg a)"""
    if d is None:
        d = O.deg(a)
    t = (list(a) + [0] * (d + 1))[:d + 1]
    return O.norm(p, t[::-1])


def chk_reverse(D, args, obs):
    p, (a, d) = D.p, args
    exp = oracle_reverse(p, a, d)
    if obs != exp and D.bin and d is not None and d < O.deg(a) and obs == O.norm(p, O.norm(p, a[:d + 1])[::-1]):
        return FINDING_REVERSE, exp       # truncated part not padded back to d+1 coefficients before reversing
    return _is(obs, exp)


def oracle_deriv(p, a, m):
    """m-th formal derivative: sum_i i(i-1)...(i-m+1) a_i x^(i-m)"""
    out = []
    for i in range(m, len(a)):
        f = 1
        for j in range(m):
            f *= i - j
        out.append(f * a[i])
    return O.norm(p, out)


defop('reverse', 'PO', 'P', chk_reverse, [
    V('a.reverse(d)', lambda D, a, d: a.reverse(d)),
    V('_reverse', lambda D, a, d: D.w(D.cls._reverse(a.value, d=d))),
], drv='reverse')
defop('truncate', 'PN', 'P', lambda D, args, obs: _is(obs, O.norm(D.p, args[0][:args[1]])), [
    V('a.truncate(n)', lambda D, a, n: a.truncate(n)),
    V('_truncate', lambda D, a, n: D.w(D.cls._truncate(a.value, n))),
    V('a%x^n', lambda D, a, n: a % (D.cls(1) << n)),
], drv='truncate')
defop('deriv', 'PN', 'P', lambda D, args, obs: _is(obs, oracle_deriv(D.p, *args)), [
    V('a.deriv(m)', lambda D, a, m: a.deriv(m)),
    V('_deriv', lambda D, a, m: D.w(D.cls._deriv(a.value, m=m))),
])


def _law(name, fn):
    return V(name, lambda D, a, b, c: bool(fn(D, a, b, c)))


defop('law', 'PPP', 'B', chk_true, [
    _law('(a+b)+c==a+(b+c)', lambda D, a, b, c: (a + b) + c == a + (b + c)),
    _law('a+b==b+a', lambda D, a, b, c: a + b == b + a),
    _law('(a*b)*c==a*(b*c)', lambda D, a, b, c: (a * b) * c == a * (b * c)),
    _law('a*b==b*a', lambda D, a, b, c: a * b == b * a),
    _law('a*(b+c)==a*b+a*c', lambda D, a, b, c: a * (b + c) == a * b + a * c and (b + c) * a == b * a + c * a),
    _law('a+0==a, a*1==a, a*0==0', lambda D, a, b, c: a + 0 == a and 0 + a == a and a * 1 == a and 1 * a == a
         and a * 0 == D.cls(0) and not (a * 0)),
    _law('a+(-a)==0, a-b==a+(-b)', lambda D, a, b, c: not (a + (-a)) and a - b == a + (-b) and a - a == 0),
    _law('b==0 or a==(a//b)*b+a%b', lambda D, a, b, c: not b or (a == (a // b) * b + a % b
                                                               and (a % b).degree() < b.degree())),
    _law('b==0 or (a*b)//b==a, (a*b)%b==0', lambda D, a, b, c: not b or ((a * b) // b == a and not (a * b) % b)),
    _law('(a<<2)==a*x^2, (a<<2)>>2==a', lambda D, a, b, c: (a << 2) == a * 'x^2' and (a << 2) >> 2 == a),
    _law('a**3==a*a*a, a**2==a*a', lambda D, a, b, c: a ** 3 == a * a * a and a ** 2 == a * a and a ** 1 == a),
    _law('c==0 or (a*b)%c==((a%c)*(b%c))%c', lambda D, a, b, c: not c or (a * b) % c == ((a % c) * (b % c)) % c),
    _law('gcd(a,b)==gcd(b,a) divides a and b', lambda D, a, b, c: D.cls.gcd(a, b) == D.cls.gcd(b, a) and
         (not D.cls.gcd(a, b) or (not a % D.cls.gcd(a, b) and not b % D.cls.gcd(a, b)))),
    _law('s*a+t*b==d', lambda D, a, b, c: (lambda d, s, t: s * a + t * b == d)(*D.cls.gcdext(a, b))),
    _law('(a+b)(x)==a(x)+b(x) mod p', lambda D, a, b, c: all(
        (a + b)(x) == (a(x) + b(x)) % D.p and (a * b)(x) == (a(x) * b(x)) % D.p for x in (1, 3, D.p + 2, -1))),
])


# ---------------------------------------------------------------------------------------------
# evaluating one call on the real code
# ---------------------------------------------------------------------------------------------
class RealCodeTimeout(BaseException):
    """the real code used more than CALL_TIMEOUT seconds of CPU time in one call (treated as a wrong result, not as
    infrastructure).  CPU time of this process (ITIMER_VIRTUAL), not wall time: immune to a loaded machine."""


CALL_TIMEOUT = float(os.environ.get('VERIF_CALL_TIMEOUT', '10'))
TIMEOUT = 'raises:Timeout(no result within %gs of CPU time)' % CALL_TIMEOUT


def _on_alarm(signum, frame):
    raise RealCodeTimeout()


try:
    signal.signal(signal.SIGVTALRM, _on_alarm)
    _HAVE_ALARM = True
except (ValueError, AttributeError):      # not in the main thread / no SIGALRM
    _HAVE_ALARM = False


def real_call(D, op, fn, args):
    """one call of the real code -> canonical result; exceptions -> 'raises:<class>'; watchdog: a call that does not
    return within CALL_TIMEOUT seconds of CPU time yields 'raises:Timeout(...)' (legitimate calls take milliseconds)"""
    if _HAVE_ALARM:
        signal.setitimer(signal.ITIMER_VIRTUAL, CALL_TIMEOUT)
    try:
        return _real_call(D, op, fn, args)
    except RealCodeTimeout:
        return TIMEOUT
    finally:
        if _HAVE_ALARM:
            signal.setitimer(signal.ITIMER_VIRTUAL, 0)


def _real_call(D, op, fn, args):
    try:
        real = []
        for k, a in zip(op.kinds, args):
            if k == 'P' or (k == 'M' and a is not None):
                real.append(D.mk(a))
            elif k == 'L':
                real.append(list(a))
            else:
                real.append(a)
        return canon(D, fn(D, *real))
    except Exception as exc:  # the exception class is part of the interface
        return 'raises:' + type(exc).__name__


def enc_args(args):
    return [list(a) if isinstance(a, (list, tuple)) else a for a in args]


def dec_args(op, args):
    out = []
    for k, a in zip(op.kinds, args):
        if k in ('I', 'N') or (k == 'O' and a is not None):
            out.append(int(a))
        elif k == 'S':
            out.append(str(a))
        elif a is None:
            out.append(None)
        else:
            out.append([int(c) for c in a])
    return tuple(out)


class Job:
    """accumulator living in a worker process"""

    def __init__(self, js):
        self.js = js
        self.nodriver = bool(js.get('nodriver'))
        self.reqs, self.index, self.impl = [], {}, []
        self.viols, self.counts, self.keys = [], {}, []
        self.findings = {}
        self.samples = []
        self.dead = set()          # operations that timed out once in this worker: not called again

    def count(self, k, n=1):
        self.counts[k] = self.counts.get(k, 0) + n

    def key(self, k):
        self.keys.append(k)

    def add(self, line, out, func, dname):
        i = self.index.get(line)
        if i is None:
            i = self.index[line] = len(self.reqs)
            self.reqs.append(line)
        self.impl.append((i, out, func, dname))

    def violation(self, D, func, args, exp, obs, status, extra=None):
        rep = {'function': func, 'class': D.name, 'p': D.p, 'args': enc_args(args), 'expected': exp, 'observed': obs}
        if extra:
            rep.update(extra)
        msg = f'{D.label}: {func} on {_short(enc_args(args))}: expected {_short(exp)}, observed {_short(obs)}'
        if status != 'bad':
            rep['finding_key'] = status
            self.count('known-deviation:' + status)
            cur = self.findings.get(status)
            if cur is None or _size(rep) < _size(cur[1]):
                self.findings[status] = (msg, rep)
            return
        self.count('oracle-violations')
        self.viols.append((msg, rep))
        if len(self.viols) > 40:
            self.viols.sort(key=lambda v: _size(v[1]))
            del self.viols[20:]


def _short(x, n=160):
    s = json.dumps(common.json_safe(x))
    return s if len(s) <= n else s[:n] + '...'


def _size(rep):
    """for choosing the minimal instance: size of the arguments, public classes before the harness-made generic
    class at p = 2, then the prime"""
    return (len(json.dumps(common.json_safe(rep.get('args')))), rep.get('class') == '2l', int(rep.get('p', 0)))


def _request(D, op, dargs, binfmt):
    if op.req is not None:
        return op.req(D, dargs, binfmt)
    head = 'b.' + op.drv if binfmt else op.drv + (f' {D.p}' if op.has_p else '')
    return head + ''.join(' ' + fmt_arg(k, a, binfmt) for k, a in zip(op.kinds, dargs))


def emit(J, D, op, args, obs, func):
    """request line(s) for the Lean driver and the real result in the driver's answer format; for the binary
    class BOTH the bitmask model (`b.` ops) and the list model at p = 2 (bit i <-> coefficient i)"""
    dargs, dobs = op.remap(args, obs) if op.remap else (args, obs)
    if D.bin and op.bin_drv:
        J.add(_request(D, op, dargs, True), show(op.res, dobs, True), func, D.name)
    if op.list_ok is None or op.list_ok(D, args):
        J.add(_request(D, op, dargs, False), show(op.res, dobs, False), func, D.name)


def do_call(J, D, opname, vi, args):
    op = OPS[opname]
    label, fn, pred = op.variants[vi]
    if pred is not None and not pred(args):
        return None
    func = f'{opname}:{label}'
    if opname in J.dead:
        J.count('skipped-after-timeout:' + opname)
        return None
    obs = real_call(D, op, fn, args)
    if obs == TIMEOUT:
        J.dead.add(opname)
    if op.drv and not J.nodriver:
        emit(J, D, op, args, obs, func)
    status, exp = op.check(D, args, obs)
    J.count('op:' + opname)
    if status != 'ok':
        J.violation(D, func, args, exp, obs, status)
    elif len(J.samples) < 1 and opname in ('gcdext', 'divmod') and all(len(a) >= 2 for a in args):
        J.samples.append({'class': D.label, 'call': func, 'args': enc_args(args), 'observed': obs, 'oracle': exp})
    return obs


def do_op(J, D, opname, args, k, nvar):
    """run `nvar` entry points of the operation (a window rotating with k); nvar None = all"""
    nv = len(OPS[opname].variants)
    if nvar is None or nvar >= nv:
        for vi in range(nv):
            do_call(J, D, opname, vi, args)
    else:
        for j in range(nvar):
            do_call(J, D, opname, (k + j) % nv, args)


# ---------------------------------------------------------------------------------------------
# job kinds (worker side)
# ---------------------------------------------------------------------------------------------
PAIR_OPS = ['add', 'sub', 'mul', 'divmod', 'mod', 'floordiv', 'gcd', 'gcdext', 'invert']
CMP_OPS = ['lt', 'le', 'gt', 'ge']
EQ_OPS = ['eq', 'hasheq']
UNARY_OPS = ['neg', 'pos', 'sq', 'monic', 'monicinv', 'toint', 'degree', 'terms', 'bool']


def deg_bucket(a):
    d = O.deg(a)
    return 'zero' if d < 0 else 'const' if d == 0 else f'deg{d}' if d <= 3 else 'deg4-10' if d <= 10 else 'deg11-40'


def pair_ops(J, D, a, b, k, nvar, nops=None):
    """all pair operations (nops: only a window of nops of them, rotating with k)"""
    ops = PAIR_OPS if nops is None else [PAIR_OPS[(k + j) % len(PAIR_OPS)] for j in range(nops)]
    for oi, op in enumerate(ops):
        do_op(J, D, op, (a, b), k + oi, nvar)
    if nvar is None:
        for op in CMP_OPS + EQ_OPS:
            do_op(J, D, op, (a, b), k, None)
    else:
        do_op(J, D, CMP_OPS[k % 4], (a, b), k // 4, nvar)
        do_op(J, D, EQ_OPS[k % 2], (a, b), k // 2, nvar)
    if a == b:
        J.count(f'{D.name}:pairs:equal-operands')
    if b and a and not O.mod(D.p, a, b):
        J.count(f'{D.name}:pairs:b-divides-a')


def job_pairs(J, D, js):
    p = D.p
    spec = js['pairs']
    if spec[0] == 'grid':
        _, lo, hi, nb = spec
        pairs = ((ia, ib) for ia in range(lo, hi) for ib in range(nb))
    else:
        pairs = spec[1]
    cache = {}

    def poly(n):
        r = cache.get(n)
        if r is None:
            r = cache[n] = O.from_int(p, n)
        return r
    for ia, ib in pairs:
        a, b = poly(ia), poly(ib)
        pair_ops(J, D, a, b, ia * 7 + ib * 3 + (ia + ib) // 5, js.get('nvar'), js.get('nops'))
        J.key(('pair', D.name, ia, ib))
        J.count(f'{D.name}:pairs')
        J.count(f'{D.name}:pairs:a={deg_bucket(a)},b={deg_bucket(b)}')


def unary_ops(J, D, a, k, nvar, shifts, xs):
    for oi, op in enumerate(UNARY_OPS):
        do_op(J, D, op, (a,), k + oi, nvar)
    for n in shifts:
        do_op(J, D, 'lshift', (a, n), k + n, nvar)
        do_op(J, D, 'rshift', (a, n), k + n, nvar)
    for x in xs:
        do_op(J, D, 'eval', (a, x), k, nvar)
    for i in range(len(a) + 2):
        do_op(J, D, 'getitem', (a, i), k, nvar)
    for d in (None, -1, 0, 1, 2, 3, 5) if len(xs) > 1 else (None, (k % 9) - 1):
        do_op(J, D, 'reverse', (a, d), k, nvar)
    for n in range(0, 6) if len(xs) > 1 else (k % 7,):
        do_op(J, D, 'truncate', (a, n), k, nvar)
    for m in range(0, 4) if len(xs) > 1 else (k % 3,):
        do_op(J, D, 'deriv', (a, m), k, nvar)


def job_unary(J, D, js):
    p = D.p
    lo, hi = js['range']
    rng = random.Random(js['seed'])
    for ia in range(lo, hi):
        a = O.from_int(p, ia)
        unary_ops(J, D, a, ia, None, range(4), range(-2, p + 2))
        for _ in range(2):
            do_op(J, D, 'parse', (O.scrambled_terms(p, a, rng, binary=D.bin),), ia, None)
        J.key(('unary', D.name, ia))
        J.count(f'{D.name}:unary:{deg_bucket(a)}')
    if js.get('extras'):
        top = p ** 4
        for n in list(range(-top - 3, top + 4)):
            do_op(J, D, 'fromint', (n,), n, None)
            J.key(('fromint', D.name, n))
        J.count(f'{D.name}:fromint', 2 * top + 7)
        import itertools
        for ln in range(0, 5):
            for t in itertools.product(range(p), repeat=ln):
                do_op(J, D, 'fromlist', (list(t),), ln, None)
                J.key(('fromlist', D.name, t))
                J.count(f'{D.name}:fromlist')


def small_moduli(p):
    irr2, irr3 = O.find_irreducible(p, 2), O.find_irreducible(p, 3)
    ms = [None, [], [1], [p - 1], [0, 1], [1, 1], [0, 0, 1], irr2, O.scal(p, p - 1, irr2),
          O.mul(p, [0, 1], irr2), O.mul(p, [1, 1], [p - 1, 1]), irr3, [1, 0, 0, 0, 1]]
    out = []
    for m in ms:
        if m not in out:
            out.append(m)
    return out


def job_powmod(J, D, js):
    p = D.p
    mods = small_moduli(p)
    spec = js['polys']
    ints = range(spec[1], spec[2]) if spec[0] == 'range' else spec[1]
    for ia in ints:
        a = O.from_int(p, ia)
        for n in range(-3, 7):
            for mi, m in enumerate(mods):
                do_op(J, D, 'powmod', (a, n, m), ia + n + mi, js.get('nvar'))
                J.count(f'{D.name}:powmod:n={"neg" if n < 0 else n if n < 2 else "2..6"},m={deg_bucket(m) if m is not None else "None"}')
        J.key(('powmod', D.name, ia))


def job_laws(J, D, js):
    p = D.p
    spec = js['triples']
    if spec[0] == 'grid':
        _, lo, hi, n = spec
        triples = ((i, j, k) for i in range(lo, hi) for j in range(n) for k in range(n))
    else:
        triples = spec[1]
    for i, j, k in triples:
        a, b, c = O.from_int(p, i), O.from_int(p, j), O.from_int(p, k)
        for vi in range(len(OPS['law'].variants)):
            do_call(J, D, 'law', vi, (a, b, c))
        J.key(('law', D.name, i, j, k))
        J.count(f'{D.name}:law-triples')


def rand_poly(rng, p, d):
    """random polynomial of exact degree d (-1: zero), sometimes sparse or with small coefficients"""
    if d < 0:
        return []
    style = rng.random()
    if style < 0.15:
        c = [rng.randrange(p) if rng.random() < 0.3 else 0 for _ in range(d)]
    elif style < 0.3:
        c = [rng.choice((0, 1, 2, p - 1, p - 2)) % p for _ in range(d)]
    else:
        c = [rng.randrange(p) for _ in range(d)]
    lead = 1 if rng.random() < 0.3 else rng.randrange(1, p)
    return c + [lead]


def rand_degree(rng, maxdeg):
    r = rng.random()
    if r < 0.05:
        return -1
    if r < 0.15:
        return 0
    if r < 0.55:
        return rng.randrange(1, min(maxdeg, 8) + 1)
    return rng.randrange(1, maxdeg + 1)


def rand_pair(rng, p, maxdeg):
    shape = rng.choice(['generic'] * 5 + ['equal', 'b|a', 'b|a', 'common-factor', 'common-factor', 'a<b', 'unit-multiple',
                                         'monic-b', 'const-b', 'zero-b', 'zero-a'])
    a = rand_poly(rng, p, rand_degree(rng, maxdeg))
    b = rand_poly(rng, p, rand_degree(rng, maxdeg))
    if shape == 'equal':
        b = list(a)
    elif shape == 'b|a':
        b = rand_poly(rng, p, rng.randrange(0, maxdeg // 2 + 1))
        a = O.mul(p, b, rand_poly(rng, p, rng.randrange(0, maxdeg // 2 + 1)))
    elif shape == 'common-factor':
        g = rand_poly(rng, p, rng.randrange(1, maxdeg // 3 + 2))
        a = O.mul(p, g, rand_poly(rng, p, rng.randrange(0, maxdeg // 2)))
        b = O.mul(p, g, rand_poly(rng, p, rng.randrange(0, maxdeg // 2)))
    elif shape == 'a<b':
        if len(a) > len(b):
            a, b = b, a
    elif shape == 'unit-multiple':
        b = O.scal(p, rng.randrange(1, p), a)
    elif shape == 'monic-b':
        b = O.monic(p, b) if b else [1]
    elif shape == 'const-b':
        b = [rng.randrange(1, p)]
    elif shape == 'zero-b':
        b = []
    elif shape == 'zero-a':
        a = []
    return shape, a, b


def job_random(J, D, js):
    """random operands of degree up to maxdeg: all pair operations, unary operations, powmod, conversions"""
    p, maxdeg = D.p, js['maxdeg']
    rng = random.Random(js['seed'])
    light = js.get('light')          # big prime: the Lean driver is slow on long numbers, rotate the operations
    for k in range(js['count']):
        shape, a, b = rand_pair(rng, p, maxdeg)
        c = rand_poly(rng, p, rand_degree(rng, maxdeg))
        J.count(f'{D.name}:random:{shape}')
        J.count(f'{D.name}:random:a={deg_bucket(a)},b={deg_bucket(b)}')
        J.key(('random', D.name, tuple(a), tuple(b)))
        kk = rng.randrange(1 << 30)
        if light:
            for op in rng.sample(PAIR_OPS, 4) + [rng.choice(CMP_OPS), rng.choice(EQ_OPS)]:
                do_op(J, D, op, (a, b), kk, 1)
            for op in rng.sample(UNARY_OPS, 3):
                do_op(J, D, op, (a,), kk, 1)
        else:
            pair_ops(J, D, a, b, kk, 1)
            unary_ops(J, D, a, kk, 1, (rng.randrange(0, 6),), (rng.choice((0, 1, -1, p, p + 1, rng.randrange(-p, 2 * p))),))
        # powmod
        r = rng.random()
        big = 2 ** 14 if light else 2 ** 70
        n = rng.randrange(-4, 13) if r < 0.8 else rng.randrange(-big, big) if r < 0.9 else rng.choice((-1, 0, 1, 2))
        m = b if rng.random() < 0.85 else None
        if m is None or abs(n) > 12:
            aa = a if len(a) <= 9 or m is not None else a[:8] + [1]
            if m is None:
                n = n % 9 - 2
        else:
            aa = a
        do_op(J, D, 'powmod', (aa, n, m), kk, 1)
        J.count(f'{D.name}:powmod:n={"neg" if n < 0 else n if n < 2 else "2..12" if n <= 12 else "big"}')
        # conversions, laws
        v = rng.randrange(-p ** rng.randrange(1, maxdeg + 2), p ** rng.randrange(1, maxdeg + 2))
        do_op(J, D, 'fromint', (v,), kk, 1)
        do_op(J, D, 'parse', (O.scrambled_terms(p, a, rng, binary=D.bin),), kk, 1)
        tl = list(a) + [0] * rng.randrange(0, 3)
        do_op(J, D, 'fromlist', (tl,), kk, 1)
        nl = len(OPS['law'].variants)
        for vi in ([rng.randrange(nl)] if light else rng.sample(range(nl), 4)):
            do_call(J, D, 'law', vi, (a, b, c))


def job_selfcheck(J, D, js):
    bad = O.selfcheck()
    if bad:
        raise common.InfraError(f'the independent oracle is inconsistent with itself: {bad[:3]}')
    J.count('oracle-selfcheck-ok')


JOB_KINDS = {'pairs': job_pairs, 'unary': job_unary, 'powmod': job_powmod, 'laws': job_laws, 'random': job_random,
             'selfcheck': job_selfcheck}


# ---------------------------------------------------------------------------------------------
# job runner (shared with props/c24.py)
# ---------------------------------------------------------------------------------------------
class _Inputs:
    """lazy `inputs` sequence for Ctx.compare"""

    def __init__(self, J):
        self.J = J

    def __len__(self):
        return len(self.J.impl)

    def __getitem__(self, k):
        i, _out, func, dname = self.J.impl[k]
        return {'request': self.J.reqs[i], 'real_call': func, 'class': dname}



# ---------------------------------------------------------------------------------------------
# Lean driver: natively compiled copy of lean/Drv/GFpX.lean (same source, `lean -c` + `leanc`), cached in
# .work/ under a hash of the driver and model sources; falls back to the interpreter (common.LeanDriver).
# A seeded sample of every run is piped through BOTH and must agree (guards the native compilation).
# ---------------------------------------------------------------------------------------------
_DRV_SOURCES = ['Drv/GFpX.lean', 'MpycV/Model/GFpX.lean', 'MpycV/Model/BinPoly.lean', 'MpycV/Model/Util.lean']
_NATIVE = {'path': None, 'tried': False}


def native_driver_path(build=True):
    """path of the native driver binary for the CURRENT sources (built on demand), or None"""
    import hashlib
    import shutil
    if os.environ.get('VERIF_NO_NATIVE_DRIVER') == '1':
        return None
    try:
        h = hashlib.sha256()
        for rel in _DRV_SOURCES:
            h.update(open(os.path.join(common.LEAN_DIR, rel), 'rb').read())
        exe = os.path.join(common.WORK_DIR, 'drv_GFpX_' + h.hexdigest()[:16])
        if os.path.exists(exe):
            return exe
        if not build or shutil.which('leanc') is None:
            return None
        os.makedirs(common.WORK_DIR, exist_ok=True)
        ok, _log = common.lean_build(['MpycV.Model.BinPoly', 'MpycV.Model.Util'], timeout=1800)
        if not ok:
            return None
        tmpc = exe + f'.{os.getpid()}.c'
        tmpx = exe + f'.{os.getpid()}.tmp'
        rc, _ = common.sh(['lake', 'env', 'lean', '-c', tmpc, 'Drv/GFpX.lean'], cwd=common.LEAN_DIR, timeout=1800)
        irs = [os.path.join(common.LEAN_DIR, '.lake', 'build', 'ir', 'MpycV', 'Model', m + '.c')
               for m in ('GFpX', 'BinPoly', 'Util')]
        if rc != 0 or not all(os.path.exists(f) for f in irs):
            return None
        rc, _ = common.sh(['leanc', '-O2', '-o', tmpx, tmpc] + irs, cwd=common.LEAN_DIR, timeout=1800)
        try:
            os.remove(tmpc)
        except OSError:
            pass
        if rc != 0 or not os.path.exists(tmpx):
            return None
        os.replace(tmpx, exe)
        return exe
    except (OSError, common.InfraError):
        return None


def drive(reqs, timeout=3600):
    """request lines -> answer lines (list) or common.DriverFailure; native driver when available"""
    if not reqs:
        return []
    if not _NATIVE['tried']:
        _NATIVE['tried'] = True
        _NATIVE['path'] = native_driver_path(build=False)
    exe = _NATIVE['path']
    if exe is None:
        return common.LeanDriver('GFpX').run(reqs, timeout=timeout)
    rc, out = common.sh([exe], input='\n'.join(reqs) + '\n', timeout=timeout)
    outl = out.split('\n')
    if outl and outl[-1] == '':
        outl.pop()
    if rc != 0 or len(outl) != len(reqs):
        return common.LeanDriver('GFpX').run(reqs, timeout=timeout)      # never trust a failing native run
    return outl


def prepare_driver(ctx):
    """build the native driver once (parent process) and cross-check it against the interpreter"""
    exe = native_driver_path(build=True)
    _NATIVE['tried'], _NATIVE['path'] = True, exe
    if exe is None:
        ctx.note('Lean driver: interpreted (lake env lean --run Drv/GFpX.lean)')
        return
    probe = ['add 3 1,2 2,2', 'mul 7 1,2,3 4,5,6', 'divmod 5 1,2,3,4 2,1', 'gcdext 7 1,0,0,1 6,1', 'invert 3 0,1 1,0,1',
             'powmod 3 0,1 -2 1,0,1', 'powmod 3 0,1 5 N', 'irr 3 1,0,1', 'nextirr 3 100 -', 'findirr 5 3 1000',
             'xgf 3 1,0,1', 'b.mul 19 7', 'b.divmod 100 7', 'b.gcdext 100 6', 'b.irr 283', 'b.findirr 8 1000',
             'b.eval 3 0', 'terms 1,0,2,1', 'fromint 3 -7', 'lt 1,2 2,1', 'eval 7 1,2,3 -5', 'divmod 3 1 -', 'foo']
    r = ctx.subrng('native-probe')
    for _ in range(300):
        p = r.choice([2, 3, 5, 7, 11, 101])
        a = [r.randrange(p) for _ in range(r.randrange(0, 6))] + [r.randrange(1, p)]
        b = [r.randrange(p) for _ in range(r.randrange(0, 4))] + [r.randrange(1, p)]
        op = r.choice(['add', 'sub', 'mul', 'divmod', 'mod', 'gcd', 'gcdext', 'invert'])
        probe.append(f'{op} {p} {fmtL(a)} {fmtL(b)}')
    nat = drive(probe)
    ref = common.LeanDriver('GFpX').run(probe)
    if isinstance(ref, common.DriverFailure) or list(nat) != list(ref):
        _NATIVE['path'] = None          # disagreement: use the interpreter for everything
        ctx.note('Lean driver: native build disagrees with the interpreter on the probe -> interpreter used')
        return
    ctx.note(f'Lean driver: native build of Drv/GFpX.lean ({os.path.basename(exe)}), probe of {len(probe)} lines '
             f'identical to the interpreter')


def _worker(batch):
    """Evaluate a batch of jobs (real code + oracle), then pipe ALL request lines of the batch through ONE Lean
    driver process (its start-up is the expensive part) and diff."""
    import time
    t0 = time.time()
    js0 = batch[0]
    mod = sys.modules.get(js0['mod']) or __import__(js0['mod'], fromlist=['x'])
    J = Job(js0)
    times = {}
    for js in batch:
        t1 = time.time()
        J.nodriver = bool(js.get('nodriver'))
        n0 = len(J.reqs)
        D = dom(js['dom']) if js.get('dom') else None
        mod.JOB_KINDS[js['kind']](J, D, js)
        times[js['what']] = (round(time.time() - t1, 2), len(J.reqs) - n0)
    t_py = time.time() - t0
    what = 'batch:' + ','.join(sorted({f"{js['kind']}[{js.get('dom') or ''}]" for js in batch}))
    sub = common.Ctx(js0['pid'], js0['tier'], js0['seed0'])
    if J.reqs:
        model = drive(J.reqs)
        if isinstance(model, common.DriverFailure):
            sub.compare(what, [], model)
        else:
            sub.compare(what, [t[1] for t in J.impl], [model[t[0]] for t in J.impl], _Inputs(J))
            if J.impl and not J.samples:
                t = J.impl[len(J.impl) // 2]
                J.samples.append({'request': J.reqs[t[0]], 'real_call': t[2], 'real': t[1], 'model': model[t[0]]})
    J.viols.sort(key=lambda v: _size(v[1]))
    return {'what': what, 'compared': sub.corr_compared, 'mismatches': sub.mismatches[:3],
            'n_mismatch': len(sub.mismatches), 'viols': J.viols[:10], 'findings': J.findings, 'counts': J.counts,
            'keys': J.keys, 'samples': J.samples[:1], 'lines': len(J.reqs), 'times': times,
            't_python': round(t_py, 2), 't_lean': round(time.time() - t0 - t_py, 2)}


def run_jobs(ctx, jobs, modname, max_violations=3):
    """Run the jobs in worker processes and merge the results into ctx (deterministic order).

    Jobs are packed by their `weight` (estimated cost) into one batch per worker process."""
    for k, js in enumerate(jobs):
        js.update(mod=modname, pid=ctx.property_id, tier=ctx.tier, seed0=ctx.seed)
        js.setdefault('what', f"{js['kind']}[{js.get('dom', '')}]#{k}")
    nproc = max(1, min(int(os.environ.get('VERIF_PROCS', '4')), (os.cpu_count() or 2), len(jobs)))
    batches = [[] for _ in range(nproc)]
    load = [0.0] * nproc
    for k in sorted(range(len(jobs)), key=lambda k: (-jobs[k].get('weight', 1), k)):   # longest first, least loaded
        i = load.index(min(load))
        batches[i].append(jobs[k])
        load[i] += jobs[k].get('weight', 1)
    batches = [b for b in batches if b]
    if len(batches) == 1:
        res = [_worker(batches[0])]
    else:
        mp = multiprocessing.get_context('fork')
        with mp.Pool(len(batches)) as pool:
            res = pool.map(_worker, batches, chunksize=1)
    if os.environ.get('VERIF_TIMING'):
        for r in res:
            print('TIMING', r['what'][:60], 'python', r['t_python'], 'lean', r['t_lean'], 'lines', r['lines'],
                  {k: v for k, v in r['times'].items()}, file=sys.stderr)
    ordinary, findings = [], {}
    for r in res:
        ctx.corr_compared += r['compared']
        if len(ctx.mismatches) < 6:
            ctx.mismatches.extend(r['mismatches'])
        elif r['n_mismatch']:
            ctx.count('correspondence-mismatches-not-listed', r['n_mismatch'])
        for name, n in r['counts'].items():
            ctx.count(name, n)
        for key in r['keys']:
            ctx.case(key)
        for s in r['samples']:
            ctx.sample(s)
        ordinary.extend(r['viols'])
        for key, (msg, rep) in r['findings'].items():
            if key not in findings or _size(rep) < _size(findings[key][1]):
                findings[key] = (msg, rep)
        ctx.count('driver-lines', r['lines'])
    ordinary.sort(key=lambda v: (_size(v[1]), json.dumps(common.json_safe(v[1]), sort_keys=True)))
    ordinary = [v for k, v in enumerate(ordinary) if k == 0 or v[1] != ordinary[k - 1][1]]      # drop duplicates
    for msg, rep in ordinary[:max_violations]:      # genuine new violations first: check.py writes the first one
        ctx.violation(msg, rep)
    if len(ordinary) > max_violations:
        ctx.count('oracle-violations-not-listed', len(ordinary) - max_violations)
    for key in sorted(findings):                    # one (minimal) instance per known deviation
        ctx.violation(*findings[key])
    return res


# ---------------------------------------------------------------------------------------------
# run / search / replay
# ---------------------------------------------------------------------------------------------
def _chunks(lo, hi, n):
    step = max(1, -(-(hi - lo) // n))
    return [(x, min(x + step, hi)) for x in range(lo, hi, step)]


def _sample_pairs(rng, p, count):
    """pairs of polynomials of degree <= 3 at least one of which has degree 3"""
    top, lo = p ** 4, p ** 3
    out = []
    while len(out) < count:
        ia, ib = rng.randrange(top), rng.randrange(top)
        if max(ia, ib) >= lo:
            out.append((ia, ib))
    return out


def build_jobs(ctx, nodriver=False):
    """The job list of one run; `weight` = rough cost estimate in seconds (used to balance the worker batches)."""
    T = ctx.thorough
    jobs = [{'kind': 'selfcheck', 'weight': 1}]

    def add(kind, dname, weight, **kw):
        jobs.append(dict(kind=kind, dom=dname, weight=weight, nodriver=nodriver, **kw))

    def add_pairs(dname, spec, npairs, nvar, nops=None):
        per_pair = (60 if nvar is None else 11 * nvar if nops is None else (nops + 2) * nvar) * 1.7e-4
        add('pairs', dname, npairs * per_pair, pairs=spec, nvar=nvar, nops=nops)

    def add_unary(dname, lo, hi, extras, p):
        add('unary', dname, (hi - lo) * 0.004 + (p ** 4 * 0.002 if extras else 0), range=(lo, hi), extras=extras,
            seed=ctx.subrng('unary', dname, lo).getrandbits(64))

    def add_powmod(dname, spec, n, nvar):
        add('powmod', dname, n * 130 * (4 if nvar is None else nvar) * 1.5e-4, polys=spec, nvar=nvar)

    def add_laws(dname, spec, n):
        add('laws', dname, n * 5e-4, triples=spec)

    # ---- (i) exhaustive small primes ------------------------------------------------------------
    for dname in ('2b', '2l'):
        add_pairs(dname, ('grid', 0, 16, 16), 256, None)
        add_unary(dname, 0, 16, True, 2)
        add_powmod(dname, ('range', 0, 16), 16, None)
        add_laws(dname, ('grid', 0, 16, 16), 4096)
    # p = 3: all pairs of degree <= 3; all entry points on degree <= 2 (thorough: everywhere)
    if T:
        for lo, hi in _chunks(0, 81, 6):
            add_pairs('3', ('grid', lo, hi, 81), (hi - lo) * 81, None)
    else:
        s3 = _sample_pairs(ctx.subrng('pairs3', 3), 3, 1500)         # pairs involving degree 3
        for lo, hi in _chunks(0, 1500, 3):
            add_pairs('3', ('list', s3[lo:hi]), hi - lo, 1)
    if not T:
        add_pairs('3', ('grid', 0, 9, 9), 81, None)          # all entry points on degree <= 1
        add_pairs('3', ('grid', 0, 27, 27), 729, 3)          # three entry points (rotating) on degree <= 2
    add_unary('3', 0, 81, True, 3)
    for lo, hi in _chunks(0, 81, 2):
        add_powmod('3', ('range', lo, hi), hi - lo, None if T else 2)
    if T:
        for lo, hi in _chunks(0, 27, 4):
            add_laws('3', ('grid', lo, hi, 27), (hi - lo) * 729)
    else:
        add_laws('3', ('grid', 0, 9, 9), 729)
        r3 = ctx.subrng('laws', 3)
        tr3 = [(r3.randrange(27), r3.randrange(27), r3.randrange(27)) for _ in range(3000)]
        for lo, hi in _chunks(0, 3000, 3):
            add_laws('3', ('list', tr3[lo:hi]), hi - lo)
    # p = 5, 7.  thorough: all pairs of degree <= 2 (p = 5: <= 3) + a big sample of pairs involving degree 3.
    # quick: all pairs of degree <= 1, a seeded sample of the pairs of degree <= 2 and of pairs involving degree 3
    # (the full sweep of the exhaustive domain is left to the thorough tier to keep quick within ~2 minutes on a
    # loaded machine).
    for p, D in ((5, 3 if T else 2), (7, 2)):
        if T:
            n = p ** (D + 1)
            for lo, hi in _chunks(0, n, max(1, n * n // 8000)):
                add_pairs(str(p), ('grid', lo, hi, n), (hi - lo) * n, 1, None)
        else:
            n1 = p ** 2
            add_pairs(str(p), ('grid', 0, n1, n1), n1 * n1, 1, None)
            r2 = ctx.subrng('pairs2', p)
            n2 = p ** 3
            cnt2 = 1500
            sample2 = [(r2.randrange(n2), r2.randrange(n2)) for _ in range(cnt2)]
            for lo, hi in _chunks(0, cnt2, 3):
                add_pairs(str(p), ('list', sample2[lo:hi]), hi - lo, 1, None)
        cnt = ctx.scale(1000, 250000 if p == 7 else 60000)
        sample = _sample_pairs(ctx.subrng('pairs3', p), p, cnt)
        for lo, hi in _chunks(0, cnt, max(1, cnt // 6000)):
            add_pairs(str(p), ('list', sample[lo:hi]), hi - lo, 1)
        if T:
            for lo, hi in _chunks(0, p ** 4, 2 if p == 5 else 6):
                add_unary(str(p), lo, hi, lo == 0, p)
        else:
            top = p ** 3 if p == 5 else p ** 2 * 3          # quick: degree <= 2 (p = 5) / the first 147 (p = 7)
            for lo, hi in _chunks(0, top, 2):
                add_unary(str(p), lo, hi, lo == 0, p)
        if T:
            for lo, hi in _chunks(0, p ** 4, 6 if p == 5 else 24):
                add_powmod(str(p), ('range', lo, hi), hi - lo, 1)
        else:
            r = ctx.subrng('powmod', p)
            top = p ** 3 if p == 5 else p ** 2            # all of degree <= 2 (p = 5) / <= 1 (p = 7) + a sample
            extra = sorted(r.sample(range(top, p ** 4), 200))
            for lo, hi in _chunks(0, top, 2):
                add_powmod(str(p), ('range', lo, hi), hi - lo, 1)
            add_powmod(str(p), ('list', extra), len(extra), 1)
        r = ctx.subrng('laws', p)
        cnt = ctx.scale(2000, 30000)
        tr = [(r.randrange(p ** 4), r.randrange(p ** 4), r.randrange(p ** 4)) for _ in range(cnt)]
        for lo, hi in _chunks(0, cnt, max(1, cnt // 3000)):
            add_laws(str(p), ('list', tr[lo:hi]), hi - lo)
    # ---- (ii) random larger primes --------------------------------------------------------------
    for p, cnt, parts, light in ((11, ctx.scale(200, 5000), ctx.scale(4, 8), False),
                                 (101, ctx.scale(200, 5000), ctx.scale(4, 8), False),
                                 (P61, ctx.scale(80, 2000), ctx.scale(8, 16), True)):
        for part in range(parts):
            c = -(-cnt // parts)
            add('random', str(p), c * (0.25 if light else 0.02), count=c, maxdeg=40, light=light,
                seed=ctx.subrng('random', p, part).getrandbits(64))
    return jobs



# ---------------------------------------------------------------------------------------------
# source translator tie (harness/py2lean_gfpx.py): regenerate lean/MpycV/Generated/GfpxSrc.lean from the CURRENT
# gfpx.py; PropsGen/C23Src.lean (and C24Src.lean) prove the generated definitions equal to the model
# ---------------------------------------------------------------------------------------------
import py2lean_gfpx  # noqa: E402

GEN_FILE = os.path.join(common.LEAN_DIR, 'MpycV', 'Generated', 'GfpxSrc.lean')
MIRROR_FILE = os.path.join(common.LEAN_DIR, 'MpycV', 'Lemmas', 'GfpxSrcMirror.lean')
GFPX_SRC = os.path.join(repo_path.REPO, 'mpyc', 'gfpx.py')
# callers (in the translated source) of each translated method: who is affected when it changes
SRC_DEPENDENTS = {
    'degree': ['is_irreducible'], 'to_int': ['next_irreducible'], 'from_int': ['powmod', 'powmod_N', 'next_irreducible'],
    'monic': ['gcd'], 'monic_lc': ['gcdext'], 'sub': ['gcdext', 'invert', 'is_irreducible'],
    'sq': ['mul', 'powmod', 'powmod_N'], 'mul': ['gcdext', 'invert', 'powmod', 'powmod_N'],
    'mod_N': ['powmod_N'], 'mod': ['gcd', 'powmod'], 'divmod': ['gcdext', 'invert'], 'gcd': ['is_irreducible'],
    'invert': ['powmod'], 'powmod': ['is_irreducible'], 'is_irreducible': ['next_irreducible'],
    # BinaryPolynomial
    'b_degree': ['b_is_irreducible'], 'b_sq': ['b_mul'], 'b_mul': ['b_gcdext', 'b_invert', 'b_is_irreducible'],
    'b_mod': ['b_gcd', 'b_is_irreducible'], 'b_divmod': ['b_gcdext', 'b_invert'], 'b_gcd': ['b_is_irreducible'],
    'b_is_irreducible': ['b_next_irreducible'],
}
# operations of the job machinery that exercise a translated method (for the focused search)
SRC_OPS = {
    'degree': ['degree'], 'to_int': ['toint'], 'from_int': ['pos'], 'monic': ['monic'], 'monic_lc': ['monicinv'],
    'add': ['add'], 'sub': ['sub'], 'sq': ['sq'], 'mul': ['mul'], 'mod': ['mod'], 'mod_N': ['powmod'],
    'divmod': ['divmod', 'floordiv'], 'gcd': ['gcd'], 'gcdext': ['gcdext'], 'invert': ['invert'],
    'powmod': ['powmod'], 'powmod_N': ['powmod'], 'is_irreducible': ['irr', 'gf'],
    'next_irreducible': ['nextirr', 'findirr'],
    'b_degree': ['degree'], 'b_sq': ['sq'], 'b_mul': ['mul'], 'b_mod': ['mod'], 'b_divmod': ['divmod', 'floordiv'],
    'b_gcd': ['gcd'], 'b_gcdext': ['gcdext'], 'b_invert': ['invert'], 'b_is_irreducible': ['irr', 'gf'],
    'b_next_irreducible': ['nextirr', 'findirr'],
}


def _translate_current():
    try:
        text = open(GFPX_SRC).read()
    except OSError as exc:
        return py2lean_gfpx.translate_source('')[0], {'*': f'cannot read {GFPX_SRC}: {exc}'}
    return py2lean_gfpx.translate_source(text)


def generate(ctx):
    """source translator: current mpyc/gfpx.py -> lean/MpycV/Generated/GfpxSrc.lean (deterministic, atomic)"""
    text, problems = _translate_current()
    os.makedirs(os.path.dirname(GEN_FILE), exist_ok=True)
    old = open(GEN_FILE).read() if os.path.exists(GEN_FILE) else None
    if old != text:
        tmp = GEN_FILE + f'.tmp{os.getpid()}'
        with open(tmp, 'w') as f:
            f.write(text)
        os.replace(tmp, GEN_FILE)
    for fn_, msg in problems.items():
        ctx.note(f'py2lean_gfpx: {fn_} not translated: {msg}')
    changed = changed_functions(text)
    if changed:
        ctx.note('py2lean_gfpx: translated text differs from the pinned mirror for: ' + ', '.join(changed))
    ctx.count('py2lean_gfpx/functions translated', len(py2lean_gfpx.ORDER) - len([k for k in problems if k != '*']))


def _blocks(text):
    out, cur = {}, None
    for ln in text.split('\n'):
        if ln.startswith('-- ≙ gfpx.py:'):
            cur = None           # the line number may move without any change of the function
            continue
        if ln.startswith('/-- NOT TRANSLATED'):
            cur = None
        if ln.startswith('def ') and ' ' in ln[4:]:
            cur = ln[4:].split()[0].split('.')[0]
            out.setdefault(cur, [])
        if ln.startswith('end MpycV.'):
            cur = None
        if cur is not None:
            out[cur].append(ln)
    return {k: '\n'.join(v).strip() for k, v in out.items()}


def changed_functions(text=None):
    """translated methods whose Lean text differs from the mirror the bridge lemmas are proved for"""
    if text is None:
        text = _translate_current()[0]
    try:
        mirror = _blocks(open(MIRROR_FILE).read())
    except OSError:
        return list(py2lean_gfpx.ORDER)
    cur = _blocks(text)
    return [f for f in py2lean_gfpx.ORDER if cur.get(f) != mirror.get(f)]


def affected_ops():
    """(changed methods, operations of the job table that reach them directly or through callers)"""
    changed = changed_functions()
    todo, seen = list(changed), set()
    while todo:
        f = todo.pop()
        if f not in seen:
            seen.add(f)
            todo.extend(SRC_DEPENDENTS.get(f, []))
    ops = sorted({o for f in seen for o in SRC_OPS.get(f, [])})
    return changed, sorted(seen), ops


def list_operands(ctx):
    """polynomials are values: a LIST handed to the constructor or used as operand is neither changed nor kept (repo fix:
    gfpx stripped trailing zeros in place and kept the caller's list as internal value)"""
    from mpyc import gfpx
    rng = ctx.subrng('list-operands')
    for p in (2, 3, 5, 101):
        P = gfpx.GFpX(p)
        for _ in range(ctx.scale(40, 400)):
            n = rng.randrange(0, 7)
            c = [rng.randrange(p) for _ in range(n)] + [0] * rng.randrange(0, 3)
            keep = list(c)
            f = P(c)
            fs = str(f)
            ops = [lambda: P('x+1') + c, lambda: c + P('x'), lambda: P('x+1') * c, lambda: P('x') == c, lambda: P('x') - c,
                   lambda: P.gcd(P('x'), c), lambda: divmod(P('x^3+1'), c) if any(c) else None, lambda: P('x') < c]
            rng.choice(ops)()
            ctx.case(('list-operand', p, tuple(keep)), nontrivial=n > 0)
            ctx.count('list-operands')
            rep = {'kind': 'list-operand', 'p': p, 'list': keep}
            if c != keep:
                ctx.violation(f'GFpX({p}): a list used as constructor argument / operand was changed from {keep} to {c}', rep)
                return
            if c:
                c[-1] = (c[-1] + 1) % p
                c.reverse()
            if str(f) != fs or f != P(keep):
                ctx.violation(f'GFpX({p})({keep}) changed from {fs} to {f} when the caller modified its list afterwards', rep)
                return


def run(ctx):
    prepare_driver(ctx)
    jobs = build_jobs(ctx)
    run_jobs(ctx, jobs, __name__)
    list_operands(ctx)
    ctx.note(f'{len(jobs)} jobs; classes: GFpX(p) for p in 2,3,5,7,11,101,2^61-1 and the generic list code at p=2')


def search(ctx):
    """Oracle-only search on the real code (no Lean driver), called when the proof or the correspondence broke.  When the
    break comes from the source tie, the methods whose translation changed (and their callers) are reported and swept
    first: the whole quick domain with every entry point, then a bigger random search on many primes."""
    changed, reach, ops = affected_ops()
    if changed:
        ctx.note('source tie: changed methods ' + ', '.join(changed) + '; reached: ' + ', '.join(reach)
                 + '; operations swept first: ' + ', '.join(ops))
    run_jobs(ctx, build_jobs(ctx, nodriver=True), __name__)
    if ctx.violations:
        return
    jobs = []
    primes = ['2b', '2l', '3', '5', '7', '11', '13', '101', '257', '65537', str(P61), str(2 ** 127 - 1)]
    for dname in primes:
        for part in range(2):
            jobs.append(dict(kind='random', dom=dname, weight=1, nodriver=True, count=ctx.scale(1500, 10000),
                             maxdeg=24 if len(dname) < 4 else 40, light=False,
                             seed=ctx.subrng('search', dname, part).getrandbits(64)))
    run_jobs(ctx, jobs, __name__)


def replay(ctx, data):
    """Re-execute one oracle replay {'function', 'class'|'p', 'args', ...} on the real code."""
    if data.get('kind') == 'list-operand':
        c2 = common.Ctx('C23', 'quick', 0)
        list_operands(c2)
        return not c2.violations, (c2.violations[0][0] if c2.violations else 'ok: list operands untouched, polynomials independent')
    func = data.get('function')
    if not isinstance(func, str) or func.split(':')[0] not in OPS:
        return False, f'not an executable replay of {__name__} (kind={data.get("kind")!r}); nothing re-executed'
    opname, _, label = func.partition(':')
    op = OPS[opname]
    vi = next((i for i, v in enumerate(op.variants) if v[0] == label), None)
    if vi is None:
        return False, f'unknown entry point {func!r}'
    D = dom(data.get('class') or data['p'])
    args = dec_args(op, data['args'])
    obs = real_call(D, op, op.variants[vi][1], args)
    status, exp = op.check(D, args, obs)
    msg = f'{D.label}: {func} on {_short(enc_args(args), 300)}: expected {_short(exp, 300)}, observed {_short(obs, 300)}'
    if status == 'ok':
        return True, 'behaves as expected now: ' + msg
    return False, ('known deviation ' + status + ': ' if status != 'bad' else '') + msg
