"""C03 — fixed-point integrality flags are never wrong.

Model: lean/MpycV/Model/Fxp.lean (every operation returns value + flag; the flag-dependent shortcut
`>>= f` is the literal field operation).  Theorems: MpycV.C03 (Inv preserved by every constructor and
operation, shortcut_exact, flag_independent_*, first_element_rule_unsound).
Tie: random typed fixed-point programs run on the real code in harness/simnet.py (m in {1,3,5},
PRSS on/off); every intermediate value is opened and its `.integral` attribute read; every executed
instruction is replayed through lean/Drv/Fxp.lean on the REAL input values/flags with the REAL
randomness of `trunc` (recovered from the parties' shares) and value + flag are compared.
Oracle (independent of the model): a value marked integral must open to a whole number; the same
program with all input flags forced False must give the same results within the rounding bound of
an exact Fraction reference of the program.
"""
import json
import os
import sys

sys.path.insert(0, os.path.dirname(os.path.dirname(os.path.abspath(__file__))))
import fxp_lib as L  # noqa: E402

LEVEL = 'proof'
LEAN_MODULES = ['MpycV.Props.C03']
LEAN_NAMESPACES = ['MpycV.C03']
REQUIRED_THEOREMS = ['inv_ofInt', 'inv_ofFloat', 'inv_ofBit', 'inv_neg', 'inv_add', 'inv_sub', 'inv_mulSS', 'inv_mulInt',
                     'inv_mulFloat', 'inv_lshift', 'inv_sum', 'inv_inProd', 'inv_ifElse', 'inv_ifSwap', 'inv_vectorAdd',
                     'inv_vectorSub', 'inv_scalarMul', 'inv_schurProd', 'inv_ifElseList', 'inv_ifSwapList',
                     'inv_matrixProd', 'inv_prodLevel', 'inv_prod', 'inv_allLevel', 'shortcut_exact', 'shortcut_exact_fits',
                     'flag_independent_mul', 'first_element_rule_unsound']
RULE = ('case = (party configuration (m,t,PRSS), type (l,f) in {(8,4),(16,8),(32,16),(64,32),(24,6)}, random straight-line '
        'program of depth <= 4 (thorough 6) over inputs {ints, integer-valued floats, +-2^-f, half-way floats, extremes, '
        'uniform} and the operations neg/pos/add/sub/mul/square/int and float factors (all trailing-zero counts)/lshift/'
        'comparisons/if_else/if_swap/sum/in_prod/prod/all/vector_add/vector_sub/scalar_mul/schur_prod/list if_else/'
        'if_swap/matrix_prod (plain, transposed, A*A^T)/pow/abs/min/max/sgn/input of mixed lists/convert from secint), '
        'plus a product-tree sweep: mpc.prod over lists of every length 1..10 with ALL 2^n integrality patterns for n<=6 '
        '(thorough n<=7, three configurations) and sampled patterns for n<=10, non-dyadic fractions, and mpc.all for n<=10; '
        'each also run with all input flags forced False); evaluations = executed instructions; distinct = distinct '
        '(type, operation, argument values, flags); non-trivial = at least one flagged and one unflagged argument or '
        'a truncation')
EXPLANATION = ''
ASSUMPTIONS = ['an explicit constructor argument integral=True is the caller\'s promise (not inferred, not checked by the code)',
               'the share layer (C11/C12): a secure number is the field element its shares encode; resharing does not change it',
               'comparison/bit protocols (sgn, lsb, to_bits, random_bits) return 0/1 resp. -1/0/1 (C01, C30); their flag rule '
               '(declared True, value shifted left by f) is what is modelled here',
               'Python float * 2**f is exact (no overflow/subnormal) and round() is half-to-even']
TRUSTED = ['harness/fxp_lib.py: interpreter, randomness recovery (Lagrange recombination of logged shares), Fraction oracle']

CORPUS_F2 = {'kind': 'program', 'cfg': [1, 0, False], 'lf': [8, 4], 'seed': 1,
             'prog': [['cint', [], 1], ['cfloat', [], (0.3).hex()], ['cint', [], 2], ['cint', [], 2],
                      ['vadd', [[0, 1], [2, 3]], None], ['sq', [5], None]],
             'note': 'F2: vector_add([secfxp(1),secfxp(0.3)],[secfxp(2),secfxp(2)]) then z[1]*z[1] (flag of element 0 reused)'}


def jobs_for(ctx, n_per, cfgs, depth, tag='p', extra=None):
    jobs = []
    for cfg in cfgs:
        for lf in L.TYPES:
            for i in range(n_per):
                opts = {'depth': depth, 'len': 9 if depth <= 4 else 14}
                if extra:
                    opts.update(extra)
                jobs.append((f'{tag}:{cfg}:{lf}:{i}', cfg, lf, ctx.seed, opts))
    return jobs


DIRECTED = [
    # list operations with mixed flags, element 0 integral (what the old rule got wrong)
    [['cint', [], 1], ['cfloat', [], (0.3).hex()], ['cint', [], 2], ['cint', [], 2], ['vadd', [[0, 1], [2, 3]], None], ['sq', [5], None]],
    [['cint', [], 1], ['cfloat', [], (0.5).hex()], ['cint', [], 2], ['cint', [], 3], ['vsub', [[0, 1], [2, 3]], None], ['mul', [5, 5], None], ['mul', [4, 5], None]],
    [['cint', [], 2], ['cint', [], 1], ['cfloat', [], (0.75).hex()], ['smul', [0, [1, 2]], None], ['sq', [4], None]],
    [['cint', [], 2], ['cfloat', [], (0.25).hex()], ['cint', [], 1], ['cint', [], 1], ['schur', [[0, 1], [2, 3]], None], ['sq', [5], None]],
    [['cint', [], 1], ['cint', [], 0], ['cint', [], 1], ['cfloat', [], (0.3).hex()], ['cint', [], 2], ['cfloat', [], (0.7).hex()],
     ['lt', [1, 0], None], ['ifelsel', [6, [2, 3], [4, 5]], None], ['sq', [8], None], ['ifswapl', [6, [2, 3], [4, 5]], None], ['sq', [11], None]],
    [['cint', [], 1], ['cfloat', [], (0.5).hex()], ['cint', [], 1], ['cint', [], 2], ['matprod', [[[0, 1]], [[2], [3]]], 0], ['sq', [4], None]],
    [['cint', [], 1], ['cfloat', [], (0.5).hex()], ['matprod', [[[0, 1]], [[0, 1]]], 'sym'], ['sq', [2], None]],
    [['inputl', [], [1, (0.3).hex(), 2]], ['sq', [1], None], ['sum', [[0, 1, 2]], None], ['prod', [[0, 1, 2]], None]],
    [['cint', [], 3], ['cfloat', [], (0.5).hex()], ['cint', [], 2], ['prod', [[0, 1, 2]], None], ['prod', [[1, 0, 2, 1]], None], ['inprod', [[0, 2], [2, 1]], None]],
    [['cfloat', [], (3.0).hex()], ['mulf', [0], (0.5).hex()], ['mulf', [0], (2.0).hex()], ['mulf', [1], (4.0).hex()], ['lshift', [1], 4], ['lshift', [1], 3]],
    # remainders modulo a public FRACTIONAL modulus: a whole dividend does not make the remainder whole
    [['cint', [], 4], ['modf', [0], (2.5).hex()], ['mulf', [1], (0.3).hex()], ['cfloat', [], (0.3).hex()], ['mul', [1, 3], None],
     ['cint', [], 1], ['modf', [5], (0.75).hex()], ['sq', [6], None], ['cint', [], 7], ['modf', [8], (2.0).hex()], ['sq', [9], None],
     ['cfloat', [], (5.5).hex()], ['modf', [11], (2.0).hex()], ['sq', [12], None]],
]


def run(ctx):
    cfgs = list(L.CFGS_QUICK) + (list(L.CFGS_MORE) if ctx.thorough else [(5, 2, False)])
    jobs = jobs_for(ctx, ctx.scale(7, 90), cfgs[:3], ctx.scale(4, 6))
    jobs += jobs_for(ctx, ctx.scale(2, 40), cfgs[3:], ctx.scale(4, 6), tag='q')
    for di, prog in enumerate(DIRECTED):
        for ci, cfg in enumerate(cfgs[:3]):
            for li, lf in enumerate(L.TYPES):
                if ctx.thorough or (ci + li + di) % 2 == 0:
                    jobs.append((f'd:{di}:{cfg}:{lf}', cfg, lf, ctx.seed, {'prog': prog}))
    jobs += L.prod_sweep_jobs(ctx, 'c03')
    results = L.explore(ctx, jobs)
    items = []
    for r in results:
        lf = tuple(r['lf'])
        prog = r['prog']
        handle(ctx, r, lf, prog)
        for res, ff in ((r['res'], False), (r['res_ff'], True)):
            if res is None:
                continue
            its = L.corr_items(prog, res, lf, force_false=ff)
            for it in its:
                it['origin'] = {'cfg': r['cfg'], 'lf': r['lf'], 'prog': prog, 'force_false': ff, 'index': it.get('index')}
            items.extend(its)
    L.run_corr(ctx, items, 'fixed-point value/flag layer (runtime.py vs MpycV.Fxp)')
    party_inputs(ctx)
    # the old rule as a sanity check of the oracle itself: model says the old flag rule marks 2.3 integral
    import common
    out = common.LeanDriver('Fxp').run(['vaddold 8 4 30 1000003 16:1,5:0 32:1,32:1', 'vadd 8 4 30 1000003 16:1,5:0 32:1,32:1'])
    ctx.compare('flag rule of list operations (old vs fixed)', ['48:1,37:1', '48:0,37:0'], out)


KEY_INPUT = 'C03-input-party-dependent-flag'


def party_inputs_case(m, t, lf, vals, seed=0, multiply=False):
    """mpc.input() where every party supplies ITS OWN private value vals[pid] (the other scenarios let every party
    pass the same constructor argument).  Returns (flags per party, opened values, error)."""
    import simnet
    l, f = lf

    async def program(mpc):
        secfxp = mpc.SecFxp(l, f)
        xs = mpc.input(secfxp(vals[mpc.pid]))
        flags = [bool(a.integral) for a in xs]
        if multiply:
            xs = xs + [xs[i] * xs[(i + 1) % len(xs)] for i in range(len(xs))]
            flags = [bool(a.integral) for a in xs]
        raws = await mpc.output(list(xs), raw=True)
        return flags, [int(r) for r in raws]
    try:
        res = simnet.SimNet(m, t, seed=seed, max_steps=300000).run(program)
    except Exception as exc:
        return None, None, f'{type(exc).__name__}: {str(exc)[:200]}'
    return [r[0] for r in res], res[0][1], None


def party_inputs(ctx):
    """flags of values received through mpc.input must be sound at every party and equal at all parties"""
    rng = ctx.subrng('party-inputs')
    pats = []
    for m, t in ((2, 0), (3, 1), (4, 1)):
        pats.append((m, t, [3] * m))                                # all whole
        pats.append((m, t, [2.5] + [3] * (m - 1)))                   # sender 0 fractional
        pats.append((m, t, [3] * (m - 1) + [0.75]))                  # last sender fractional
        pats.append((m, t, [1.25] * m))                              # all fractional
        for _ in range(ctx.scale(2, 12)):
            pats.append((m, t, [rng.choice([rng.randrange(-20, 20), rng.randrange(-80, 80) / 4]) for _ in range(m)]))
    for m, t, vals in pats:
        for lf in ((16, 8), (32, 16)):
            f = lf[1]
            flags, raws, err = party_inputs_case(m, t, lf, vals, seed=ctx.seed)
            rep = {'kind': 'party-inputs', 'm': m, 't': t, 'lf': list(lf), 'vals': vals, 'seed': ctx.seed}
            ctx.case(('party-inputs', m, lf, tuple(vals)), nontrivial=len({float(v).is_integer() for v in vals}) > 1)
            ctx.count('op:input-per-party')
            if err:
                ctx.violation(f'C03: mpc.input with per-party values {vals} does not complete: {err}', rep)
                continue
            p = None
            bad = None
            for pid, fl in enumerate(flags):
                for j, (flg, raw) in enumerate(zip(fl, raws)):
                    if flg and float(vals[j]) != int(vals[j]):
                        bad = f'party {pid} marks the input of party {j} (value {vals[j]}) integral'
                        break
                if bad:
                    break
            if not bad and any(fl != flags[0] for fl in flags):
                bad = f'parties disagree on the integral flags of the inputs: {flags}'
            if bad:
                rep['finding_key'] = KEY_INPUT
                rep['flags'] = flags
                ctx.violation('C03: ' + bad + ' (the flag is taken from the receiving party\'s own private value)', rep)


def handle(ctx, r, lf, prog):
    res, res_ff = r['res'], r['res_ff']
    f = lf[1]
    recs = res['records']
    ivals, _ = L.arg_values(prog, recs)
    for idx, (ins, rec) in enumerate(zip(prog, recs)):
        if 'out' in rec and ivals[idx] is not None:
            flat = [v for v in _flatv(ivals[idx])]
            fl = {v[1] for v in flat}
            nontriv = len(fl) > 1 or ins[0] in L.TRUNC_OPS
            ctx.case((lf, ins[0], repr(ivals[idx]), repr(ins[2])), nontrivial=nontriv)
            ctx.count('op:' + ins[0])
            for raw, flg in rec['out']:
                ctx.count('flag:' + ('true' if flg else 'false'))
        elif 'error' in rec:
            ctx.count('raises:' + rec['error'])
    ctx.count(f'cfg:m={r["cfg"][0]},t={r["cfg"][1]},{"noprss" if r["cfg"][2] else "prss"}')
    ctx.count(f'type:{lf[0]},{lf[1]}')
    if len(ctx.samples) < 3 and len(prog) > 4:
        ctx.sample({'cfg': r['cfg'], 'lf': r['lf'], 'prog': prog[:8],
                    'opened': [rec.get('out') for rec in recs[:8]]})
    viol = L.check_program(prog, res, lf, res_ff, want=('flags', 'forced'))
    for kind, msg, det in viol:
        if kind in ('div-small', 'div-wide', 'sincos-large'):
            continue
        rep = {'kind': 'program', 'cfg': r['cfg'], 'lf': r['lf'], 'prog': prog, 'seed': ctx.seed, 'check': kind,
               'detail': det, 'observed': [rec.get('out', rec.get('error')) for rec in recs]}
        ctx.violation('C03: ' + msg, shrink(rep))
        break


def _flatv(a):
    if isinstance(a, tuple):
        return [a]
    return [v for b in a for v in _flatv(b)]


def shrink(rep):
    """cheap shrinking: drop trailing instructions after the failing one"""
    idx = rep.get('detail', {}).get('index')
    if isinstance(idx, int):
        rep = dict(rep)
        rep['prog'] = rep['prog'][:idx + 1]
        rep['observed'] = rep['observed'][:idx + 1]
    return rep


def replay(ctx, data):
    if data.get('kind') == 'party-inputs':
        flags, raws, err = party_inputs_case(data['m'], data['t'], tuple(data['lf']), data['vals'], seed=data.get('seed', 0))
        if err:
            return False, err
        for pid, fl in enumerate(flags):
            for j, flg in enumerate(fl):
                if flg and float(data['vals'][j]) != int(data['vals'][j]):
                    return False, f'party {pid} marks the fractional input of party {j} integral'
        if any(fl != flags[0] for fl in flags):
            return False, f'parties disagree on the flags: {flags}'
        return True, 'ok: input flags sound and equal at all parties'
    prog = data['prog']
    lf = tuple(data['lf'])
    cfg = tuple(data['cfg'])
    res = L.run_real(cfg, lf, prog, seed=data.get('seed', 0))
    res_ff = L.run_real(cfg, lf, prog, seed=data.get('seed', 0) + 1, force_false=True)
    viol = [v for v in L.check_program(prog, res, lf, res_ff, want=('flags', 'forced', 'bounds'))
            if v[0] not in ('div-small', 'div-wide', 'sincos-large')]
    if viol:
        return False, viol[0][1]
    return True, 'ok: no value marked integral is fractional; results independent of the flags'


def search(ctx):
    """larger oracle-only search (no model involved)"""
    jobs = jobs_for(ctx, ctx.scale(120, 400), L.CFGS_QUICK, 5, tag='s')
    for r in L.explore(ctx, jobs):
        handle(ctx, r, tuple(r['lf']), r['prog'])
        if ctx.violations:
            return
