"""C11 — shares of every secure value form a consistent degree-t sharing.

Model: lean/MpycV/Model/Share.lean (+ Thresha); theorems MpycV.C11 (Consistent preserved by dealing, linear
operations, multiplication (degree 2t) + GRR resharing back to degree t for every rotation, PRSS and
no-PRSS randomness; consistentB decision procedure sound and complete).
Tie: in multi-party simulator runs (a) every node of randomly generated typed expression programs
(secint / secfxp / secfld over prime fields) and (b) EVERY result of EVERY MPyC coroutine the runtime
starts internally (trunc, sgn, random_bits, _convert, lsb, ... — recorded at _reconcile time, matched
across parties by program counter) is collected from all m parties; an independent Lagrange
interpolation checks that the m shares lie on a polynomial of degree <= t and (for program nodes) that
its constant term is the value mpc.output opens; the same share vectors are decided by the Lean
`consistentB` (driver Share) and both verdicts and secrets must agree.
"""
import os
import sys
sys.path.insert(0, os.path.dirname(os.path.dirname(os.path.abspath(__file__))))
import simnet
from simnet import SimNet, Scheduler, Deadlock, PartyError
import sharemon
import programs
import common

LEVEL = 'proof'
LEAN_MODULES = ['MpycV.Props.C11']
LEAN_NAMESPACES = ['MpycV.C11']
REQUIRED_THEOREMS = ['consistent_deal', 'consistent_mul_2t', 'reshare_consistent', 'consistentB_spec']
RULE = ('case = one secure value (program node or internal coroutine result element) collected from all m parties in a run '
        '(program, m in 2..7, t >= 0 with 2t < m, PRSS on/off, schedule seed); distinct = (run, coroutine key, element index); '
        'non-trivial = m > t + 1 (at least one share beyond the interpolation points is actually checked) and t >= 1')
ASSUMPTIONS = ['results of one coroutine instance are matched across parties by the program counter it was forked with '
               '(label determinism: C08)', 'prime fields only for the interpolation oracle (extension-field values are counted, '
               'not checked)']

CFGS = [(3, 1, False), (3, 1, True), (4, 1, False), (5, 2, False), (5, 2, True), (5, 1, False), (2, 0, False)]
CFGS_T = CFGS + [(6, 2, False), (7, 3, False), (7, 3, True), (7, 2, False), (4, 1, True)]


def gen_program(rng, kind, depth=3):
    """typed expression program; returns (builder(mpc) -> list of secure nodes, description)"""
    ops = {'int': ['add', 'sub', 'mul', 'neg', 'cmul', 'lt', 'eq', 'ifelse', 'prod', 'sum', 'inprod', 'abs', 'mod', 'pow'],
           'fxp': ['add', 'sub', 'mul', 'neg', 'cmul', 'lt', 'sum', 'inprod', 'fmul'],
           'fld': ['add', 'sub', 'mul', 'neg', 'cmul', 'recip', 'sum', 'prod', 'pow'],
           # tiny field: the retry loops of reciprocal / random bits (random mask 0 with probability 1/11) are taken often
           'fldtiny': ['recip', 'recip', 'recip', 'mul', 'add', 'sub', 'cmul', 'eq']}[kind]
    plan = [(rng.choice(ops), rng.randrange(100), rng.randrange(100), rng.randrange(1, 9)) for _ in range(rng.randrange(4, 4 + 3 * depth))]
    vals = [rng.randrange(-40, 40) for _ in range(4)]

    def build(mpc):
        m = len(mpc.parties)
        if kind == 'int':
            T = mpc.SecInt(16)
            inp = [T(v) for v in vals]
        elif kind == 'fxp':
            T = mpc.SecFxp(24, 8)
            inp = [T(v / 4) for v in vals]
        elif kind == 'fldtiny':
            T = mpc.SecFld(11)
            inp = [T(v % 11) for v in vals]
        else:
            T = mpc.SecFld(1009)
            inp = [T(v % 1009) for v in vals]
        nodes = list(mpc.input(inp, senders=0))
        for op, i, j, c in plan:
            a, b = nodes[i % len(nodes)], nodes[j % len(nodes)]
            if op == 'add':
                r = a + b
            elif op == 'sub':
                r = a - b
            elif op == 'mul':
                r = a * b if kind != 'int' else (a % 16 if False else a * (b - b + T(c % 5)))
            elif op == 'neg':
                r = -a
            elif op == 'cmul':
                r = a * (c % 4)
            elif op == 'fmul':
                r = a * 0.75
            elif op == 'lt':
                r = a < b
            elif op == 'eq':
                r = a == b
            elif op == 'ifelse':
                r = mpc.if_else(a < b, a, b)
            elif op == 'prod':
                r = mpc.prod([T(2), T(3) if kind != 'fld' else T(3), a - a + T(1)])
            elif op == 'sum':
                r = mpc.sum(nodes[:3])
            elif op == 'inprod':
                r = mpc.in_prod(nodes[:2], [T(1), T(2)] if kind != 'fxp' else [T(0.5), T(2)])
            elif op == 'abs':
                r = abs(a)
            elif op == 'mod':
                r = a % (2 + c % 5)
            elif op == 'pow':
                r = (a - a + T(2)) ** (c % 4)
            elif op == 'recip' and kind == 'fldtiny':
                r = 1 / (a * a + 1)             # -1 is a non-residue mod 11: the divisor is never 0
            elif op == 'recip':
                r = 1 / (a * a + 1) if False else (a - a + T(3 + c)) / T(7)
            else:
                continue
            nodes.append(r)
        return nodes
    return build, {'kind': kind, 'plan': plan, 'vals': vals}


def lean_cons_line(p, t, shares):
    return f'cons {p} {t} ' + ','.join(str(s % p) for s in shares)


def run_one(build, m, t, no_prss, seed, mode, internal=True):
    net = SimNet(m, t, no_prss=no_prss, seed=seed, sched=Scheduler(seed, mode), max_steps=2_000_000)

    async def prog(mpc):
        nodes = build(mpc)
        shares = await mpc.gather(nodes)
        opened = await mpc.output(nodes, raw=True)
        return [sharemon.field_info(s) for s in shares], [sharemon.field_info(o) for o in opened]
    with sharemon.ShareMonitor(net, record_results=internal) as mon:
        res = net.run(prog)
    return net, mon, res


def check_vector(ctx, what, vec, t, lines, exps, metas, meta, expect_secret=None):
    """vec: list over parties of (modulus, value). Returns violation message or None."""
    if any(v is None for v in vec):
        return None
    if any(isinstance(v, tuple) and v[0] == 'ext' for v in vec):
        ctx.count('skipped:extension-field')
        return None
    mods = {v[0] for v in vec}
    if len(mods) != 1:
        return f'{what}: parties hold elements of different fields {sorted(mods)[:3]}'
    p = mods.pop()
    shares = [v[1] for v in vec]
    ok, secret = sharemon.consistent(shares, t, p)
    if len(lines) < ctx._max_lines:
        lines.append(lean_cons_line(p, t, shares))
        exps.append(f'ok {secret}' if ok else 'bad')
        metas.append(meta)
    if not ok:
        return (f'{what}: the {len(shares)} shares do not lie on a polynomial of degree <= t={t} over GF({p}) '
                f'(actual degree {sharemon.degree_of(shares, p)}): {shares[:7]}')
    if expect_secret is not None and secret != expect_secret % p:
        return f'{what}: constant term {secret} of the sharing differs from the opened value {expect_secret % p}'
    return None


def run(ctx):
    rng = ctx.rng
    ctx._max_lines = ctx.scale(6000, 60000)
    lines, exps, metas = [], [], []
    cfgs = CFGS_T if ctx.thorough else CFGS
    nprog = ctx.scale(8, 48)
    for (m, t, no_prss) in cfgs:
        # (a) expression programs: every node + every internal coroutine result
        for k in range(nprog):
            kind = ['int', 'fxp', 'fld', 'fldtiny'][k % 4]
            build, desc = gen_program(rng, kind)
            seed = rng.randrange(10**9)
            mode = rng.choice(['random', 'starve', 'lazynet', 'eagernet'])
            rep = {'kind': 'exprprog', 'desc': desc, 'm': m, 't': t, 'no_prss': no_prss, 'seed': seed, 'mode': mode}
            try:
                net, mon, res = run_one(build, m, t, no_prss, seed, mode)
            except (Deadlock, PartyError) as exc:
                ctx.violation(f'C11: program does not run: {str(exc)[:300]}', rep)
                return
            msg = check_run(ctx, net, mon, res, m, t, lines, exps, metas, f'{kind} program seed {seed} m={m} t={t}')
            if msg:
                ctx.violation('C11: ' + msg, rep)
                return
            ctx.count('programs:' + kind)
        # (b) corpus programs: internal coroutine results only
        for name in ('arith', 'fxp', 'bits_sort', 'fld_conv', 'seclist_random', 'secflt'):
            seed = rng.randrange(10**9)
            prog = programs.PROGRAMS[name][0]()
            net = SimNet(m, t, no_prss=no_prss, seed=seed, sched=Scheduler(seed, 'random'), max_steps=2_000_000)
            rep = {'kind': 'corpus', 'program': name, 'm': m, 't': t, 'no_prss': no_prss, 'seed': seed}
            try:
                with sharemon.ShareMonitor(net) as mon:
                    net.run(prog)
            except (Deadlock, PartyError) as exc:
                ctx.violation(f'C11: corpus program {name} does not run: {str(exc)[:300]}', rep)
                return
            msg = check_run(ctx, net, mon, None, m, t, lines, exps, metas, f'corpus {name} seed {seed} m={m} t={t}')
            if msg:
                ctx.violation('C11: ' + msg, rep)
                return
            ctx.count('programs:corpus-' + name)
    # (c) two sessions in one process with mpc.threshold re-assigned in between (mpc.shutdown(); mpc.threshold = t2;
    #     mpc.start()): sharings of the second session must have degree <= t2 and the results must not change
    for (m, t1, t2) in [(3, 1, 0), (5, 2, 1), (5, 1, 2), (4, 1, 0)] + ([(5, 2, 0), (7, 3, 1), (3, 0, 1)] if ctx.thorough else []):
        for name in ('arith', 'bits_sort'):
            seed = rng.randrange(10**9)
            rep = {'kind': 'two-sessions', 'program': name, 'm': m, 't': t1, 't2': t2, 'no_prss': False, 'seed': seed}
            msg = two_sessions(ctx, name, m, t1, t2, seed, lines, exps, metas)
            ctx.count('programs:two-sessions')
            if msg:
                ctx.violation('C11: ' + msg, rep)
                return
    model = common.LeanDriver('Share').run(lines)
    ctx.compare('share consistency (independent interpolation vs MpycV.Share.consistentB)', exps, model, metas)


def two_sessions(ctx, name, m, t1, t2, seed, lines, exps, metas):
    prog = programs.PROGRAMS[name][0]()
    net = SimNet(m, t1, no_prss=False, seed=seed, sched=Scheduler(seed, 'random'), max_steps=2_000_000)
    try:
        r1 = net.run(prog)
        net.new_session()
        net.set_threshold(t2)
        with sharemon.ShareMonitor(net) as mon:
            r2 = net.run(programs.PROGRAMS[name][0]())
    except (Deadlock, PartyError) as exc:
        return f'two sessions of {name} (threshold {t1} then {t2}) do not run: {str(exc)[:300]}'
    if any(r != r2[0] for r in r2):
        return f'second session (threshold {t1} -> {t2}) of {name}: parties disagree on the results'
    if repr(r2[0]) != repr(r1[0]):
        return f'second session (threshold {t1} -> {t2}) of {name}: results differ from the first session'
    return check_run(ctx, net, mon, None, m, t2, lines, exps, metas, f'{name} second session m={m} t={t1}->{t2} seed {seed}')


def check_run(ctx, net, mon, res, m, t, lines, exps, metas, meta):
    if res is not None:
        nn = len(res[0][0])
        for k in range(nn):
            vec = [res[p][0][k] for p in range(m)]
            opened = res[0][1][k]
            if any(res[p][1][k] != opened for p in range(m)):
                return f'node {k}: parties opened different values'
            ctx.case((meta, 'node', k), nontrivial=m > t + 1 and t >= 1)
            ctx.count('values:program-node')
            msg = check_vector(ctx, f'program node {k}', vec, t, lines, exps, metas, meta,
                               expect_secret=opened[1] if opened and opened[0] == vec[0][0] else None)
            if msg:
                return msg
    keys = set(mon.results[0])
    for p in range(1, m):
        keys &= set(mon.results[p])
    missing = sum(len(set(mon.results[p]) - keys) for p in range(m))
    if missing:
        ctx.count('coroutine-results-not-at-all-parties', missing)
    for key in sorted(keys, key=repr):
        lens = {len(mon.results[p][key]) for p in range(m)}
        if len(lens) != 1:
            return f'coroutine {mon.names.get(key)} {key}: result lengths differ across parties {sorted(lens)}'
        for e in range(lens.pop()):
            vec = [mon.results[p][key][e] for p in range(m)]
            ctx.case((meta, key, e), nontrivial=m > t + 1 and t >= 1)
            ctx.count('values:coroutine-' + str(mon.names.get(key))[:24])
            msg = check_vector(ctx, f'result {e} of coroutine {mon.names.get(key)} (key {key})', vec, t, lines, exps, metas, meta)
            if msg:
                return msg
    if len(ctx.samples) < 2 and keys:
        key = sorted(keys, key=repr)[0]
        ctx.sample({'run': meta, 'coroutine': mon.names.get(key), 'shares_of_first_result': [mon.results[p][key][0] for p in range(m)]})
    return None


def search(ctx):
    rng = ctx.subrng('search')
    ctx._max_lines = 0
    for k in range(ctx.scale(300, 3000)):
        m, t, no_prss = rng.choice(CFGS_T)
        kind = ['int', 'fxp', 'fld', 'fldtiny'][k % 4]
        build, desc = gen_program(rng, kind)
        seed = rng.randrange(10**9)
        mode = rng.choice(['random', 'starve', 'lazynet', 'eagernet'])
        rep = {'kind': 'exprprog', 'desc': desc, 'm': m, 't': t, 'no_prss': no_prss, 'seed': seed, 'mode': mode}
        try:
            net, mon, res = run_one(build, m, t, no_prss, seed, mode)
        except (Deadlock, PartyError) as exc:
            ctx.violation(f'C11: program does not run: {str(exc)[:300]}', rep)
            return
        msg = check_run(ctx, net, mon, res, m, t, [], [], [], 'search')
        if msg:
            ctx.violation('C11: ' + msg, rep)
            return


def replay(ctx, data):
    ctx._max_lines = 0
    import random
    if data['kind'] == 'two-sessions':
        msg = two_sessions(ctx, data['program'], data['m'], data['t'], data['t2'], data['seed'], [], [], [])
        return msg is None, msg or 'ok'
    if data['kind'] == 'corpus':
        prog = programs.PROGRAMS[data['program']][0]()
        net = SimNet(data['m'], data['t'], no_prss=data['no_prss'], seed=data['seed'], sched=Scheduler(data['seed'], 'random'))
        with sharemon.ShareMonitor(net) as mon:
            net.run(prog)
        msg = check_run(ctx, net, mon, None, data['m'], data['t'], [], [], [], 'replay')
        return msg is None, msg or 'ok'
    desc = data['desc']
    rng = random.Random(0)
    build, _ = gen_program(rng, desc['kind'])
    # rebuild with the recorded plan/values
    plan = [tuple(x) for x in desc['plan']]
    vals = desc['vals']

    def gen_fixed():
        r2 = random.Random(1)

        class R:
            def __init__(self):
                self.plan_iter = iter(plan)
                self.val_iter = iter(vals)
        return None
    # simplest: regenerate through a rng stub that replays the recorded plan
    class Stub:
        def __init__(self):
            self.seq = []
            for op, i, j, c in plan:
                self.seq += [('choice', op), ('rr', i), ('rr', j), ('rr1', c)]
            self.k = 0
            self.first = True
            self.vi = 0

        def randrange(self, *a):
            if self.first:
                self.first = False
                # number of plan entries: invert randrange(4, 4+3*depth)
                return len(plan)
            if self.k < len(self.seq):
                v = self.seq[self.k][1]
                self.k += 1
                return v
            v = vals[self.vi]
            self.vi += 1
            return v

        def choice(self, seq):
            v = self.seq[self.k][1]
            self.k += 1
            return v
    build, _ = gen_program(Stub(), desc['kind'])
    net, mon, res = run_one(build, data['m'], data['t'], data['no_prss'], data['seed'], data['mode'])
    msg = check_run(ctx, net, mon, res, data['m'], data['t'], [], [], [], 'replay')
    return msg is None, msg or 'ok'
