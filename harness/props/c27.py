"""C27 -- every finite group family of mpyc.fingroups obeys the group laws in all coordinate systems.

Lean side (lean/MpycV/Props/C27.lean): generic double-and-add `repeat` = n-th power in any group;
permutation tuples form a group; QR / Schnorr closure, repeat = pow, encode/decode round trips,
generator order for safe primes; coordinate agreement of all elliptic-curve coordinate systems with
the affine laws; Edwards commutativity / identity / inverse / closure.  This module ties the model
to /repo (correspondence through lean/Drv/Groups.lean) and checks the property itself on the real
code against harness/groups_oracle.py (independent textbook implementations).
"""
import math
import os
import random
import signal
import sys
import time

HERE = os.path.dirname(os.path.abspath(__file__))
sys.path.insert(0, os.path.dirname(HERE))
import repo_path  # noqa: F401,E402
if 'mpyc' not in sys.modules:
    _argv = sys.argv
    sys.argv = [sys.argv[0], '--no-log']
    import mpyc  # noqa: F401,E402
    sys.argv = _argv
import mpyc.fingroups as fg  # noqa: E402
from mpyc.gfpx import GFpX  # noqa: E402
import common  # noqa: E402
import groups_oracle as orc  # noqa: E402

LEVEL = 'other'
LEAN_MODULES = ['MpycV.Props.C27']
LEAN_NAMESPACES = ['MpycV.C27']
REQUIRED_THEOREMS = [
    'repeat_spec', 'repeat_spec_ops', 'perm_group_laws', 'perm_closed', 'perm_repeat',
    'qr_closed', 'qr_repeat_eq_pow', 'qr_decode_encode', 'qr_generator_order', 'sg_closed',
    'sg_decode_encode', 'sg_decode_sound', 'edwards_affine_is_textbook', 'edwards_comm', 'edwards_identity',
    'edwards_inverse', 'edwards_closed', 'edwards_projective_agrees', 'edwards_extended_agrees',
    'edwards_extended_doubling', 'jacobian_add_agrees', 'jacobian_double_agrees',
    'projective_add_agrees', 'projective_double_agrees', 'weierstrass_affine_is_mathlib',
    'weierstrass_affine_group_laws',
]
RULE = ('families: Sym(n) n=0..8,11; QR (custom safe primes 5..2^64, built-in l=3..1024); Schnorr (custom, '
        'built-in); elliptic curves: all 5 built-in curves x their coordinate systems + tiny custom curves '
        'with all points enumerated; hyperelliptic (genus 1-3, tiny/medium p, kummer1271); class groups '
        '(l=2..1024, small D exhaustively). Elements: oracle-generated multiples of the generator in random '
        'non-normalised representations, or all elements. A case = (family, parameters, check, elements/exponent).')
EXPLANATION = (
    'PROVED in Lean for all inputs: generic repeat (double-and-add, negative n via inversion, n=0) = a^n in any '
    'group; Sym: composition/inversion of valid permutation tuples satisfy associativity, identity, inverse, '
    'closure, and repeat = power; QR/Schnorr: closure under product/inverse (Euler-criterion model of legendre), '
    'generic repeat = field power a**n, QR decode(encode m) = m for (m+1)*gap <= p, Schnorr decode(encode m) = m '
    'for m < min(1024, ord g), QR generator order q for safe primes; elliptic curves: Edwards affine formulas = '
    'textbook law, commutative, identity, inverse, closed on the curve; Edwards projective and extended (both '
    'the a=-1 and the general-a branch) add/double and Jacobian / projective (RCB, a=0, on-curve) Weierstrass '
    'add/double normalise to the affine formulas for every representation with non-zero denominators; the '
    'affine Weierstrass operation/inversion/identity as coded ARE Mathlib\'s group law on '
    'WeierstrassCurve.Affine.Point of y^2 = x^3 + a x + b in characteristic != 2 (injective map commuting with '
    '+, -, 0), hence associative/commutative with identity and inverses on nonsingular points. VALIDATED ONLY '
    '(differential exploration against the independent oracle, no theorem): associativity of the Edwards law, '
    'the exceptional cases of the projective RCB formulas (z3 = 0), '
    'hyperelliptic Cantor / Costello-Lauter arithmetic, class-group NUCOMP/NUDUPL/reduction and class numbers, '
    'generator orders of the built-in curves, BN256_twist (field GF(p^2)), curve encode/decode.')
ASSUMPTIONS = [
    'gmpy.legendre(a, p) is the Legendre symbol for odd primes p (modelled by Euler\'s criterion; C25)',
    'GF(p) element arithmetic is arithmetic mod p (C20); the model works on canonical residues',
    'Python int arithmetic, pow(a, n, p), tuple equality behave as specified',
]
TRUSTED = ['harness/groups_oracle.py (independent textbook implementations of every group family)']


# =================================================================================================
# group adapters: reconstruct a repo group type from a JSON spec, (de)serialise elements
# =================================================================================================
class _Timeout(Exception):
    pass


def _with_alarm(seconds, fn, *a, **k):
    def h(*_):
        raise _Timeout()
    old = signal.signal(signal.SIGALRM, h)
    signal.alarm(seconds)
    try:
        return fn(*a, **k)
    finally:
        signal.alarm(0)
        signal.signal(signal.SIGALRM, old)


_EC_BASES = {'ea': 'EdwardsAffine', 'ep': 'EdwardsProjective', 'ee': 'EdwardsExtended',
             'wa': 'WeierstrassAffine', 'wp': 'WeierstrassProjective', 'wj': 'WeierstrassJacobian'}
_COORD2SYS = {('Ed', 'affine'): 'ea', ('Ed', 'projective'): 'ep', ('Ed', 'extended'): 'ee',
              ('W', 'affine'): 'wa', ('W', 'projective'): 'wp', ('W', 'jacobian'): 'wj'}
_CACHE = {}


def _fval(c):
    """Field element -> int (prime field) or [c0, c1] (GF(p^2))."""
    v = c.value
    if isinstance(v, int):
        return v
    co = list(v.value) if hasattr(v, 'value') else list(v)
    co = [int(x) for x in co] + [0, 0]
    return co[:2]


def make_group(spec):
    """spec (JSON dict) -> adapter object."""
    key = repr(sorted(spec.items()))
    if key not in _CACHE:
        _CACHE[key] = _make_group(spec)
    return _CACHE[key]


def _make_group(spec):
    fam = spec['family']
    if fam == 'sym':
        return SymG(spec)
    if fam == 'qr':
        return ModG(spec)
    if fam == 'sg':
        return ModG(spec)
    if fam in ('ec', 'ec_custom'):
        return EcG(spec)
    if fam == 'hc':
        return HcG(spec)
    if fam == 'cl':
        return ClG(spec)
    raise ValueError(fam)


class BaseG:
    abelian = True

    def eq(self, a, b):
        return a == b

    def ident(self):
        return self.cls.identity

    def orc_ok(self, e):
        """Independent validity test of element e."""
        raise NotImplementedError


class SymG(BaseG):
    def __init__(self, spec):
        self.spec = spec
        self.n = spec['n']
        self.cls = fg.SymmetricGroup(self.n)
        self.abelian = self.n <= 2
        self.name = f'Sym({self.n})'

    def enc(self, e):
        return list(e.value)

    def dec(self, j):
        return self.cls(tuple(j), check=False)

    def orc_ok(self, e):
        return isinstance(e.value, tuple) and orc.perm_is_valid(self.n, e.value)

    def orc_op(self, a, b):
        return list(orc.perm_compose(a, b))

    def orc_inv(self, a):
        return list(orc.perm_inverse(a))

    def orc_id(self):
        return list(range(self.n))

    def sample(self, rng):
        p = list(range(self.n))
        rng.shuffle(p)
        return self.dec(p)


class ModG(BaseG):
    """QuadraticResidues(p) and SchnorrGroup(p, q, g)."""

    def __init__(self, spec):
        self.spec = spec
        self.p = int(spec['p'])
        if spec['family'] == 'qr':
            self.cls = fg.QuadraticResidues(p=self.p)
            self.q = (self.p - 1) // 2
            self.kind = 'qr'
        else:
            self.q = int(spec['q'])
            self.cls = fg.SchnorrGroup(p=self.p, q=self.q, g=spec.get('g'))
            self.kind = 'sg'
        self.g = self.cls.generator.value.value
        self.name = f'{self.kind}({self.p.bit_length()}b:{self.p if self.p < 10**6 else hex(self.p)[:14]})'

    def enc(self, e):
        return int(e.value.value)

    def dec(self, j):
        return self.cls(self.cls.field(int(j)), check=False)

    def orc_ok(self, e):
        v = e.value.value
        if not (0 < v < self.p):
            return False
        return orc.is_qr(v, self.p) if self.kind == 'qr' else pow(v, self.q, self.p) == 1

    def orc_op(self, a, b):
        return a * b % self.p

    def orc_inv(self, a):
        return pow(a, -1, self.p)

    def orc_id(self):
        return 1 % self.p

    def sample(self, rng):
        if self.kind == 'qr':
            r = rng.randrange(1, self.p)
            return self.dec(r * r % self.p)
        co = (self.p - 1) // self.q
        while True:
            r = pow(rng.randrange(1, self.p), co, self.p)
            if r != 1 or self.q == 1 or rng.random() < 0.05:
                return self.dec(r)


class EcG(BaseG):
    def __init__(self, spec):
        self.spec = spec
        if spec['family'] == 'ec':
            self.cls = fg.EllipticCurve(spec['curve'], spec['coords'])
            self.ed = spec['curve'].startswith('Ed')
            self.sys = _COORD2SYS[('Ed' if self.ed else 'W', spec['coords'])]
            self.name = f"{spec['curve']}/{spec['coords']}"
            fld = self.cls.field
            self.ext = fld.order != fld.characteristic
            self.p = fld.characteristic
            self.order = self.cls.order
        else:
            self.sys = spec['sys']
            self.ed = self.sys[0] == 'e'
            self.p = int(spec['p'])
            self.ext = False
            base = getattr(fg, _EC_BASES[self.sys])
            gf = fg.GF(self.p)
            name = f"T_{self.sys}_{self.p}_{spec['c1']}_{spec['c2']}"
            EC = type(name, (base,), {'__slots__': ()})
            EC.field = gf
            EC.a = gf(int(spec['c1']))
            if self.ed:
                EC.d = gf(int(spec['c2']))
            else:
                EC.b = gf(int(spec['c2']))
            EC.order = spec.get('order')
            EC.gap = spec.get('gap', 4)
            EC.is_cyclic = None
            EC.identity = EC(check=False)
            EC.generator = None
            self.cls = EC
            self.name = name
            self.order = spec.get('order')
        self.F = orc.Fp2(self.p) if self.ext else orc.Fp(self.p)
        self.c1 = self.F.el(_fval(self.cls.a)) if not self.ext else self.F.el(tuple(_fval(self.cls.a)))
        c2 = self.cls.d if self.ed else self.cls.b
        self.c2 = self.F.el(_fval(c2)) if not self.ext else self.F.el(tuple(_fval(c2)))

    # -- (de)serialisation: list of coordinates, each int or [c0, c1]
    def enc(self, e):
        return [_fval(c) for c in e.value]

    def _f(self, j):
        fld = self.cls.field
        if self.ext:
            return fld(list(j))
        return fld(int(j))

    def dec(self, j):
        return self.cls(tuple(self._f(c) for c in j), check=False)

    def _o(self, j):
        return tuple(j) if self.ext else int(j)

    def to_affine(self, j):
        """Serialised element -> oracle affine point (None = infinity); raises ZeroDivisionError."""
        F = self.F
        c = [self._o(x) for x in j]
        if self.sys == 'ea':
            return (c[0], c[1])
        if self.sys in ('ep', 'ee'):
            return orc.ed_from_projective(F, c)
        if self.sys == 'wa':
            return None if len(c) == 0 else (c[0], c[1])
        if self.sys == 'wp':
            return orc.w_from_projective(F, c)
        return orc.w_from_jacobian(F, c)

    def from_affine(self, P, rng=None):
        """Oracle affine point -> repo element, in a random non-normalised representation."""
        F = self.F
        lam = F.one
        if rng is not None and self.sys not in ('ea', 'wa') and rng.random() < 0.7:
            while True:
                lam = F.el((rng.randrange(self.p), rng.randrange(self.p))) if self.ext \
                    else rng.randrange(1, self.p)
                if not F.is_zero(lam):
                    break
        if self.ed:
            x, y = P
            if self.sys == 'ea':
                j = [x, y]
            elif self.sys == 'ep':
                j = [F.mul(x, lam), F.mul(y, lam), lam]
            else:
                j = [F.mul(x, lam), F.mul(y, lam), lam, F.mul(F.mul(x, y), lam)]
        else:
            if P is None:
                if self.sys == 'wa':
                    j = []
                else:
                    j = [F.zero, lam if rng is not None else F.one, F.zero]
            elif self.sys == 'wa':
                j = list(P)
            elif self.sys == 'wp':
                j = [F.mul(P[0], lam), F.mul(P[1], lam), lam]
            else:
                l2 = F.mul(lam, lam)
                j = [F.mul(P[0], l2), F.mul(P[1], F.mul(l2, lam)), lam]
        return self.dec([list(c) if isinstance(c, tuple) else c for c in j])

    def orc_on(self, P):
        if self.ed:
            return orc.ed_on_curve(self.F, self.c1, self.c2, P)
        return orc.w_on_curve(self.F, self.c1, self.c2, P)

    def orc_ok(self, e):
        try:
            P = self.to_affine(self.enc(e))
        except (ZeroDivisionError, ValueError):
            return False
        return self.orc_on(P)

    def aff_op(self, P, Q):
        if self.ed:
            return orc.ed_add(self.F, self.c1, self.c2, P, Q)
        return orc.w_add(self.F, self.c1, P, Q)

    def aff_inv(self, P):
        return orc.ed_neg(self.F, P) if self.ed else orc.w_neg(self.F, P)

    def aff_id(self):
        return (self.F.zero, self.F.one) if self.ed else None

    def aff_mul(self, P, n):
        if self.ed:
            return orc.ed_mul(self.F, self.c1, self.c2, P, n)
        return orc.w_mul(self.F, self.c1, P, n)

    def gen_affine(self):
        return self.to_affine(self.enc(self.cls.generator))

    def sample(self, rng, base=None):
        """Random multiple of the base point (oracle arithmetic), random representation."""
        base = self.gen_affine() if base is None else base
        k = rng.randrange(1, self.order) if self.order else rng.randrange(1, 1 << 64)
        if rng.random() < 0.08:
            k = rng.choice([0, 1, 2, (self.order or 3) - 1])
        return self.from_affine(self.aff_mul(base, k), rng)


class HcG(BaseG):
    def __init__(self, spec):
        self.spec = spec
        kw = {}
        if spec.get('curvename') == 'kummer1271':
            self.cls = fg.HyperellipticCurve('kummer1271')
        else:
            kw = dict(p=int(spec['p']), genus=spec['genus'], coordinates=spec.get('coords'))
            self.cls = _with_alarm(20, fg.HyperellipticCurve, **kw)
        self.p = self.cls.field.modulus
        self.genus = self.cls.genus
        self.f = [int(c) for c in self.cls.f.value]
        self.cl = issubclass(self.cls, fg.HCDivisorCL)
        self.name = f"HC(g={self.genus},p={self.p if self.p < 10**6 else hex(self.p)[:12]}{',CL' if self.cl else ''})"

    def uv(self, e):
        def co(x):
            return [int(c) for c in (x.value if hasattr(x, 'value') else x)]
        return co(e.u), co(e.v)

    def enc(self, e):
        if self.cl:
            return [int(c.value) for c in e.value]
        u, v = self.uv(e)
        return [u, v]

    def dec(self, j):
        if self.cl:
            F = self.cls.field
            return self.cls(tuple(F(int(c)) for c in j), check=False)
        poly = GFpX(self.p)
        return self.cls((poly(list(j[0])), poly(list(j[1]))), check=False)

    def orc_ok(self, e):
        u, v = self.uv(e)
        if self.cl:
            val = [int(c.value) for c in e.value]
            if any(val):
                if (val[0] * val[0] - val[4]) % self.p or (val[0] * val[1] - val[5]) % self.p:
                    return False
                if len(u) != 3:
                    return False
        return orc.mumford_is_valid(self.f, self.genus, self.p, u, v)

    def sample(self, rng):
        k = rng.randrange(1, 1 << 64)
        if rng.random() < 0.08:
            k = rng.choice([0, 1, 2])
        return self.cls.generator ^ k if k else self.cls.identity


class ClG(BaseG):
    def __init__(self, spec):
        self.spec = spec
        self.D = int(spec['D'])
        self.cls = fg.ClassGroup(Delta=self.D)
        self.name = f'Cl({self.D.bit_length()}b)'

    def enc(self, e):
        return [int(c) for c in e.value]

    def dec(self, j):
        return self.cls(tuple(int(c) for c in j), check=False)

    def orc_ok(self, e):
        return orc.form_is_valid(self.D, tuple(int(c) for c in e.value))

    def orc_op(self, a, b):
        return list(orc.form_compose(self.D, tuple(a), tuple(b)))

    def orc_inv(self, a):
        return list(orc.form_inverse(tuple(a)))

    def orc_id(self):
        return list(orc.form_identity(self.D))

    def prime_form(self, rng):
        """A reduced form (a, b, c) with a a small prime, built independently of the repo code."""
        D = self.D
        for _ in range(400):
            a = rng.choice(_SMALL_PRIMES)
            if a == 2:
                if D % 8 != 1:
                    continue
                b = 1
            else:
                r = next((r for r in range(a) if (r * r - D) % a == 0), None)
                if r is None or D % a == 0:
                    continue
                if rng.random() < 0.5:
                    r = (a - r) % a
                b = r if r % 2 == D % 2 else r + a
            c, rem = divmod(b * b - D, 4 * a)
            if rem:
                continue
            return orc.form_reduce((a, b, c))
        return orc.form_identity(D)

    def sample(self, rng):
        f = self.prime_form(rng)
        for _ in range(rng.randrange(0, 4)):
            f = orc.form_compose(self.D, f, self.prime_form(rng))
        if rng.random() < 0.05:
            f = orc.form_identity(self.D)
        return self.dec(f)


_SMALL_PRIMES = [q for q in range(2, 400) if orc.is_prime_small(q)]


# =================================================================================================
# checks: each takes (G, args) with JSON-serialisable args and returns None or (expected, observed)
# =================================================================================================
def _exc_name(fn):
    try:
        return fn()
    except Exception as exc:  # noqa: BLE001
        return 'EXC:' + type(exc).__name__


def _op(G, a, b):
    return a @ b


def _distinct_copy(G, a):
    return G.dec(G.enc(a))


def chk_assoc(G, args):
    a, b, c = (G.dec(x) for x in args)
    l, r = (a @ b) @ c, a @ (b @ c)
    if not G.eq(l, r):
        return ('(a@b)@c == a@(b@c)', f'{G.enc(l)} != {G.enc(r)}')
    if not G.orc_ok(l):
        return ('valid element', f'(a@b)@c = {G.enc(l)} is not a group element')


def chk_ident_inv(G, args):
    a = G.dec(args[0])
    e = G.ident()
    for nm, v in (('a@e', a @ e), ('e@a', e @ a)):
        if not G.eq(v, a):
            return (f'{nm} == a', f'{G.enc(v)}')
    ia = ~a
    if not G.orc_ok(ia):
        return ('~a valid element', f'{G.enc(ia)}')
    for nm, v in (('a@~a', a @ ia), ('~a@a', ia @ a)):
        if not G.eq(v, e):
            return (f'{nm} == identity', f'{G.enc(v)}')
    if not G.eq(~ia, a):
        return ('~~a == a', f'{G.enc(~ia)}')
    if not G.eq(e @ e, e) or not G.eq(~e, e):
        return ('e@e == e and ~e == e', f'{G.enc(e @ e)}, {G.enc(~e)}')


def chk_comm(G, args):
    a, b = (G.dec(x) for x in args)
    l, r = a @ b, b @ a
    if not G.eq(l, r):
        return ('a@b == b@a', f'{G.enc(l)} != {G.enc(r)}')


def chk_closure(G, args):
    """a@b, a@a (operation2 path), operation(a, copy of a) are valid elements and agree."""
    a, b = (G.dec(x) for x in args)
    ab = a @ b
    if not G.orc_ok(ab):
        return ('a@b valid element', f'{G.enc(ab)}')
    aa = a @ a  # `self is other` -> operation2
    a2 = _distinct_copy(G, a)
    aa2 = type(a).operation(a, a2)
    if not G.orc_ok(aa):
        return ('a@a valid element', f'{G.enc(aa)}')
    if not G.eq(aa, aa2):
        return ('operation2(a) == operation(a, a)', f'{G.enc(aa)} != {G.enc(aa2)}')


def chk_vs_oracle(G, args):
    """operation / inversion / identity against the independent implementation (where one exists)."""
    a, b = (G.dec(x) for x in args)
    if isinstance(G, EcG):
        A, B = G.to_affine(args[0]), G.to_affine(args[1])
        for nm, got, want in (('a@b', a @ b, lambda: G.aff_op(A, B)), ('a@a', a @ a, lambda: G.aff_op(A, A)),
                              ('~a', ~a, lambda: G.aff_inv(A))):
            w = want()
            g = G.to_affine(G.enc(got))
            if g != w:
                return (f'{nm} = {w} (affine)', f'{g} from {G.enc(got)}')
            n = got.normalize()
            if G.to_affine(G.enc(n)) != w:
                return (f'normalize({nm}) = {w}', f'{G.enc(n)}')
            if G.sys not in ('ea', 'wa') and w is not None and G.enc(n)[2] != (
                    [1, 0] if G.ext else 1):
                return (f'normalize({nm}) has z = 1', f'{G.enc(n)}')
        if G.to_affine(G.enc(G.ident())) != G.aff_id():
            return ('identity', f'{G.enc(G.ident())}')
        return None
    if hasattr(G, 'orc_op'):
        for nm, got, want in (('a@b', a @ b, G.orc_op(args[0], args[1])),
                              ('a@a', a @ a, G.orc_op(args[0], args[0])),
                              ('~a', ~a, G.orc_inv(args[0])), ('identity', G.ident(), G.orc_id())):
            if G.enc(got) != want:
                return (f'{nm} = {want}', f'{G.enc(got)}')


def chk_repeat(G, args):
    """repeat(a, n) == n-fold application (real operation for |n| <= 64, oracle power otherwise)."""
    a, n = G.dec(args[0]), int(args[1])
    r = a ^ n
    if not G.orc_ok(r):
        return (f'a^{n} valid element', f'{G.enc(r)}')
    if abs(n) <= 64:
        w = orc.naive_power(lambda x, y: type(a).operation(x, y), lambda x: ~x, G.ident(), a, n)
        if not G.eq(r, w):
            return (f'a^{n} == {abs(n)}-fold application = {G.enc(w)}', f'{G.enc(r)}')
    # generic base-class algorithm (QR/Schnorr override repeat by a.value**n)
    rg = fg.FiniteGroupElement.repeat(a, n)
    if not G.eq(r, rg):
        return (f'cls.repeat(a,{n}) == FiniteGroupElement.repeat(a,{n})', f'{G.enc(r)} != {G.enc(rg)}')
    if isinstance(G, EcG):
        w = G.aff_mul(G.to_affine(args[0]), n)
        g = G.to_affine(G.enc(r))
        if g != w:
            return (f'a^{n} = {w} (oracle right-to-left method)', f'{g}')
    elif isinstance(G, ModG):
        w = pow(int(args[0]), n, G.p)
        if G.enc(r) != w:
            return (f'a^{n} = {w}', f'{G.enc(r)}')
    elif hasattr(G, 'orc_op'):
        w = orc.rtl_power(G.orc_op, G.orc_inv, G.orc_id(), args[0], n)
        if G.enc(r) != list(w):
            return (f'a^{n} = {list(w)}', f'{G.enc(r)}')
    else:
        w = orc.rtl_power(lambda x, y: type(a).operation(x, y), lambda x: ~x, G.ident(), a, n)
        if not G.eq(r, w):
            return (f'a^{n} == right-to-left power {G.enc(w)}', f'{G.enc(r)}')
    # exponent laws
    m = int(args[2]) if len(args) > 2 else 3
    if not G.eq(a ^ (n + m), (a ^ n) @ (a ^ m)):
        return (f'a^({n}+{m}) == a^{n} @ a^{m}', f'{G.enc(a ^ (n + m))}')


def chk_order(G, args):
    """generator^order == identity, generator valid and (for order > 1) not the identity."""
    g = G.cls.generator
    n = G.cls.order
    if g is None or n is None:
        return None
    if not G.orc_ok(g):
        return ('generator is a valid element', f'{G.enc(g)}')
    r = g ^ n
    if not G.eq(r, G.ident()):
        return (f'generator^order == identity (order {n})', f'{G.enc(r)}')
    if args and args[0] == 'prime':
        if not orc.is_probable_prime(n):
            return ('order prime', str(n))
        if G.eq(g, G.ident()):
            return ('generator != identity', f'{G.enc(g)}')


def chk_elt_order(G, args):
    """a^order == identity for an arbitrary element (finite group of that order)."""
    a = G.dec(args[0])
    n = int(args[1])
    r = a ^ n
    if not G.eq(r, G.ident()):
        return (f'a^{n} == identity', f'{G.enc(r)}')


def chk_encode(G, args):
    m = int(args[0])
    try:
        M, Z = G.cls.encode(m)
    except ValueError as exc:
        if 'encoding failed' in str(exc):  # documented failure mode ("try larger gap"), not a wrong result
            return None
        raise
    for nm, v in (('M', M), ('Z', Z)):
        if not G.orc_ok(v):
            res = (f'encode({m}): {nm} valid element', f'{G.enc(v)}')
            if isinstance(G, HcG) and G.cl:
                res += ('C27-hc-cl-encode-not-in-jacobian',)
            return res
    d = G.cls.decode(M, Z)
    if int(d) != m:
        return (f'decode(encode({m})) == {m}', f'{d}')
    # the encoded elements are ordinary group elements: usable in the operation, equal to themselves
    try:
        s = M @ Z
        ok = G.orc_ok(s) and G.eq(s @ (~Z), G.dec(G.enc(M)))
    except Exception as exc:  # noqa: BLE001
        return (f'encode({m}) gives elements usable in the group operation', f'{type(exc).__name__}: {exc}')
    if not ok:
        res = (f'(M @ Z) @ ~Z == M and M @ Z valid for M, Z = encode({m})', f'{G.enc(s)}')
        if isinstance(G, HcG) and G.cl:
            res += ('C27-hc-cl-encode-not-in-jacobian',)
        return res
    if len(args) > 1 and isinstance(G, EcG):  # decode must not depend on the representation
        rng = random.Random(int(args[1]))
        if rng is not None:
            M2 = G.from_affine(G.to_affine(G.enc(M)), rng)
            Z2 = G.from_affine(G.to_affine(G.enc(Z)), rng)
            d2 = G.cls.decode(M2, Z2)
            if int(d2) != m:
                return (f'decode(encode({m})) == {m} for rescaled representatives', f'{d2}')


def chk_encode_rt(G, args):
    """decode(encode(m)) == m only (used where the encoded elements are a known finding)."""
    m = int(args[0])
    try:
        M, Z = G.cls.encode(m)
    except ValueError as exc:
        if 'encoding failed' in str(exc):
            return None
        raise
    d = G.cls.decode(M, Z)
    if int(d) != m:
        return (f'decode(encode({m})) == {m}', f'{d}')


def chk_cross(G, args):
    """Same multiple of the generator in another coordinate system agrees after normalisation."""
    other = make_group(args[0])
    k = int(args[1])
    a = (G.cls.generator ^ k).normalize()
    b = (other.cls.generator ^ k).normalize()
    A, B = G.to_affine(G.enc(a)), other.to_affine(other.enc(b))
    if A != B:
        return (f'{G.name} and {other.name}: normalize(g^{k}) equal', f'{A} != {B}')
    w = G.aff_mul(G.gen_affine(), k)
    if A != w:
        return (f'g^{k} = {w}', f'{A}')


def chk_equality(G, args):
    """== of two representations agrees with equality of the represented affine points."""
    a, b = (G.dec(x) for x in args)
    want = G.to_affine(args[0]) == G.to_affine(args[1])
    got = bool(a == b)
    if got != want:
        return (f'(a == b) is {want}', f'{got}')


def chk_class_number(G, args):
    h = orc.class_number_bruteforce(G.D)
    if G.cls.order != h:
        return (f'class number h({G.D}) = {h}', f'{G.cls.order}')


def chk_jacobian_count(G, args):
    els = orc.jacobian_bruteforce(G.f, G.genus, G.p)
    if G.cls.order is not None and G.cls.order != len(els):
        return (f'#Jacobian = {len(els)}', f'{G.cls.order}')
    if G.cls.class_number() != len(els):
        return (f'class_number() = {len(els)}', f'{G.cls.class_number()}')


CHECKS = {f.__name__[4:]: f for f in (chk_assoc, chk_ident_inv, chk_comm, chk_closure, chk_vs_oracle,
                                      chk_repeat, chk_order, chk_elt_order, chk_encode, chk_encode_rt, chk_cross,
                                      chk_equality, chk_class_number, chk_jacobian_count)}


CHECK_TIMEOUT = 30  # seconds per single check (the slowest legitimate one takes < 2 s)


def run_check(ctx, G, name, args, nontrivial=True):
    ctx.case((G.name, name, repr(args)[:200]), nontrivial)
    ctx.count(f'{G.spec["family"]}:{name}')
    try:
        res = _with_alarm(CHECK_TIMEOUT, CHECKS[name], G, args)
    except _Timeout:
        res = (f'terminates within {CHECK_TIMEOUT} s', 'still running (non-termination)')
    except Exception as exc:  # noqa: BLE001  an exception in a group operation on valid elements
        res = ('no exception', f'{type(exc).__name__}: {exc}')
    if res is not None:
        rep = {'kind': 'c27', 'group': G.spec, 'check': name, 'args': args,
               'expected': res[0], 'observed': res[1]}
        if len(res) > 2:
            rep['finding_key'] = res[2]
        ctx.violation(f'C27 {G.name} {name}: expected {res[0]}, observed {res[1]}', rep)
        return False
    return True


def safe_group(ctx, spec):
    """make_group, but a constructor that raises on valid parameters is a finding, not a harness error
    (e.g. the built-in assertion generator^order == identity); time-outs are re-raised."""
    try:
        return make_group(spec)
    except _Timeout:
        raise
    except Exception as exc:  # noqa: BLE001
        ctx.violation(f'C27 constructing {spec} raised {type(exc).__name__}: {exc}',
                      {'kind': 'c27', 'group': spec, 'check': 'order', 'args': [],
                       'expected': 'group type is constructed', 'observed': f'{type(exc).__name__}: {exc}'})
        return None


def replay(ctx, data):
    if data.get('kind') == 'c27-ctor':
        try:
            fg.SymmetricGroup(data['n'])(tuple(data['value']))
            got = True
        except ValueError:
            got = False
        return got == data['expected'], f"Sym({data['n']}) constructor accepts {data['value']}: {got}"
    if data.get('kind') == 'c27-exception':
        big = common.Ctx(ctx.property_id, 'quick', data.get('seed', 0))
        _in_child(big, data['phase'])
        bad = [v for v in big.violations if not v[1].get('finding_key')]
        return not bad, (bad[0][0] if bad else f"{data['phase']} passes")
    try:
        G = make_group(data['group'])
    except Exception as exc:  # noqa: BLE001
        return False, f"constructing {data['group']} raised {type(exc).__name__}: {exc}"
    try:
        res = _with_alarm(CHECK_TIMEOUT, CHECKS[data['check']], G, data['args'])
    except _Timeout:
        res = (f'terminates within {CHECK_TIMEOUT} s', 'still running (non-termination)')
    except Exception as exc:  # noqa: BLE001
        res = ('no exception', f'{type(exc).__name__}: {exc}')
    if res is None:
        return True, f"{G.name} {data['check']} holds"
    return False, f"{G.name} {data['check']}: expected {res[0]}, observed {res[1]}"


# =================================================================================================
# parameter sets
# =================================================================================================
BUILTIN_EC = [('Ed25519', c) for c in ('affine', 'projective', 'extended')] + \
             [('Ed448', c) for c in ('affine', 'projective', 'extended')] + \
             [(n, c) for n in ('secp256k1', 'BN256', 'BN256_twist') for c in ('affine', 'projective', 'jacobian')]

# tiny curves; Edwards with a square and d non-square are complete (all elements form a group under the
# coded formulas); Weierstrass y^2 = x^3 + b with odd group order for the complete projective formulas
def _is_safe_prime(p):
    return orc.is_probable_prime(p) and (p == 5 or orc.is_probable_prime((p - 1) // 2))


def _next_safe_prime(n):
    n |= 3
    while not _is_safe_prime(n):
        n += 4
    return n


def _schnorr_modulus(q, start):
    """Least prime p = 2kq + 1 >= start."""
    k = max(1, start // (2 * q))
    while not orc.is_probable_prime(2 * k * q + 1):
        k += 1
    return 2 * k * q + 1


SAFE_PRIMES = [5, 7, 11, 23, 47, 59, 83, 107, 1019, _next_safe_prime(1 << 16), _next_safe_prime(1 << 32)]


def tiny_edwards(rng, count):
    out = []
    primes = [q for q in range(5, 80) if orc.is_prime_small(q)]
    tries = 0
    while len(out) < count and tries < 10000:
        tries += 1
        p = rng.choice(primes)
        a = rng.choice([1, p - 1, rng.randrange(1, p)])
        d = rng.randrange(2, p)
        if a == d or not orc.is_qr(a, p) or orc.is_qr(d, p):
            continue
        out.append((p, a, d))
    return out


def tiny_weierstrass(rng, count, odd_order):
    out = []
    primes = [q for q in range(5, 80) if orc.is_prime_small(q)]
    tries = 0
    while len(out) < count and tries < 10000:
        tries += 1
        p = rng.choice(primes)
        b = rng.randrange(1, p)
        n = len(orc.w_all_points(orc.Fp(p), 0, b))
        if (n % 2 == 1) == odd_order and n > 2:
            out.append((p, 0, b, n))
    return out


# =================================================================================================
# oracle exploration per family
# =================================================================================================
def _triples(G, rng, n):
    for _ in range(n):
        yield [G.enc(G.sample(rng)) for _ in range(3)]


def _exponents(rng, quick):
    small = list(range(-40, 41)) if not quick else [rng.randrange(-40, 41) for _ in range(12)] + [0, 1, -1, 2, -2]
    big = [rng.getrandbits(256) * rng.choice([1, -1]) for _ in range(3 if quick else 10)]
    return small + big + [rng.getrandbits(rng.randrange(2, 80)) for _ in range(3)]


def explore_generic(ctx, G, rng, ntrip, nrep_elems, exps_quick=True, laws=True):
    for tr in _triples(G, rng, ntrip):
        if laws:
            run_check(ctx, G, 'assoc', tr)
            run_check(ctx, G, 'ident_inv', tr[:1])
            if G.abelian:
                run_check(ctx, G, 'comm', tr[:2])
            run_check(ctx, G, 'closure', tr[:2])
        run_check(ctx, G, 'vs_oracle', tr[1:])
    for _ in range(nrep_elems):
        a = G.enc(G.sample(rng))
        for n in _exponents(rng, exps_quick):
            run_check(ctx, G, 'repeat', [a, n, rng.randrange(-50, 50)])


def explore_sym(ctx):
    rng = ctx.subrng('sym')
    import itertools
    for n in range(0, 5):  # exhaustive
        G = make_group({'family': 'sym', 'n': n})
        els = [list(p) for p in itertools.permutations(range(n))]
        for a in els:
            run_check(ctx, G, 'ident_inv', [a])
            run_check(ctx, G, 'elt_order', [a, math.factorial(n)])
            for b in els:
                run_check(ctx, G, 'closure', [a, b])
                run_check(ctx, G, 'vs_oracle', [a, b])
                if G.abelian:
                    run_check(ctx, G, 'comm', [a, b])
                if n <= 3 or ctx.thorough:
                    for c in els:
                        run_check(ctx, G, 'assoc', [a, b, c])
        for a in els[:6]:
            for k in range(-40, 41, 3 if not ctx.thorough else 1):
                run_check(ctx, G, 'repeat', [a, k, 5])
    for n in (4, 5, 6, 7, 8, 11) + ((16, 32) if ctx.thorough else ()):
        G = make_group({'family': 'sym', 'n': n})
        explore_generic(ctx, G, rng, ctx.scale(12, 80), ctx.scale(2, 6), not ctx.thorough)
        run_check(ctx, G, 'elt_order', [G.enc(G.sample(rng)), math.factorial(n)])
    # the constructor accepts exactly the permutations
    for _ in range(ctx.scale(60, 400)):
        n = rng.randrange(0, 7)
        cand = [rng.randrange(-1, n + 1) for _ in range(rng.choice([n, n, n, n + 1, max(0, n - 1)]))]
        if rng.random() < 0.4:
            cand = list(range(n))
            rng.shuffle(cand)
        want = orc.perm_is_valid(n, cand)
        try:
            fg.SymmetricGroup(n)(tuple(cand))
            got = True
        except ValueError:
            got = False
        ctx.case(('sym-ctor', n, tuple(cand)))
        ctx.count('sym:ctor')
        if got != want:
            ctx.violation(f'C27 Sym({n}) constructor accepts {cand}: {got}, expected {want}',
                          {'kind': 'c27-ctor', 'n': n, 'value': cand, 'expected': want, 'observed': got})


def explore_mod(ctx):
    rng = ctx.subrng('mod')
    specs = []
    for p in SAFE_PRIMES:
        specs.append({'family': 'qr', 'p': p})
    for l in [3, 4, 5, 8, 12, 16, 24, 32, 48, 64] + ([128, 160, 768, 1024] if not ctx.thorough else
                                                     [96, 128, 160, 256, 768, 1024, 1536, 2048]):
        specs.append({'family': 'qr', 'p': fg.QuadraticResidues(l=l).field.modulus})
    specs.append({'family': 'qr', 'p': 3})
    sgs = [fg.SchnorrGroup(l=16, n=8), fg.SchnorrGroup(l=64, n=32),
           fg.SchnorrGroup(l=128, n=64), fg.SchnorrGroup(l=768), fg.SchnorrGroup(p=23, q=11),
           fg.SchnorrGroup(p=43, q=7), fg.SchnorrGroup(p=_schnorr_modulus(1019, 5000), q=1019)]
    if ctx.thorough:
        sgs += [fg.SchnorrGroup(l=1024), fg.SchnorrGroup()]
    for sg in sgs:
        specs.append({'family': 'sg', 'p': sg.field.modulus, 'q': sg.order, 'g': int(sg.generator.value.value)})
    for spec in specs:
        G = safe_group(ctx, spec)
        if G is None:
            continue
        small = G.p < 300
        if small:  # exhaustive
            if G.kind == 'qr':
                els = sorted({x * x % G.p for x in range(1, G.p)})
            else:
                els = sorted({pow(x, (G.p - 1) // G.q, G.p) for x in range(1, G.p)})
            if len(els) != G.cls.order:
                ctx.violation(f'C27 {G.name}: order {G.cls.order} but {len(els)} elements',
                              {'kind': 'c27', 'group': spec, 'check': 'order', 'args': []})
            for a in els:
                run_check(ctx, G, 'ident_inv', [a])
                run_check(ctx, G, 'elt_order', [a, G.cls.order])
                for b in els[:40]:
                    run_check(ctx, G, 'closure', [a, b])
                    run_check(ctx, G, 'vs_oracle', [a, b])
                    run_check(ctx, G, 'comm', [a, b])
            for _ in range(30):
                run_check(ctx, G, 'assoc', [rng.choice(els) for _ in range(3)])
            for a in els[:5]:
                for n in range(-40, 41, 1 if ctx.thorough else 4):
                    run_check(ctx, G, 'repeat', [a, n, 7])
        big = G.p.bit_length() > 256
        explore_generic(ctx, G, rng, ctx.scale(3 if big else 8, 40), ctx.scale(1, 4), not ctx.thorough)
        run_check(ctx, G, 'order', ['prime'] if (G.kind == 'sg' or G.p > 5) and G.cls.order > 1 else [])
        if G.kind == 'qr' and G.p > 5 and G.p != 7:
            if not _is_safe_prime(G.p):
                ctx.violation(f'C27 QuadraticResidues(l=..) modulus {G.p} is not a safe prime',
                              {'kind': 'c27', 'group': spec, 'check': 'order', 'args': ['prime']})
        # encode / decode
        if G.kind == 'qr':
            gap = G.cls.gap
            top = G.p // gap - 1
            ms = [m for m in [0, 1, 2, top] + [rng.randrange(0, max(1, top + 1)) for _ in range(ctx.scale(6, 40))]
                  if 0 <= m and (m + 1) * gap <= G.p]
        else:
            top = min(1024, G.q)
            ms = sorted({0, 1, top - 1} | {rng.randrange(0, top) for _ in range(ctx.scale(5, 30))})
            if big and not ctx.thorough:
                ms = ms[:3]
        for m in ms:
            run_check(ctx, G, 'encode', [m])


def _ec_specs(ctx, rng):
    specs = [{'family': 'ec', 'curve': c, 'coords': k} for c, k in BUILTIN_EC]
    tiny = []
    for p, a, d in tiny_edwards(rng, ctx.scale(3, 16)):
        pts = orc.ed_all_points(orc.Fp(p), a, d)
        for s in ('ea', 'ep', 'ee'):
            tiny.append(({'family': 'ec_custom', 'sys': s, 'p': p, 'c1': a, 'c2': d, 'order': len(pts)}, pts))
    for p, a, b, n in tiny_weierstrass(rng, ctx.scale(3, 16), True):
        pts = orc.w_all_points(orc.Fp(p), a, b)
        for s in ('wa', 'wp', 'wj'):
            tiny.append(({'family': 'ec_custom', 'sys': s, 'p': p, 'c1': a, 'c2': b, 'order': n}, pts))
    for p, a, b, n in tiny_weierstrass(rng, ctx.scale(1, 8), False):  # even order: affine + jacobian
        pts = orc.w_all_points(orc.Fp(p), a, b)
        for s in ('wa', 'wj'):
            tiny.append(({'family': 'ec_custom', 'sys': s, 'p': p, 'c1': a, 'c2': b, 'order': n}, pts))
    # general a (affine formulas only; projective/jacobian code assumes a = 0)
    for _ in range(ctx.scale(3, 10)):
        p = rng.choice([q for q in range(5, 60) if orc.is_prime_small(q)])
        a, b = rng.randrange(1, p), rng.randrange(1, p)
        if (4 * a ** 3 + 27 * b * b) % p == 0:
            continue
        pts = orc.w_all_points(orc.Fp(p), a, b)
        tiny.append(({'family': 'ec_custom', 'sys': 'wa', 'p': p, 'c1': a, 'c2': b, 'order': len(pts)}, pts))
    return specs, tiny


def explore_ec(ctx):
    rng = ctx.subrng('ec')
    specs, tiny = _ec_specs(ctx, rng)
    for spec in specs:
        G = safe_group(ctx, spec)
        if G is None:
            continue
        slow = G.ext or G.p.bit_length() > 300
        nt = ctx.scale(2 if slow else 4, 12 if slow else 30)
        for tr in _triples(G, rng, nt):
            run_check(ctx, G, 'assoc', tr)
            run_check(ctx, G, 'ident_inv', tr[:1])
            run_check(ctx, G, 'comm', tr[:2])
            run_check(ctx, G, 'closure', tr[:2])
            run_check(ctx, G, 'vs_oracle', tr[1:])
            run_check(ctx, G, 'equality', tr[:2])
            a2 = G.enc(G.from_affine(G.to_affine(tr[0]), rng))
            run_check(ctx, G, 'equality', [tr[0], a2])
        # special pairs: P + P through operation, P + (-P), identity operands
        a = G.sample(rng)
        A = G.to_affine(G.enc(a))
        for Q in (A, G.aff_inv(A), G.aff_id()):
            q = G.enc(G.from_affine(Q, rng))
            run_check(ctx, G, 'vs_oracle', [G.enc(a), q])
            run_check(ctx, G, 'vs_oracle', [q, G.enc(a)])
            run_check(ctx, G, 'assoc', [G.enc(a), q, G.enc(G.sample(rng))])
        a = G.enc(G.sample(rng))
        for n in _exponents(rng, True)[:: (3 if slow and not ctx.thorough else 1)]:
            run_check(ctx, G, 'repeat', [a, n, rng.randrange(-9, 9)])
        run_check(ctx, G, 'order', ['prime'])
        run_check(ctx, G, 'elt_order', [G.enc(G.sample(rng)), G.cls.order])
        if not G.ext:
            top = G.p // G.cls.gap - 1
            for m in [0, 1, top] + [rng.randrange(0, top) for _ in range(ctx.scale(2, 10))]:
                run_check(ctx, G, 'encode', [m, rng.randrange(1 << 30)])
        for other in specs:
            if other['curve'] == spec['curve'] and other['coords'] > spec['coords']:
                for k in [rng.randrange(1, G.cls.order) for _ in range(ctx.scale(1, 4))] + [2, -3]:
                    run_check(ctx, G, 'cross', [other, k])
    for spec, pts in tiny:
        G = make_group(spec)
        complete = G.ed or G.sys in ('wa', 'wj') or (spec['order'] % 2 == 1)
        reps = [[G.enc(G.from_affine(P, rng)) for P in pts] for _ in range(2)]
        n = len(pts)
        for i in range(n):
            run_check(ctx, G, 'ident_inv', [reps[0][i]])
            run_check(ctx, G, 'elt_order', [reps[1][i], spec['order']])
            for j in range(n):
                if not complete:
                    continue
                run_check(ctx, G, 'vs_oracle', [reps[0][i], reps[1][j]])
                run_check(ctx, G, 'equality', [reps[0][i], reps[1][j]])
                if n <= 40 or (i + j) % 3 == 0:
                    run_check(ctx, G, 'comm', [reps[0][i], reps[1][j]])
                    run_check(ctx, G, 'closure', [reps[1][i], reps[0][j]])
        for _ in range(ctx.scale(40, 300)):
            run_check(ctx, G, 'assoc', [rng.choice(rng.choice(reps)) for _ in range(3)])
        for _ in range(ctx.scale(6, 30)):
            run_check(ctx, G, 'repeat', [rng.choice(reps[0]), rng.randrange(-40, 41), rng.randrange(-9, 9)])
            run_check(ctx, G, 'repeat', [rng.choice(reps[1]), rng.getrandbits(256), 1])


def explore_hc(ctx):
    rng = ctx.subrng('hc')
    specs = [{'family': 'hc', 'p': 3, 'genus': 1}, {'family': 'hc', 'p': 7, 'genus': 1},
             {'family': 'hc', 'p': 3, 'genus': 2}, {'family': 'hc', 'p': 7, 'genus': 2},
             {'family': 'hc', 'p': 7, 'genus': 3}, {'family': 'hc', 'p': 251, 'genus': 2},
             {'family': 'hc', 'p': 65519, 'genus': 3}, {'family': 'hc', 'p': 4294967291, 'genus': 2},
             {'family': 'hc', 'p': 4294967291, 'genus': 2, 'coords': 'extended'},
             {'family': 'hc', 'p': 18446744073709551427, 'genus': 3},
             {'family': 'hc', 'curvename': 'kummer1271'}]
    if ctx.thorough:
        specs += [{'family': 'hc', 'p': 11, 'genus': 1}, {'family': 'hc', 'p': 251, 'genus': 1},
                  {'family': 'hc', 'p': 251, 'genus': 3}, {'family': 'hc', 'p': 65519, 'genus': 2},
                  {'family': 'hc', 'p': 65519, 'genus': 2, 'coords': 'extended'},
                  {'family': 'hc', 'p': 18446744073709551427, 'genus': 2, 'coords': 'extended'}]
    for spec in specs:
        try:
            G = safe_group(ctx, spec)
        except _Timeout:
            ctx.note(f'HyperellipticCurve({spec}) did not return within 20 s (construction, not a C27 clause)')
            continue
        if G is None:
            continue
        tiny = G.p <= 7 and G.genus <= 2 and not G.cl
        if tiny:  # the whole Jacobian, enumerated independently
            els = orc.jacobian_bruteforce(G.f, G.genus, G.p)
            run_check(ctx, G, 'jacobian_count', [])
            reps = [[list(u), list(v)] for u, v in els]
            h = len(els)
            sub = reps if h <= 70 else [rng.choice(reps) for _ in range(70)]
            for a in reps:
                run_check(ctx, G, 'ident_inv', [a])
                run_check(ctx, G, 'elt_order', [a, h])
            for a in sub:
                for b in sub:
                    run_check(ctx, G, 'closure', [a, b])
                    run_check(ctx, G, 'comm', [a, b])
            for _ in range(ctx.scale(150, 1500)):
                run_check(ctx, G, 'assoc', [rng.choice(reps) for _ in range(3)])
            for _ in range(ctx.scale(20, 100)):
                run_check(ctx, G, 'repeat', [rng.choice(reps), rng.randrange(-40, 41), rng.randrange(-9, 9)])
        big = G.p.bit_length() > 60
        for tr in _triples(G, rng, ctx.scale(3 if big else 8, 30)):
            run_check(ctx, G, 'assoc', tr)
            run_check(ctx, G, 'ident_inv', tr[:1])
            run_check(ctx, G, 'comm', tr[:2])
            run_check(ctx, G, 'closure', tr[:2])
        a = G.enc(G.sample(rng))
        for n in _exponents(rng, True)[:: (2 if big and not ctx.thorough else 1)]:
            run_check(ctx, G, 'repeat', [a, n, rng.randrange(-9, 9)])
        run_check(ctx, G, 'order', ['prime'] if spec.get('curvename') else [])
        if G.p > 1000:
            top = G.p // G.cls.gap - 1
            ms = [0, 1, top, min(top, (1 << 53) + 1)] + [rng.randrange(0, top) for _ in range(ctx.scale(2, 10))]
            if G.cl:
                # known finding C27-hc-cl-encode-not-in-jacobian: Costello-Lauter encode returns (u, v) with
                # u = (x + x_m)^2 and constant v, not a Jacobian element; reported on ONE directed input,
                # the round trip itself is checked on all m, the group laws on generator multiples only
                for m in ms:
                    run_check(ctx, G, 'encode_rt', [m])
                if spec.get('curvename') == 'kummer1271':
                    run_check(ctx, G, 'encode', [5])
            else:
                for m in ms:
                    run_check(ctx, G, 'encode', [m])


def explore_cl(ctx):
    rng = ctx.subrng('cl')
    Ds = [-3, -7, -11, -23, -31, -47, -71, -151, -199, -1831, -4219]
    for l in [8, 12, 16, 20, 24, 32, 64, 128] + ([256, 512, 1024] if ctx.thorough else [256]):
        Ds.append(fg.ClassGroup(l=l).discriminant)
    for D in Ds:
        G = safe_group(ctx, {'family': 'cl', 'D': D})
        if G is None:
            continue
        if -D < 70000:
            run_check(ctx, G, 'class_number', [])
        if -D < 5000:  # all reduced forms, enumerated independently
            els = []
            a = 1
            while 3 * a * a <= -D:
                for b in range(-a + 1, a + 1):
                    if (b * b - D) % (4 * a) == 0:
                        c = (b * b - D) // (4 * a)
                        if c >= a and math.gcd(math.gcd(a, b), c) == 1 and not (a == c and b < 0):
                            els.append([a, b, c])
                a += 1
            for a_ in els:
                run_check(ctx, G, 'ident_inv', [a_])
                run_check(ctx, G, 'elt_order', [a_, len(els)])
                for b_ in els:
                    run_check(ctx, G, 'closure', [a_, b_])
                    run_check(ctx, G, 'vs_oracle', [a_, b_])
                    run_check(ctx, G, 'comm', [a_, b_])
            for _ in range(ctx.scale(60, 600)):
                run_check(ctx, G, 'assoc', [rng.choice(els) for _ in range(3)])
        big = D.bit_length() > 200
        explore_generic(ctx, G, rng, ctx.scale(4 if big else 12, 60), ctx.scale(1, 4), not ctx.thorough)
        run_check(ctx, G, 'order', [])
        if G.cls.order is not None:
            run_check(ctx, G, 'elt_order', [G.enc(G.sample(rng)), G.cls.order])
        gap = G.cls.gap
        top = (math.isqrt(-D) // 2) // gap - 1
        if top >= 0:
            for m in sorted({0, top} | {rng.randrange(0, top + 1) for _ in range(ctx.scale(3, 12))}):
                run_check(ctx, G, 'encode', [m])


# =================================================================================================
# correspondence with the Lean model
# =================================================================================================
def _b(x):
    return 'True' if x else 'False'


def _nl(l):
    return ','.join(str(int(v)) for v in l) if len(l) else '-'


def correspondence_inputs(ctx):
    """Request lines for the Lean driver and the real code's answers."""
    rng = ctx.subrng('corr')
    reqs, impl = [], []

    def add(req, fn):
        reqs.append(req)
        impl.append(str(_exc_name(fn)).replace('EXC:', ''))
        ctx.count('corr:' + ' '.join(req.split()[:2]))

    # --- generic repeat on residues (base-class algorithm) and field power ---------------------
    mods = [5, 7, 23, 1019, 13, 65537, SAFE_PRIMES[-2], SAFE_PRIMES[-1], 2 ** 255 - 19,
            fg.QuadraticResidues(l=64).field.modulus, fg.QuadraticResidues(l=768).field.modulus]
    for p in mods:
        QR = fg.QuadraticResidues(p=p) if _is_safe_prime(p) or p == 7 else None
        fld = fg.GF(p)
        big = p.bit_length() > 300
        for _ in range(ctx.scale(4 if big else 25, 15 if big else 120)):
            a = rng.randrange(1, p)
            n = rng.choice([rng.randrange(-40, 41), rng.getrandbits(256) * rng.choice([1, -1]),
                            rng.randrange(-3, 4)])
            if QR is not None:
                x = QR(fld(a * a % p), check=False)
                add(f'rep {p} {a * a % p} {n}',
                    lambda x=x, n=n: fg.FiniteGroupElement.repeat(x, n).value.value)
            add(f'fpow {p} {a} {n}', lambda a=a, n=n: (fld(a) ** n).value)
        add(f'fpow {p} 0 -1', lambda: (fld(0) ** -1).value)
        add(f'fpow {p} 0 0', lambda: (fld(0) ** 0).value)
    # --- permutations -------------------------------------------------------------------------
    for _ in range(ctx.scale(150, 1500)):
        n = rng.randrange(0, 9)
        S = fg.SymmetricGroup(n)
        p, q = list(range(n)), list(range(n))
        rng.shuffle(p)
        rng.shuffle(q)
        P, Q = S(tuple(p), check=False), S(tuple(q), check=False)
        add(f'perm op {_nl(p)} {_nl(q)}', lambda P=P, Q=Q: _nl(S.operation(P, Q).value))
        add(f'perm inv {_nl(p)}', lambda P=P: _nl(S.inversion(P).value))
        k = rng.choice([rng.randrange(-40, 41), rng.getrandbits(64)])
        add(f'perm rep {n} {_nl(p)} {k}', lambda P=P, k=k: _nl((P ^ k).value))
        cand = [rng.randrange(0, n + 2) for _ in range(rng.choice([n, n + 1, max(n - 1, 0)]))]
        if rng.random() < 0.3:
            cand = p

        def valid(S=S, cand=cand):
            try:
                S(tuple(cand))
                return 'True'
            except ValueError:
                return 'False'
        add(f'perm valid {n} {_nl(cand)}', valid)
    # --- QR / Schnorr membership, encode, decode -------------------------------------------------
    for p in [7, 11, 13, 23, 59, 1019, SAFE_PRIMES[-2], SAFE_PRIMES[-1],
              fg.QuadraticResidues(l=64).field.modulus, fg.QuadraticResidues(l=768).field.modulus]:
        QR = fg.QuadraticResidues(p=p)
        gap = QR.gap
        big = p.bit_length() > 300
        for _ in range(ctx.scale(3 if big else 20, 100)):
            a = rng.randrange(0, p)

            def mem(a=a):
                try:
                    QR(a)
                    return 'True'
                except ValueError:
                    return 'False'
            add(f'qr mem {p} {a}', mem)
            m = rng.randrange(0, max(1, p // gap)) if p > 2 * gap else rng.randrange(0, 3)

            def enc(m=m):
                M, Z = QR.encode(m)
                return f'{M.value.value} {Z.value.value}'
            add(f'qr enc {p} {gap} {m}', enc)
            M, Z = rng.randrange(1, p), rng.randrange(1, p)
            sg = 1 if QR.field.is_signed else 0
            add(f'qr dec {p} {gap} {M} {Z} {sg}',
                lambda M=M, Z=Z: QR.decode(QR(QR.field(M), check=False), QR(QR.field(Z), check=False)))
    for SG in [fg.SchnorrGroup(p=23, q=11), fg.SchnorrGroup(p=43, q=7), fg.SchnorrGroup(l=16, n=8),
               fg.SchnorrGroup(l=64, n=32), fg.SchnorrGroup(p=_schnorr_modulus(1019, 5000), q=1019)]:
        p, q, g = SG.field.modulus, SG.order, SG.generator.value.value
        for _ in range(ctx.scale(12, 60)):
            a = rng.randrange(0, p)

            def mem(a=a, SG=SG):
                try:
                    SG(a)
                    return 'True'
                except ValueError:
                    return 'False'
            add(f'sg mem {p} {q} {a}', mem)
            m = rng.randrange(-5, 1100)
            add(f'sg enc {p} {g} {m}', lambda m=m, SG=SG: SG.encode(m)[0].value.value)
            M = pow(g, rng.randrange(0, min(q, 2000)), p) if rng.random() < 0.8 else rng.randrange(1, p)
            add(f'sg dec {p} {g} {M}', lambda M=M, SG=SG: SG.decode(SG(SG.field(M), check=False), None))
    # --- elliptic-curve formulas ----------------------------------------------------------------
    specs, tiny = _ec_specs(ctx, rng)
    groups = [(make_group(s), None) for s in specs if 'twist' not in s['curve']]
    # tiny curves, also incomplete Edwards curves (d square): errors are part of the interface
    for spec, pts in tiny:
        groups.append((make_group(spec), pts))
    for _ in range(ctx.scale(3, 10)):
        p = rng.choice([7, 11, 13, 17, 19, 23])
        a, d = rng.randrange(1, p), rng.randrange(2, p)
        if a == d:
            continue
        pts = orc.ed_all_points(orc.Fp(p), a, d)
        for s in ('ea', 'ep', 'ee'):
            groups.append((make_group({'family': 'ec_custom', 'sys': s, 'p': p, 'c1': a, 'c2': d,
                                       'order': None}), pts))
    for G, pts in groups:
        big = pts is None
        cnt = ctx.scale(3, 12) if big else ctx.scale(8, 40)
        hdr = f'ec {G.sys} {G.p} {G.c1} {G.c2}'

        def pick():
            if big:
                return G.sample(rng)
            P = rng.choice(pts)
            e = G.from_affine(P, rng)
            if G.sys not in ('ea', 'wa') and rng.random() < 0.06:  # junk representation (z = 0 etc.)
                j = G.enc(e)
                j[rng.randrange(len(j))] = 0
                e = G.dec(j)
            return e

        def show(e):
            return _nl(G.enc(e))
        for _ in range(cnt):
            a, b = pick(), pick()
            if rng.random() < 0.15:
                b = _distinct_copy(G, a)
            if rng.random() < 0.1:
                b = G.from_affine(G.aff_inv(G.to_affine(G.enc(a))), rng) if G.orc_ok(a) else b
            cls = G.cls
            add(f'{hdr} add {show(a)} {show(b)}', lambda a=a, b=b, cls=cls: show(cls.operation(a, b)))
            add(f'{hdr} dbl {show(a)}', lambda a=a, cls=cls: show(cls.operation2(a)))
            add(f'{hdr} neg {show(a)}', lambda a=a, cls=cls: show(cls.inversion(a)))
            add(f'{hdr} norm {show(a)}', lambda a=a: show(a.normalize()))
            add(f'{hdr} eq {show(a)} {show(b)}', lambda a=a, b=b, cls=cls: _b(cls.equality(a, b)))

            def on(a=a, cls=cls):
                try:
                    cls(a.value, check=True)
                    return 'True'
                except ValueError:
                    return 'False'
            add(f'{hdr} on {show(a)}', on)
            n = rng.choice([rng.randrange(-40, 41), rng.getrandbits(256) * rng.choice([1, -1])])
            if big and rng.random() < 0.5:
                n = rng.randrange(-40, 41)
            add(f'{hdr} rep {show(a)} {n}', lambda a=a, n=n: show(a ^ n))
    # --- class-group reduction / inversion ---------------------------------------------------------
    for _ in range(ctx.scale(150, 1500)):
        bits = rng.choice([4, 8, 16, 40, 100, 300])
        a = rng.getrandbits(bits) + 1
        b = rng.getrandbits(bits + rng.randrange(0, 8)) * rng.choice([1, -1])
        c = (b * b) // (4 * a) + 1 + rng.getrandbits(rng.randrange(1, bits + 4))
        add(f'cg red {a},{b},{c}', lambda a=a, b=b, c=c: _nl(fg.ClassGroupForm._reduce((a, b, c))))
    for D in [-23, -71, -151, -4219, fg.ClassGroup(l=64).discriminant]:
        G = make_group({'family': 'cl', 'D': D})
        add(f'cg id {D}', lambda G=G: _nl(G.cls.identity.value))
        for _ in range(ctx.scale(10, 60)):
            e = G.sample(rng)
            add(f'cg inv {_nl(e.value)}', lambda e=e: _nl((~e).value))
    for r, i in list(zip(reqs, impl))[:3]:
        ctx.sample({'request': r, 'answer': i})
    return reqs, impl


def correspondence_compare(ctx, reqs, impl):
    """Evaluate the requests with the Lean model and diff (returns a closure doing the work)."""
    def finish():
        out = common.LeanDriver('Groups').run(reqs)
        ctx.compare('Groups model vs fingroups', impl, out, reqs)
    return finish


def _guard(ctx, phase):
    """An exception escaping a phase is caused by the code under test (the unchanged tree raises none):
    report it as a violation instead of an infrastructure error."""
    try:
        return globals()[phase](ctx)
    except (common.InfraError, _Timeout):
        raise
    except Exception as exc:  # noqa: BLE001
        import traceback
        ctx.violation(f'C27 {phase}: {type(exc).__name__}: {exc}',
                      {'kind': 'c27-exception', 'phase': phase, 'seed': ctx.seed,
                       'traceback': traceback.format_exc()[-1500:]})
        return None


PHASE_TIMEOUT = {'quick': 300, 'thorough': 3600}


def _in_child(ctx, phase):
    """Run one phase in a forked child with a hard wall-clock limit, merge its bookkeeping into ctx.

    A group operation that never returns (possibly inside one huge-integer operation, where Python
    signal handlers do not run) must not hang the check: the child is killed and the phase is reported
    as non-terminating.  Returns the phase's return value (must be picklable)."""
    import pickle
    rfd, wfd = os.pipe()
    pid = os.fork()
    if pid == 0:
        code = 0
        try:
            os.close(rfd)
            sub = common.Ctx(ctx.property_id, ctx.tier, ctx.seed)
            ret = _guard(sub, phase)
            data = pickle.dumps((ret, sub.evaluations, sub.nontrivial, sub.samples, sub.dist,
                                 sub.violations, sub.mismatches, sub.notes))
            with os.fdopen(wfd, 'wb') as f:
                f.write(data)
        except BaseException:  # noqa: BLE001
            code = 3
        os._exit(code)
    os.close(wfd)
    import select
    limit = PHASE_TIMEOUT[ctx.tier]
    chunks = []
    t0 = time.time()
    timed_out = False
    with os.fdopen(rfd, 'rb') as f:
        while True:
            left = limit - (time.time() - t0)
            if left <= 0:
                timed_out = True
                break
            r, _, _ = select.select([f], [], [], min(left, 5))
            if r:
                b = os.read(f.fileno(), 1 << 20)
                if not b:
                    break
                chunks.append(b)
    if timed_out:
        try:
            os.kill(pid, signal.SIGKILL)
        except OSError:
            pass
    os.waitpid(pid, 0)
    if timed_out:
        ctx.violation(f'C27 {phase}: did not terminate within {limit} s (a group operation does not return)',
                      {'kind': 'c27-exception', 'phase': phase, 'seed': ctx.seed})
        return None
    try:
        ret, ev, nt, samples, dist, viol, mism, notes = pickle.loads(b''.join(chunks))
    except Exception:  # noqa: BLE001
        raise common.InfraError(f'phase {phase}: child process died without a result')
    ctx.evaluations += ev
    ctx.nontrivial |= nt
    for smp in samples:
        ctx.sample(smp)
    for k, v in dist.items():
        ctx.count(k, v)
    ctx.violations.extend(viol)
    ctx.mismatches.extend(mism)
    ctx.notes.extend(notes)
    return ret


def run(ctx):
    # the requests / real-code answers of the correspondence are produced in a child as well; the Lean
    # driver evaluates the model afterwards
    corr = _in_child(ctx, 'correspondence_inputs')
    finish = correspondence_compare(ctx, *corr) if corr else None
    for phase in ('explore_sym', 'explore_mod', 'explore_ec', 'explore_hc', 'explore_cl'):
        _in_child(ctx, phase)
    if finish is not None:
        finish()


def correspondence(ctx):
    return correspondence_compare(ctx, *correspondence_inputs(ctx))


def search(ctx):
    """Bigger exploration when the proof or the correspondence broke."""
    big = common.Ctx(ctx.property_id, 'thorough', ctx.seed + 1)
    for phase in ('explore_sym', 'explore_mod', 'explore_ec', 'explore_hc', 'explore_cl'):
        _in_child(big, phase)
        if [v for v in big.violations if not v[1].get('finding_key')]:
            break
    ctx.violations.extend(big.violations)
    ctx.evaluations += big.evaluations
