"""C01 — secure integer operations are exact in every party configuration.

Model: lean/MpycV/Model/SecInt.lean (value layer over Int with explicit prime p and NAMED randomness).
Theorems: MpycV.C01.  Tie (three layers):
  * random typed programs over all operations of the property run on harness/simnet.py (m in 1..5 (7), every valid
    t, PRSS on/off, several scheduler modes): per-party outputs must all be equal, equal to the independent
    Python-int oracle (harness/secint_oracle.py) and equal to the Lean driver's `evalSpec`;
  * unit correspondences with RECOVERED randomness for sgn (LT/EQ/full, reduced l), lsb, _mod, is_zero_public,
    trunc: the random values a protocol instance used are recovered by recombining all parties' shares of them
    (degree checked), fed to the Lean protocol models, and every value opened inside the protocol as well as the
    result must be reproduced exactly;
  * gcd/lcm/gcdext/inverse: exhaustive over all l-bit pairs for small l on m=1, samples on m=3, against math.gcd
    etc. and against the integer-level Lean model of the Bernstein-Yang loop; structural correspondences for
    prod/all/any/pow/matrix_prod (symmetric indexing)/min/max/if_else/if_swap.
"""
import json
import math
import os
import sys

sys.path.insert(0, os.path.dirname(os.path.dirname(os.path.abspath(__file__))))
import simnet  # noqa: E402  (sets sys.argv for mpyc, installs the runtime proxy)
from simnet import SimNet, Scheduler, rtmod  # noqa: E402
import sharemon  # noqa: E402
import secint_oracle as O  # noqa: E402
import common  # noqa: E402

LEVEL = 'other'
LEAN_MODULES = ['MpycV.Props.C01', 'MpycV.Props.C01Eval']
LEAN_NAMESPACES = ['MpycV.C01']
REQUIRED_THEOREMS = ['toft_prod_zero_iff', 'lcm_partial', 'gcdext_partial', 'inverse_partial', 'sgn_lt', 'sgn_eq', 'sgn_sign', 'lsb_correct', 'mod_correct', 'divmod_python', 'mod_negative_divisor',
                     'isZeroPublic_correct', 'prodTree_eq_prod', 'allTree_eq', 'any_correct', 'pow_correct',
                     'ifElse_correct', 'ifSwap_correct', 'abs_correct', 'matrixProd_symmetric_index',
                     'divstep_invariant', 'gcd_of_terminated', 'gcd_partial', 'gcd_terminates_table', 'divsteps_bezout',
                     'trunc_exact_on_multiples', 'min_correct', 'max_correct', 'minMax_correct', 'divmod_correct',
                     'eval_correct']
RULE = ('case = one (program, configuration) run or one protocol instance; programs: random typed expression trees '
        '(depth <= 4 quick / 7 thorough) over + - * (incl. reflected and int-mixed forms), unary -, +, abs, sgn, '
        '< <= == != >= >, & | ^ ~ on bits, // % divmod >> by public divisors incl. powers of two and 1, ** n, lsb, '
        'if_else, if_swap, sum, prod, all, any, min, max, min_max, in_prod, matrix_prod (plain/transposed/symmetric), '
        'is_zero_public/eq_public, gcd/lcm/gcdext/inverse; l in {4,8,16,32,64}; inputs weighted to +-2^(l-1), 0, '
        '+-1, 2^j+-1; ~90% of programs keep every intermediate in l bits (checked against the oracle), the rest only '
        'for no-crash/no-hang/agreement; configurations m in 1..5 (thorough 7), every t with 2t < m, PRSS on/off, '
        'scheduler modes fifo/random/starve/lazynet/eagernet with whole/mixed/byte chunking; distinct = distinct '
        '(l, program, inputs); non-trivial = the program contains a protocol with communication or randomness')
EXPLANATION = ('PROVED in Lean (MpycV.C01; value layer = the integer the shares encode; for ALL inputs in range and ALL values of '
               'the named randomness in the ranges the code draws it from; p prime, 2^(l+k+1) < p, k >= 1): sgn in its three modes '
               '([a<0], [a=0], sign a; on the wide range (-2^l, 2^l) so that comparisons of arbitrary l-bit operands are exact), '
               'incl. the opened value, the product-is-zero characterisation of the Toft comparison circuit and exactness of the '
               'field division by 2^l; lsb; _mod for every public 0 < b < 2^l incl. powers of two and 1 (result = a % b, floor '
               'semantics; the branch c == 0 -> c = b shown necessary); //, divmod via field division; is_zero_public for a nonzero '
               'random factor; trunc (floor or floor+1, exact on multiples); prod/all/any log-round trees; ** n (square-and-multiply '
               'and the 254 chain); if_else/if_swap/abs/sum/in_prod; min/max/min_max tournaments; matrix_prod incl. the symmetric '
               'A*A^T triangular indexing; and the composition theorem eval_correct: for every expression tree over all these '
               'operations whose intermediate values stay in l bits, protocol evaluation = Python-integer evaluation for every '
               'randomness.  gcd/lcm/gcdext/inverse (Bernstein-Yang divsteps): proved are the loop invariants (f odd, gcd(f,g) '
               'preserved, Bezout bookkeeping f = u*a + v*b), |f| = gcd once g = 0, gcd_partial/lcm_partial/gcdext_partial/inverse_partial '
               'UNDER the hypothesis that _iterations(l) divsteps terminate (Bernstein-Yang Thm 11.2, not proved), and that '
               'hypothesis (plus the range of the reduced-bit-length comparisons) for all l-bit inputs, l <= 5, as a kernel-'
               'evaluated FINITE TABLE.  VALIDATED ONLY (differential exploration of the real code against Python ints, not '
               'proved): termination of the divstep loop for l > 5, the final range correction of inverse(), the '
               'probabilistic equality test _is_zero [NO07] used for ==/!= when l/2 > sec_param (e.g. secint64 with k = 30; '
               'one-sided error 2^-k), negative exponents (field reciprocal), and the multi-party layer itself (that shares '
               'encode the value, resharing, output recombination: properties C11/C12/C14; here checked on every run by '
               'per-party agreement of all outputs for m = 1..5 (7), every t, PRSS on/off, and by the degree check of every '
               'recovered random sharing).  Hence level other, not proof.')
ASSUMPTIONS = ['value-layer abstraction: a secure integer is the field element all parties\' shares encode; mul + _reshare gives a '
               'degree-t sharing of the product, output recombines the secret from any t+1 shares (properties C11/C12/C14)',
               'p = field modulus is prime with 2^(l+k+1) < p and sec_param k >= 1 (read from the running code for every case: '
               'the Lean requests carry the real p)',
               'random values lie in the ranges the code draws them from (random_bits in {0,1}, signed bit in {1,-1}, r_divl < 2^k, '
               'lsb r < 2^(l+k-1), _randbelow < b, b*r_divb < 2^(k+l), trunc r_divf < 2^(k+l-f)): CHECKED on every recovered '
               'protocol instance, a violation is reported as a model/code mismatch',
               'is_zero_public: random factor nonzero in GF(p) (probability 1 - 1/p for large fields, ensured by the retry loop otherwise)',
               '_mod: the masked value a + 2^l - 2^l % b + b*r_divb - r_modb is nonnegative (fails only if r_divb <= 1 and b > 2^(l-2)+1: '
               'probability about 2b/2^(k+l))',
               'Bernstein-Yang Thm 11.2 (iteration count of divsteps) for l > 5',
               '== / != for l/2 > sec_param use the probabilistic test [NO07] with error probability 2^-sec_param per test',
               'CPython int semantics of //, %, ** and math.gcd/lcm, pow(a,-1,b) (the oracle)']
TRUSTED = ['harness/props/c01.py: program generator, interpreter on the real code, randomness recovery (Lagrange '
           'recombination of logged shares via harness/sharemon.py)', 'harness/secint_oracle.py: Python-int oracle']

LS = [4, 8, 16, 32, 64]
SCHED_MODES = ['fifo', 'random', 'starve', 'lazynet', 'eagernet']
CHUNKS = ['whole', 'mixed', 'mixed', 'bytes']


def configs(max_m):
    out = []
    for m in range(1, max_m + 1):
        for t in range(0, (m - 1) // 2 + 1):
            for np_ in (False, True):
                out.append((m, t, np_))
    return out


# ---------------------------------------------------------------------------------------------
# interpreter on the real code
# ---------------------------------------------------------------------------------------------
class _Ev:
    def __init__(self, mpc, secint, nodes):
        self.mpc, self.secint, self.nodes = mpc, secint, nodes
        self.memo = {}

    def sec(self, e):
        """value as a secure object (constants wrapped)"""
        v = self.ev(e)
        return self.secint(v) if isinstance(v, int) else v

    def ev(self, e):
        mpc, secint = self.mpc, self.secint
        k = e[0]
        if k == 'v':
            return self.nodes[e[1]]
        if k == 'c':
            return e[1] if e[2] == 'int' else secint(e[1])
        if k == 'u':
            op = e[1]
            a = self.sec(e[2])
            if op == 'neg':
                return -a
            if op == 'pos':
                return +a
            if op == 'abs':
                return abs(a)
            if op == 'sgn':
                return mpc.sgn(a)
            if op == 'lsb':
                return mpc.lsb(a) if e[2][0] == 'v' and e[2][1] % 2 else a % 2
            if op == 'not':
                return ~a
            raise KeyError(op)
        if k == 'b':
            op = e[1]
            a, b = self.ev(e[2]), self.ev(e[3])
            if isinstance(a, int) and isinstance(b, int):
                a = secint(a)
            if op == 'add':
                return a + b
            if op == 'sub':
                return a - b
            if op == 'mul':
                return a * b
            if op == 'lt':
                return a < b
            if op == 'le':
                return a <= b
            if op == 'eq':
                return a == b
            if op == 'ne':
                return a != b
            if op == 'ge':
                return a >= b
            if op == 'gt':
                return a > b
            if op == 'and':
                return a & b
            if op == 'or':
                return a | b
            if op == 'xor':
                return a ^ b
            raise KeyError(op)
        if k == 'd':
            op, b, how = e[1], e[3], e[4]
            a = self.sec(e[2])
            if how == 'divmod':
                q, r = divmod(a, b)
                return q if op == 'floordiv' else r
            if how == 'secb':
                return a // secint(b) if op == 'floordiv' else a % secint(b)
            if how == 'shift' and op == 'floordiv' and b & (b - 1) == 0:
                return a >> (b.bit_length() - 1)
            return a // b if op == 'floordiv' else a % b
        if k == 'p':
            return self.sec(e[1]) ** e[2]
        if k == 'ie':
            c = self.sec(e[1])
            x, y = self.ev(e[2]), self.ev(e[3])
            if isinstance(x, int) and isinstance(y, int):
                x = secint(x)
            return mpc.if_else(c, x, y) if (len(e) > 4 and e[4] == 'fn') else c.if_else(x, y)
        if k == 'is':
            key = ('is', repr(e[2:5]))
            if key not in self.memo:
                c = self.sec(e[2])
                self.memo[key] = mpc.if_swap(c, self.sec(e[3]), self.sec(e[4]))
            return self.memo[key][e[1]]
        if k == 'n':
            op = e[1]
            how = e[3] if len(e) > 3 else 'list'
            xs = [self.sec(x) for x in e[2]]
            if op == 'sum':
                return mpc.sum(xs) if how != 'gen' else mpc.sum(iter(xs))
            if op == 'prod':
                return mpc.prod(xs) if how != 'gen' else mpc.prod(iter(xs))
            if op == 'all':
                return mpc.all(xs)
            if op == 'any':
                return mpc.any(xs)
            if op == 'min':
                return mpc.min(*xs) if how == 'args' and len(xs) > 1 else mpc.min(xs)
            if op == 'max':
                return mpc.max(*xs) if how == 'args' and len(xs) > 1 else mpc.max(xs)
            if op in ('minmax0', 'minmax1'):
                key = ('mm', repr(e[2]))
                if key not in self.memo:
                    self.memo[key] = mpc.min_max(xs)
                return self.memo[key][0 if op == 'minmax0' else 1]
            raise KeyError(op)
        if k == 'ip':
            xs = [self.sec(x) for x in e[1]]
            if e[2] == 'alias':
                return mpc.in_prod(xs, xs)
            return mpc.in_prod(xs, [self.sec(y) for y in e[2]])
        if k == 'mp':
            _, n1, n, n2, tr, sym, i, j, A, B = e
            key = ('mp', repr((n1, n, n2, A, B)), tr, sym)
            if key not in self.memo:
                av = [self.sec(x) for x in A]
                Am = [av[r * n:(r + 1) * n] for r in range(n1)]
                if sym:
                    C = mpc.matrix_prod(Am, Am, True)
                else:
                    bv = [self.sec(x) for x in B]
                    Bm = [bv[r * n:(r + 1) * n] for r in range(n2)] if tr else [bv[r * n2:(r + 1) * n2] for r in range(n)]
                    C = mpc.matrix_prod(Am, Bm, bool(tr))
                self.memo[key] = C
            return self.memo[key][i][j]
        if k == 'g':
            op = e[1]
            a, b = self.sec(e[2]), self.sec(e[3])
            if op == 'gcd':
                return mpc.gcd(a, b)
            if op == 'lcm':
                return mpc.lcm(a, b)
            if op == 'inverse':
                return mpc.inverse(a, b)
            key = ('ge', repr(e[2:4]))
            if key not in self.memo:
                self.memo[key] = mpc.gcdext(a, b)
            return self.memo[key][int(op[-1])]
        raise KeyError(k)


def run_program(prog, cfg, seed=0, sched=('fifo', 'whole'), max_steps=1_500_000):
    """prog = {'l':, 'env': [...], 'senders': [...], 'roots': [E...]}; returns dict(outs=[per party list] | error=)"""
    m, t, no_prss = cfg
    l = prog['l']
    info = {}

    async def program(mpc):
        secint = mpc.SecInt(l)
        info['p'] = int(secint.field.modulus)
        info['k'] = int(mpc.options.sec_param)
        nodes = []
        for v, s in zip(prog['env'], prog['senders']):
            if s is None:
                nodes.append(secint(v))
            else:
                nodes.append(mpc.input(secint(v if mpc.pid == s % m else 0), senders=s % m))
        evr = _Ev(mpc, secint, nodes)
        outs = []
        secure = []
        for e in prog['roots']:
            if e[0] == 'zp':
                outs.append(('pub', mpc.is_zero_public(evr.sec(e[1]))))
            elif e[0] == 'eqp':
                outs.append(('pub', mpc.eq_public(evr.sec(e[1]), evr.ev(e[2]))))
            else:
                x = evr.sec(e)
                outs.append(('sec', len(secure)))
                secure.append(x)
        opened = await mpc.output(secure) if secure else []
        res = []
        for kind, x in outs:
            if kind == 'pub':
                res.append(int(bool(await x)))
            else:
                res.append(int(opened[x]))
        return res

    sch = Scheduler(seed, sched[0], chunk_mode=sched[1])
    # step budget (only a guard against livelock; a real deadlock is detected by quiescence): byte-wise delivery and
    # many parties need many more scheduler steps for the same program
    max_steps = max_steps * {'bytes': 6, 'mixed': 2}.get(sched[1], 1) * (1 + m // 3)
    try:
        net = SimNet(m, t, no_prss=no_prss, seed=seed, sched=sch, max_steps=max_steps)
        res = net.run(program)
    except simnet.Deadlock as exc:
        return {'error': 'Deadlock', 'msg': str(exc)[:300], 'p': info.get('p')}
    except simnet.PartyError as exc:
        return {'error': 'PartyError', 'msg': str(exc)[:300], 'p': info.get('p')}
    except Exception as exc:   # raised while building the expression at import level
        return {'error': type(exc).__name__, 'msg': str(exc)[:300], 'p': info.get('p')}
    return {'outs': res, 'p': info['p'], 'k': info['k']}


# ---------------------------------------------------------------------------------------------
# program generator (typed: 'int' / 'bit'; range-tracked against the oracle)
# ---------------------------------------------------------------------------------------------
def input_value(rng, l, small=False):
    lo, hi = -(1 << (l - 1)), (1 << (l - 1)) - 1
    if small:
        s = max(1, (l - 1) // 2 - 1)
        return rng.choice([0, 1, -1, 2, -2, 3, rng.randrange(-(1 << s), (1 << s) + 1)])
    r = rng.random()
    if r < 0.22:
        return rng.choice([lo, hi, lo + 1, hi - 1])
    if r < 0.40:
        return rng.choice([0, 1, -1, 2, -2])
    if r < 0.60:
        j = rng.randrange(0, l - 1)
        v = rng.choice([1, -1]) * ((1 << j) + rng.choice([-1, 0, 1]))
        return max(lo, min(hi, v))
    if r < 0.8:
        return rng.randrange(-8, 9) if l > 4 else rng.randrange(lo, hi + 1)
    return rng.randrange(lo, hi + 1)


INT_OPS = [('add', 5), ('sub', 5), ('mul', 6), ('neg', 2), ('pos', 1), ('abs', 3), ('sgn', 3), ('floordiv', 4), ('mod', 5),
           ('pow', 3), ('ie', 4), ('is', 3), ('sum', 3), ('prod', 3), ('min', 3), ('max', 3), ('minmax', 3), ('ip', 3),
           ('mp', 3), ('bit', 5)]
BIT_OPS = [('cmp', 10), ('lsb', 3), ('and', 2), ('or', 2), ('xor', 2), ('not', 2), ('all', 3), ('any', 3), ('bitie', 1)]
CMPS = ['lt', 'le', 'eq', 'ne', 'ge', 'gt']


def _wchoice(rng, table):
    tot = sum(w for _, w in table)
    x = rng.random() * tot
    for name, w in table:
        x -= w
        if x < 0:
            return name
    return table[-1][0]


class Gen:
    def __init__(self, rng, l, max_depth, in_range=True, gcd_ops=False):
        self.rng, self.l, self.max_depth, self.in_range, self.gcd_ops = rng, l, max_depth, in_range, gcd_ops
        self.lo, self.hi = -(1 << (l - 1)), (1 << (l - 1)) - 1
        n = rng.choice([2, 3, 3, 4, 5])
        self.env = [input_value(rng, l, small=(i >= 1 and rng.random() < 0.55)) for i in range(n)]
        self.senders = [None if rng.random() < 0.2 else rng.randrange(0, 7) for _ in range(n)]

    def fits(self, v):
        return self.lo <= v <= self.hi

    def ok(self, e):
        """all subterm values and hidden intermediates of e in range (or not required)"""
        try:
            vals = O.subvalues(e, self.env, [])
            if not self.in_range:
                return True
            for sub, v in vals:
                if not self.fits(v):
                    return False
                for h in O.hidden_intermediates(sub, self.env):
                    if not self.fits(h):
                        return False
            return True
        except (O.Undefined, ZeroDivisionError, OverflowError, ValueError):
            return False

    def leaf(self, typ, seclist=False):
        rng = self.rng
        if typ == 'bit':
            bits = [i for i, v in enumerate(self.env) if v in (0, 1)]
            if bits and rng.random() < 0.3:
                return ['v', rng.choice(bits)]
            return ['c', rng.choice([0, 1]), 'sec']
        if rng.random() < 0.7:
            return ['v', rng.randrange(len(self.env))]
        n = rng.choice([0, 1, -1, 2, 3, -3, 5, 7, self.hi, self.lo, rng.randrange(-6, 7)])
        if not self.fits(n):
            n = 1
        return ['c', n, 'sec' if seclist or rng.random() < 0.4 else 'int']

    def gen(self, depth, typ='int', seclist=False):
        """expression of the given type with height <= depth"""
        for _ in range(6):
            e = self._try(depth, typ, seclist)
            if e is not None and self.ok(e):
                return e
        return self.leaf(typ, seclist)

    def lst(self, depth, n, typ='int'):
        return [self.gen(depth, typ, seclist=True) for _ in range(n)]

    def pubdiv(self):
        b = self._pubdiv_pos()
        # negative public divisors (Python: the remainder takes the sign of the divisor; repo fix 6154ebc)
        return -b if self.rng.random() < 0.15 else b

    def _pubdiv_pos(self):
        rng, l = self.rng, self.l
        r = rng.random()
        if r < 0.3:
            return 1 << rng.randrange(0, max(1, l - 1))          # powers of two incl. 1, 2
        if r < 0.6:
            return rng.choice([3, 5, 6, 7, 10, 12])
        if r < 0.7 and l > 4:
            return (1 << (l - 2)) + rng.choice([-1, 1])
        return rng.randrange(1, max(2, 1 << (l - 2)))

    def _try(self, depth, typ, seclist):
        rng = self.rng
        if depth <= 0 or rng.random() < 0.12:
            return self.leaf(typ, seclist)
        d = depth - 1
        if typ == 'bit':
            op = _wchoice(rng, BIT_OPS)
            if op == 'cmp':
                return ['b', rng.choice(CMPS), self.gen(d), self.gen(d)]
            if op == 'lsb':
                return ['u', 'lsb', self.gen(d, seclist=True)]
            if op in ('and', 'or', 'xor'):
                return ['b', op, self.gen(d, 'bit', True), self.gen(d, 'bit')]
            if op == 'not':
                return ['u', 'not', self.gen(d, 'bit', True)]
            if op in ('all', 'any'):
                return ['n', op, self.lst(d, rng.choice([0, 1, 2, 3, 4, 5]), 'bit'), 'list']
            return ['ie', self.gen(d, 'bit', True), self.gen(d, 'bit'), self.gen(d, 'bit'), rng.choice(['fn', 'meth'])]
        op = _wchoice(rng, INT_OPS + ([('g', 2)] if self.gcd_ops else []))
        if op in ('add', 'sub', 'mul'):
            return ['b', op, self.gen(d), self.gen(d)]
        if op in ('neg', 'pos', 'abs', 'sgn'):
            return ['u', op, self.gen(d, seclist=True)]
        if op in ('floordiv', 'mod'):
            return ['d', op, self.gen(d, seclist=True), self.pubdiv(), rng.choice(['op', 'op', 'divmod', 'secb', 'shift'])]
        if op == 'pow':
            return ['p', self.gen(d, seclist=True), rng.choice([0, 1, 2, 2, 3, 4, 5, 6, 7, 10, 254] if self.l > 8 else [0, 1, 2, 3, 5])]
        if op == 'ie':
            return ['ie', self.gen(d, 'bit', True), self.gen(d), self.gen(d), rng.choice(['fn', 'meth'])]
        if op == 'is':
            return ['is', rng.choice([0, 1]), self.gen(d, 'bit', True), self.gen(d, seclist=True), self.gen(d, seclist=True)]
        if op in ('sum', 'prod'):
            return ['n', op, self.lst(d, rng.choice([0, 1, 2, 3, 4, 5, 6]) if op == 'prod' else rng.choice([1, 2, 3, 5])),
                    rng.choice(['list', 'gen'])]
        if op in ('min', 'max'):
            return ['n', op, self.lst(d, rng.choice([1, 2, 3, 4, 5])), rng.choice(['list', 'args'])]
        if op == 'minmax':
            return ['n', rng.choice(['minmax0', 'minmax1']), self.lst(d, rng.choice([1, 2, 3, 4, 5, 6])), 'list']
        if op == 'ip':
            n = rng.choice([1, 2, 3, 4])
            xs = self.lst(d, n)
            return ['ip', xs, 'alias' if rng.random() < 0.2 else self.lst(d, n)]
        if op == 'mp':
            n1, n, n2 = rng.choice([(1, 1, 1), (2, 2, 2), (2, 1, 2), (1, 3, 2), (3, 2, 3), (2, 3, 1), (3, 1, 3)])
            sym = rng.random() < 0.4
            tr = sym or rng.random() < 0.4
            if sym:
                n2 = n1
            A = self.lst(max(0, d - 1), n1 * n)
            B = [] if sym else self.lst(max(0, d - 1), n * n2)
            return ['mp', n1, n, n2, int(tr), int(sym), rng.randrange(n1), rng.randrange(n2), A, B]
        if op == 'g':
            gop = rng.choice(['gcd', 'lcm', 'gcdext0', 'inverse'])
            return ['g', gop, self.gen(0, seclist=True), self.gen(0, seclist=True)]
        if op == 'bit':
            return self.gen(depth, 'bit', seclist)
        return None

    def program(self):
        rng = self.rng
        roots = []
        for _ in range(rng.choice([1, 1, 2, 3])):
            e = self.gen(self.max_depth, rng.choice(['int', 'int', 'int', 'bit']), seclist=True)
            if rng.random() < 0.08:
                e = ['zp', e] if rng.random() < 0.5 else ['eqp', e, self.gen(1, seclist=False)]
                if not self.ok(e):
                    e = ['zp', self.leaf('int', True)]
            roots.append(e)
        return {'l': self.l, 'env': self.env, 'senders': self.senders, 'roots': roots, 'in_range': self.in_range}


def node_count(e):
    if not isinstance(e, list):
        return 0
    return 1 + sum(node_count(x) for x in e if isinstance(x, list))


def ops_of(e, out):
    """operator histogram keys of a program tree"""
    if not isinstance(e, list) or not e:
        return out
    k = e[0]
    if isinstance(k, str):
        if k in ('u', 'b', 'n', 'g'):
            out.append(f'{k}:{e[1]}')
        elif k == 'd':
            out.append(f'd:{e[1]}:{e[4]}' + (':pow2' if e[3] & (e[3] - 1) == 0 else ''))
        elif k == 'c':
            out.append(f'c:{e[2]}')
        elif k == 'mp':
            out.append('mp:' + ('sym' if e[5] else 'tr' if e[4] else 'plain'))
        elif k == 'ip':
            out.append('ip' + (':alias' if e[2] == 'alias' else ''))
        elif k == 'p':
            out.append(f'p:{e[2]}' if e[2] in (0, 1, 254) else 'p:n')
        else:
            out.append(k)
    for x in e:
        if isinstance(x, list):
            ops_of(x, out)
    return out


NONTRIVIAL = {'b:mul', 'b:lt', 'b:le', 'b:eq', 'b:ne', 'b:ge', 'b:gt', 'u:abs', 'u:sgn', 'u:lsb', 'ie', 'is', 'ip', 'zp', 'eqp'}


def nontrivial(ops):
    return any(o in NONTRIVIAL or o.startswith(('d:', 'n:', 'mp', 'g:', 'p:', 'b:and', 'b:or', 'b:xor')) for o in ops)


# ---------------------------------------------------------------------------------------------
# randomness logging and recovery for the unit correspondences
# ---------------------------------------------------------------------------------------------
_LOG = None
_WATCH = ('sgn', 'lsb', '_mod', 'is_zero_public', 'trunc')
_SKIP = ('_random', 'random_bit', 'wrapper', 'typed_asyncoro')


def _caller():
    """name of the nearest protocol frame of interest above the patched method"""
    f = sys._getframe(2)
    for _ in range(6):
        if f is None:
            return None
        name = f.f_code.co_name
        if name in _WATCH:
            return name
        if name not in _SKIP:
            return None
        f = f.f_back
    return None


def _install_logging():
    R = rtmod.Runtime
    if getattr(R, '_secint_logging', False):
        return
    o_rb, o_rs, o_out, o_izp = R.random_bits, R._randoms, R.output, R.is_zero_public
    import mpyc.random as mrandom
    o_rbelow = mrandom._randbelow

    def random_bits(self, sftype, n, signed=False):
        res = o_rb(self, sftype, n, signed)
        if _LOG is not None:
            c = _caller()
            if c:
                _LOG[self.pid].append((c, 'sbits' if signed else 'bits', res))
        return res

    def _randoms(self, sftype, n, bound=None):
        res = o_rs(self, sftype, n, bound)
        if _LOG is not None:
            c = _caller()
            if c:
                _LOG[self.pid].append((c, 'rand', res))
        return res

    def output(self, x, *args, **kwargs):
        res = o_out(self, x, *args, **kwargs)
        if _LOG is not None:
            c = _caller()
            if c:
                _LOG[self.pid].append((c, 'open', res))
        return res

    def is_zero_public(self, a):
        res = o_izp(self, a)
        if _LOG is not None:
            _LOG[self.pid].append(('is_zero_public', 'result', res))
        return res

    def _randbelow(sectype, n, bits=False):
        res = o_rbelow(sectype, n, bits)
        if _LOG is not None:
            c = _caller()
            if c:
                _LOG[simnet.CUR.get()].append((c, 'below', res))
        return res

    R.random_bits, R._randoms, R.output, R.is_zero_public = random_bits, _randoms, output, is_zero_public
    mrandom._randbelow = _randbelow
    R._secint_logging = True


def _resolve(obj):
    """logged object -> list of ints (field residues / plain values) or None if still pending"""
    import asyncio
    try:
        if isinstance(obj, asyncio.Future):
            if not obj.done():
                return None
            obj = obj.result()
        if not isinstance(obj, (list, tuple)):
            obj = [obj]
        out = []
        for a in obj:
            if hasattr(a, 'share'):
                a = a.share
                if isinstance(a, asyncio.Future):
                    if not a.done():
                        return None
                    a = a.result()
            out.append(int(a.value) if hasattr(a, 'value') else int(a))
        return out
    except Exception:
        return None


def recombine(cols, t, p):
    """cols[pid] = list of residues; -> list of secrets, None if some sharing is not of degree <= t"""
    n = len(cols[0])
    if any(len(c) != n for c in cols):
        return None
    out = []
    for j in range(n):
        ok, s = sharemon.consistent([c[j] for c in cols], t, p)
        if not ok:
            return None
        out.append(s)
    return out


def signed(v, p):
    return v - p if v > p // 2 else v


def run_unit(job):
    """one protocol instance on the real code with logging.
    job = {'kind': 'sgn'|'lsb'|'mod'|'izp'|'trunc', 'l':, 'a':, 'cfg':, 'seed':, ...}
    returns dict with the recovered randomness, the opened values and the result"""
    global _LOG
    _install_logging()
    m, t, no_prss = job['cfg']
    l, a, kind = job['l'], job['a'], job['kind']
    info = {}

    async def program(mpc):
        secint = mpc.SecInt(l)
        info['p'] = int(secint.field.modulus)
        info['k'] = int(mpc.options.sec_param)
        s = job.get('sender', 0)
        x = secint(a) if s is None else mpc.input(secint(a if mpc.pid == s % m else 0), senders=s % m)
        if kind == 'sgn':
            kw = {}
            if job.get('lred'):
                kw['l'] = job['lred']
            z = mpc.sgn(x, LT=job['mode'] == 'lt', EQ=job['mode'] == 'eq', **kw)
        elif kind == 'lsb':
            z = mpc.lsb(x)
        elif kind == 'mod':
            z = mpc._mod(x, job['b'])
        elif kind == 'trunc':
            z = mpc.trunc(x, f=job['d'])
        elif kind == 'izp':
            return int(bool(await mpc.is_zero_public(x)))
        return int(await mpc.output(z))

    _LOG = {i: [] for i in range(m)}
    try:
        net = SimNet(m, t, no_prss=no_prss, seed=job['seed'], sched=Scheduler(job['seed'], job.get('sched', 'fifo'),
                                                                          chunk_mode=job.get('chunk', 'whole')))
        res = net.run(program)
        log, _LOG = _LOG, None
    except Exception as exc:
        _LOG = None
        return {'job': job, 'error': f'{type(exc).__name__}: {str(exc)[:300]}'}
    p = info['p']
    out = {'job': job, 'p': p, 'k': info['k'], 'results': res}
    if any(r != res[0] for r in res):
        out['error'] = f'parties disagree: {res}'
        return out
    # group the entries of every party
    per = []
    for pid in range(m):
        ents = []
        for c, what, obj in log[pid]:
            v = _resolve(obj)
            if v is None:
                out['error'] = f'unresolved log entry {c}/{what} at party {pid}'
                return out
            ents.append((c, what, v))
        per.append(ents)
    shape = [(c, w, len(v)) for c, w, v in per[0]]
    if any([(c, w, len(v)) for c, w, v in e] != shape for e in per[1:]):
        out['error'] = 'log shapes differ between parties'
        return out
    rec = {}
    for idx, (c, what, _) in enumerate(per[0]):
        cols = [per[pid][idx][2] for pid in range(m)]
        if what in ('open', 'result'):
            if any(col != cols[0] for col in cols):
                out['error'] = f'opened values differ between parties in {c}'
                return out
            val = cols[0]
        else:
            val = recombine(cols, t, p)
            if val is None:
                out['error'] = f'shares of {what} in {c} are not a degree-{t} sharing'
                out['inconsistent'] = True
                return out
        rec.setdefault(c, []).append((what, val))
    out['rec'] = rec
    return out


def bits_str(bs):
    return ''.join(str(b) for b in bs) if bs else '-'


def unit_lines(r):
    """-> (lean request, implementation answer, [range problems], expected result by the maths) or None"""
    job, rec, p, k = r['job'], r['rec'], r['p'], r['k']
    kind, l, a = job['kind'], job['l'], job['a']
    res = r['results'][0]
    probs = []

    def last(c, what, n=-1):
        xs = [v for w, v in rec.get(c, []) if w == what]
        return xs[n] if xs else None

    def izp_parts():
        rz = last('is_zero_public', 'rand')
        bo = last('is_zero_public', 'open')
        g = last('is_zero_public', 'result')
        if rz is None or bo is None or g is None:
            return None
        if rz[0] % p == 0:
            probs.append('is_zero_public used r = 0')
        return rz[0], bo[0], int(bool(g[0]))

    if kind == 'sgn':
        ll = job.get('lred') or l
        bits, rd, c = last('sgn', 'bits', 0), last('sgn', 'rand'), last('sgn', 'open')
        if bits is None or rd is None or c is None:
            return None
        if any(b not in (0, 1) for b in bits) or len(bits) != ll:
            probs.append(f'random_bits returned non-bits or wrong count: {bits[:8]}')
        if not 0 <= rd[0] < (1 << k):
            probs.append(f'r_divl = {rd[0]} outside [0, 2^k)')
        mode = job['mode']
        exp = {'lt': int(a < 0), 'eq': int(a == 0), 'full': O.sign(a)}[mode]
        if mode == 'eq':
            return (f'sgn {p} {ll} {a} {bits_str(bits)} {rd[0]} 1 1 eq', f'{c[0]} 0 0 {res}', probs, exp)
        s = last('sgn', 'sbits')
        zp = izp_parts()
        if s is None or zp is None:
            return None
        ss = signed(s[0], p)
        if ss not in (1, -1):
            probs.append(f's_sign = {ss}')
        return (f'sgn {p} {ll} {a} {bits_str(bits)} {rd[0]} {ss} {zp[0]} {mode}', f'{c[0]} {zp[1]} {zp[2]} {res}', probs, exp)
    if kind == 'lsb':
        b, rr, c = last('lsb', 'bits'), last('lsb', 'rand'), last('lsb', 'open')
        if b is None or rr is None or c is None:
            return None
        if b[0] not in (0, 1):
            probs.append(f'random bit = {b[0]}')
        if not 0 <= rr[0] < (1 << (l + k - 1)):
            probs.append(f'r = {rr[0]} outside [0, 2^(l+k-1))')
        return (f'lsb {p} {l} {a} {b[0]} {rr[0]}', f'{c[0]} {res}', probs, a % 2)
    if kind == 'mod':
        bb = job['b']
        bits, rd, c, s = last('_mod', 'below'), last('_mod', 'rand'), last('_mod', 'open'), last('_mod', 'sbits')
        zp = izp_parts()
        if bits is None or rd is None or c is None or s is None or zp is None:
            return None
        R = sum(b << i for i, b in enumerate(bits))
        if any(b not in (0, 1) for b in bits) or len(bits) != (bb - 1).bit_length() or not R < bb:
            probs.append(f'_randbelow bits {bits} not a number below {bb}')
        if not (0 <= rd[0] and bb * rd[0] < (1 << (k + l))):
            probs.append(f'r_divb = {rd[0]}: b*r_divb outside [0, 2^(k+l))')
        ss = signed(s[0], p)
        if ss not in (1, -1):
            probs.append(f's_sign = {ss}')
        return (f'mod {p} {l} {bb} {a} {bits_str(bits)} {rd[0]} {ss} {zp[0]}', f'{c[0]} {zp[1]} {zp[2]} {res}', probs, a % bb)
    if kind == 'izp':
        zp = izp_parts()
        if zp is None:
            return None
        return (f'izp {p} {a} {zp[0]}', f'{zp[1]} {res}', probs, int(a == 0))
    if kind == 'trunc':
        d = job['d']
        bits, rd, c = last('trunc', 'bits'), last('trunc', 'rand'), last('trunc', 'open')
        if bits is None or rd is None or c is None:
            return None
        if any(b not in (0, 1) for b in bits) or len(bits) != d:
            probs.append(f'random bits {bits}')
        if not 0 <= rd[0] < (1 << (k + l - d)):
            probs.append(f'r_divf = {rd[0]} outside [0, 2^(k+l-d))')
        return (f'trunc {p} {d} {l} {a} {bits_str(bits)} {rd[0]}', f'{c[0]} {res}', probs, None)
    return None


def pick_model(kind, ans):
    """model answer restricted to what is observable on the real code"""
    if kind == 'mod':
        t = ans.split()
        return ' '.join([t[0], t[1], t[2], t[4]]) if len(t) == 5 else ans
    return ans


def unit_jobs(ctx, cfgs):
    rng = ctx.subrng('units')
    jobs = []
    n_per = ctx.scale(3, 8)
    for ci, cfg in enumerate(cfgs):
        for l in LS:
            for i in range(n_per):
                kind = ['sgn', 'sgn', 'sgn', 'lsb', 'mod', 'mod', 'izp', 'trunc', 'sgnred'][(i + ci + l) % 9] if n_per < 9 else \
                    ['sgn', 'sgn', 'sgn', 'lsb', 'mod', 'mod', 'izp', 'trunc', 'sgnred'][i % 9]
                job = {'kind': kind, 'l': l, 'cfg': list(cfg), 'seed': rng.randrange(1 << 30),
                       'sender': rng.choice([None, 0, 1, 2, 3]), 'sched': rng.choice(SCHED_MODES), 'chunk': rng.choice(CHUNKS)}
                a = input_value(rng, l)
                if kind == 'sgn':
                    job['mode'] = rng.choice(['lt', 'eq', 'full'])
                    if rng.random() < 0.3:      # differences of two l-bit numbers: wide range (-2^l, 2^l)
                        a = input_value(rng, l) - input_value(rng, l)
                    if rng.random() < 0.15:
                        a = 0
                elif kind == 'sgnred':
                    job['kind'] = 'sgn'
                    job['mode'] = 'lt'
                    job['lred'] = rng.randrange(1, l + 1)
                    a = rng.randrange(-(1 << (job['lred'] - 1)), 1 << (job['lred'] - 1))
                elif kind == 'mod':
                    r = rng.random()
                    if r < 0.4:
                        job['b'] = 1 << rng.randrange(0, l - 1) if rng.random() < 0.8 else 1
                    elif r < 0.7:
                        job['b'] = rng.choice([3, 5, 6, 7])
                    else:
                        job['b'] = rng.randrange(1, 1 << (l - 1))
                    if job['b'] == 2:
                        job['b'] = 4 if l > 4 else 3
                    if rng.random() < 0.35:      # a multiple of b (the `c == 0 -> c = b` branch needs a = r mod b)
                        a = (a // job['b']) * job['b']
                        if not -(1 << (l - 1)) <= a < (1 << (l - 1)):
                            a = 0
                elif kind == 'izp':
                    if rng.random() < 0.5:
                        a = 0
                elif kind == 'trunc':
                    job['d'] = rng.randrange(1, l)
                    if rng.random() < 0.4:
                        a = (a >> job['d']) << job['d']
                job['a'] = a
                jobs.append(job)
    return jobs


# ---------------------------------------------------------------------------------------------
# structural correspondences: field-level results of the deterministic building blocks
# ---------------------------------------------------------------------------------------------
def _il(xs):
    return ','.join(map(str, xs)) if xs else '-'


def _ml(M):
    return ';'.join(_il(r) for r in M) if M else '-'


def struct_items(rng, l):
    """list of (kind, args) — requests are formed once p is known"""
    lo, hi = -(1 << (l - 1)), (1 << (l - 1)) - 1
    sm = lambda: rng.randrange(-9, 10)
    anyv = lambda: input_value(rng, l)
    items = []
    for n in (0, 1, 2, 3, 4, 5, 7, 8, 9):
        if rng.random() < 0.6:
            items.append(('prod', [anyv() if rng.random() < 0.5 else sm() for _ in range(n)]))
        if rng.random() < 0.4:
            items.append(('all', [rng.choice([0, 1, 1, 1]) for _ in range(n)]))
        if rng.random() < 0.4:
            items.append(('any', [rng.choice([0, 0, 0, 1]) for _ in range(n)]))
    items.append(('sum', [anyv() for _ in range(rng.randrange(1, 6))]))
    n = rng.randrange(1, 5)
    items.append(('inprod', [anyv() for _ in range(n)], [sm() for _ in range(n)]))
    for e in rng.sample([0, 1, 2, 3, 4, 5, 6, 7, 8, 11, 12, 13, 16, 31, 254, 255], 5):
        items.append(('pow', rng.choice([sm(), anyv()]), e))
    items.append(('pown', rng.choice([1, -1, 2, 3, -7, hi]), rng.choice([1, 2, 3])))
    items.append(('ifelse', rng.choice([0, 1]), anyv(), anyv()))
    items.append(('ifswap', rng.choice([0, 1]), anyv(), anyv()))
    items.append(('abs', anyv()))
    n1, n = rng.choice([(1, 1), (2, 2), (3, 2), (2, 3), (4, 1), (3, 3)])
    items.append(('matsym', [[sm() for _ in range(n)] for _ in range(n1)]))
    n1, n, n2 = rng.choice([(1, 1, 1), (2, 2, 2), (2, 3, 1), (1, 2, 3), (3, 1, 2)])
    tr = rng.random() < 0.5
    A = [[sm() for _ in range(n)] for _ in range(n1)]
    B = [[sm() for _ in range(n)] for _ in range(n2)] if tr else [[sm() for _ in range(n2)] for _ in range(n)]
    items.append(('matprod', int(tr), A, B))
    xs = [anyv() for _ in range(rng.randrange(1, 8))]
    items.append((rng.choice(['min', 'max', 'minmax']), xs))
    b = rng.choice([1, 2, 3, 4, 5, 7, 8, max(1, hi // 3)])
    items.append(('divmod', anyv(), b))
    return items


def run_struct(job):
    cfg, l, seed = job['cfg'], job['l'], job['seed']
    import random
    rng = random.Random(f'struct:{seed}:{l}')
    items = struct_items(rng, l)
    info = {}

    async def program(mpc):
        secint = mpc.SecInt(l)
        info['p'] = int(secint.field.modulus)
        m = len(mpc.parties)
        cnt = [0]

        def S(v):
            cnt[0] += 1
            if cnt[0] % 3 == 0:
                return secint(v)
            s = cnt[0] % m
            return mpc.input(secint(v if mpc.pid == s else 0), senders=s)
        outs = []
        for it in items:
            k = it[0]
            if k == 'prod':
                r = mpc.prod([S(v) for v in it[1]])
                outs.append([r if not isinstance(r, int) else secint(r)])
            elif k == 'all':
                r = mpc.all([S(v) for v in it[1]])
                outs.append([r if not isinstance(r, int) else secint(r)])
            elif k == 'any':
                r = mpc.any([S(v) for v in it[1]])
                outs.append([r if not isinstance(r, int) else secint(r)])
            elif k == 'sum':
                outs.append([mpc.sum([S(v) for v in it[1]])])
            elif k == 'inprod':
                outs.append([mpc.in_prod([S(v) for v in it[1]], [S(v) for v in it[2]])])
            elif k == 'pow':
                outs.append([S(it[1]) ** it[2]])
            elif k == 'pown':
                outs.append([S(it[1]) ** -it[2]])
            elif k == 'ifelse':
                outs.append([mpc.if_else(S(it[1]), S(it[2]), S(it[3]))])
            elif k == 'ifswap':
                outs.append(list(mpc.if_swap(S(it[1]), S(it[2]), S(it[3]))))
            elif k == 'abs':
                outs.append([abs(S(it[1]))])
            elif k == 'matsym':
                A = [[S(v) for v in r] for r in it[1]]
                outs.append([c for r in mpc.matrix_prod(A, A, True) for c in r])
            elif k == 'matprod':
                A = [[S(v) for v in r] for r in it[2]]
                B = [[S(v) for v in r] for r in it[3]]
                outs.append([c for r in mpc.matrix_prod(A, B, bool(it[1])) for c in r])
            elif k == 'min':
                outs.append([mpc.min([S(v) for v in it[1]])])
            elif k == 'max':
                outs.append([mpc.max([S(v) for v in it[1]])])
            elif k == 'minmax':
                outs.append(list(mpc.min_max([S(v) for v in it[1]])))
            elif k == 'divmod':
                outs.append(list(divmod(S(it[1]), it[2])))
        flat = [x for o in outs for x in o]
        vals = await mpc.output(flat)
        res, pos = [], 0
        for o in outs:
            res.append([int(v) for v in vals[pos:pos + len(o)]])
            pos += len(o)
        return res

    m, t, np_ = cfg
    try:
        net = SimNet(m, t, no_prss=np_, seed=seed, sched=Scheduler(seed, job.get('sched', 'fifo'), chunk_mode=job.get('chunk', 'whole')))
        res = net.run(program)
    except Exception as exc:
        return {'job': job, 'error': f'{type(exc).__name__}: {str(exc)[:300]}'}
    if any(r != res[0] for r in res):
        return {'job': job, 'error': 'parties disagree on opened values', 'results': res}
    p = info['p']
    pairs = []
    for it, r in zip(items, res[0]):
        k = it[0]
        if k in ('prod', 'all', 'any', 'sum'):
            pairs.append((f'{k} {p} {_il(it[1])}', str(r[0]), it))
        elif k == 'inprod':
            pairs.append((f'inprod {p} {_il(it[1])} {_il(it[2])}', str(r[0]), it))
        elif k in ('pow', 'pown'):
            pairs.append((f'{k} {p} {it[1]} {it[2]}', str(r[0]), it))
        elif k == 'ifelse':
            pairs.append((f'ifelse {p} {it[1]} {it[2]} {it[3]}', str(r[0]), it))
        elif k == 'ifswap':
            pairs.append((f'ifswap {p} {it[1]} {it[2]} {it[3]}', f'{r[0]} {r[1]}', it))
        elif k == 'abs':
            pairs.append((f'abs {p} {it[1]} {int(it[1] < 0)}', str(r[0]), it))
        elif k == 'matsym':
            n1 = len(it[1])
            pairs.append((f'matsym {p} {_ml(it[1])}', _ml([r[i * n1:(i + 1) * n1] for i in range(n1)]), it))
        elif k == 'matprod':
            n1 = len(it[2])
            n2 = len(r) // n1
            pairs.append((f'matprod {p} {it[1]} {_ml(it[2])} {_ml(it[3])}', _ml([r[i * n2:(i + 1) * n2] for i in range(n1)]), it))
        elif k in ('min', 'max'):
            pairs.append((f'{k} {_il(it[1])}', str(r[0]), it))
        elif k == 'minmax':
            pairs.append((f'minmax {_il(it[1])}', f'{r[0]} {r[1]}', it))
        elif k == 'divmod':
            pairs.append((f'divmod {p} {it[1]} {it[2]} {r[1]}', f'{r[0]} {r[1]}', it))
    return {'job': job, 'p': p, 'pairs': pairs}


def struct_oracle(it, impl, p, l):
    """independent expectation for one structural item (None = no integer meaning / field-level only)"""
    k = it[0]
    inr = lambda v: -(1 << (l - 1)) <= v < (1 << (l - 1))
    fld = lambda v: signed(v % p, p)
    if k == 'prod':
        return str(fld(math.prod(it[1])))
    if k == 'all':
        return str(int(all(it[1])))
    if k == 'any':
        return str(int(any(it[1])))
    if k == 'sum':
        return str(fld(sum(it[1])))
    if k == 'inprod':
        return str(fld(sum(x * y for x, y in zip(it[1], it[2]))))
    if k == 'pow':
        return str(fld(it[1] ** it[2]))
    if k == 'pown':
        return str(fld(pow(it[1], -it[2], p)))
    if k == 'ifelse':
        return str(it[2] if it[1] else it[3])
    if k == 'ifswap':
        return f'{it[3]} {it[2]}' if it[1] else f'{it[2]} {it[3]}'
    if k == 'abs':
        return str(abs(it[1]))
    if k == 'matsym':
        A = it[1]
        return _ml([[fld(sum(x * y for x, y in zip(A[i], A[j]))) for j in range(len(A))] for i in range(len(A))])
    if k == 'matprod':
        tr, A, B = it[1], it[2], it[3]
        Bt = B if tr else [list(c) for c in zip(*B)]
        return _ml([[fld(sum(x * y for x, y in zip(ra, rb))) for rb in Bt] for ra in A])
    if k == 'min':
        return str(min(it[1]))
    if k == 'max':
        return str(max(it[1]))
    if k == 'minmax':
        return f'{min(it[1])} {max(it[1])}'
    if k == 'divmod':
        q, r = divmod(it[1], it[2])
        return f'{q} {r}'
    return None


# ---------------------------------------------------------------------------------------------
# gcd family: exhaustive small l on m = 1, samples on m = 3
# ---------------------------------------------------------------------------------------------
def run_gcd(job):
    cfg, l, pairs, seed = job['cfg'], job['l'], job['pairs'], job['seed']

    async def program(mpc):
        secint = mpc.SecInt(l)
        out = []
        for a, b in pairs:
            x, y = secint(a), secint(b)
            if job.get('shared'):
                x, y = mpc.input([secint(a), secint(b)], senders=0)
            if job.get('only_inverse'):
                out.append([int(v) for v in await mpc.output([mpc.inverse(x, y)])])
                continue
            r = [mpc.gcd(x, y)] + list(mpc.gcdext(x, y))
            if lcm_included(a, b, l):
                r.append(mpc.lcm(x, y))          # also when the lcm needs up to 2l bits (it fits the field for l <= 16)
            if a >= 0 and b > 0 and math.gcd(a, b) == 1:
                r.append(mpc.inverse(x, y))
            out.append([int(v) for v in await mpc.output(r)])
        return out

    m, t, np_ = cfg
    try:
        net = SimNet(m, t, no_prss=np_, seed=seed, max_steps=20_000_000)
        res = net.run(program)
    except Exception as exc:
        return {'job': job, 'error': f'{type(exc).__name__}: {str(exc)[:300]}'}
    if any(r != res[0] for r in res):
        return {'job': job, 'error': 'parties disagree on opened values'}
    return {'job': job, 'results': res[0]}


def O_fits(v, l):
    return -(1 << (l - 1)) <= v < (1 << (l - 1))


# ---------------------------------------------------------------------------------------------
# checking one program run against the oracle; shrinking
# ---------------------------------------------------------------------------------------------
def expected(prog):
    try:
        return [O.ev(e, prog['env']) for e in prog['roots']]
    except O.Undefined:
        return None


def check_run(prog, res):
    """-> None | (kind, message)"""
    if 'error' in res:
        return ('crash', f"program did not complete: {res['error']}: {res.get('msg', '')}")
    outs = res['outs']
    if any(o != outs[0] for o in outs):
        return ('disagree', f'parties received different outputs: {outs}')
    if prog.get('in_range', True):
        exp = expected(prog)
        if exp is not None:
            for i, (e, x, y) in enumerate(zip(prog['roots'], exp, outs[0])):
                if e[0] == 'g' and e[1].startswith('gcdext') and e[1] != 'gcdext0':
                    continue
                if e[0] == 'g' and e[1] == 'gcdext0':
                    x = math.gcd(O.ev(e[2], prog['env']), O.ev(e[3], prog['env']))
                if x != y:
                    return ('wrong', f'output {i} is {y}, Python integer arithmetic gives {x}')
    return None


def subterms(e, out):
    if isinstance(e, list) and e and isinstance(e[0], str):
        if e[0] not in ('c',):
            out.append(e)
        for x in e[1:]:
            if isinstance(x, list):
                if x and isinstance(x[0], str):
                    subterms(x, out)
                else:
                    for y in x:
                        subterms(y, out)
    return out


def shrink(prog, cfg, seed, sched, budget=24):
    """smaller program that still fails (same configuration / seed / schedule)"""
    def fails(p):
        return check_run(p, run_program(p, cfg, seed, sched)) is not None
    best = prog
    # single root
    if len(best['roots']) > 1:
        for e in best['roots']:
            cand = dict(best, roots=[e])
            budget -= 1
            if fails(cand):
                best = cand
                break
    changed = True
    while changed and budget > 0:
        changed = False
        root = best['roots'][0]
        subs = [s for s in subterms(root, []) if s is not root and s[0] not in ('zp', 'eqp')]
        subs.sort(key=node_count)
        for s in subs:
            if budget <= 0:
                break
            cand = dict(best, roots=[s])
            if not Gen_ok(cand):
                continue
            budget -= 1
            if fails(cand):
                best, changed = cand, True
                break
    # simpler inputs
    for i in range(len(best['env'])):
        for v in (0, 1, -1):
            if budget <= 0 or best['env'][i] == v:
                continue
            env = list(best['env'])
            env[i] = v
            cand = dict(best, env=env)
            if not Gen_ok(cand):
                continue
            budget -= 1
            if fails(cand):
                best = cand
                break
    return best


def Gen_ok(prog):
    """in-range requirement of a candidate (only for programs of the in-range stream)"""
    if not prog.get('in_range', True):
        return True
    l = prog['l']
    try:
        for e in prog['roots']:
            for sub, v in O.subvalues(e, prog['env'], []):
                if not O_fits(v, l) or any(not O_fits(h, l) for h in O.hidden_intermediates(sub, prog['env'])):
                    return False
        return True
    except (O.Undefined, ZeroDivisionError, IndexError):
        return False


# ---------------------------------------------------------------------------------------------
# exploration in worker processes
# ---------------------------------------------------------------------------------------------
_SHRUNK = [0]
_FAILED = [0]


def _job(job):
    import random
    kind = job['type']
    if _FAILED[0] >= 6:
        # this worker has already found several failing cases: the verdict is settled, do not burn the budget
        return {'type': 'skipped'}
    if kind == 'prog':
        rng = random.Random(f"{job['seed']}:{job['key']}")
        if job.get('prog') is not None:
            prog = job['prog']
        else:
            g = Gen(rng, job['l'], job['depth'], in_range=job['in_range'], gcd_ops=job.get('gcd_ops', False))
            prog = g.program()
        runs = []
        for cfg, sched in job['runs']:
            seed = rng.randrange(1 << 30)
            res = run_program(prog, tuple(cfg), seed, tuple(sched))
            bad = check_run(prog, res)
            if bad is not None and res.get('error') == 'Deadlock' and res.get('msg', '').startswith('budget'):
                # step budget exhausted (no quiescence): inconclusive under this schedule; decide on the reference schedule
                res_ref = run_program(prog, tuple(cfg), seed, ('fifo', 'whole'), max_steps=6_000_000)
                if check_run(prog, res_ref) is None:
                    res, bad = dict(res_ref, budget_inconclusive=True), None
            rec = {'cfg': cfg, 'sched': sched, 'seed': seed, 'res': res, 'bad': bad}
            if bad is not None:
                _FAILED[0] += 1
            if bad is not None and job.get('shrink', True) and _SHRUNK[0] < 3:
                _SHRUNK[0] += 1            # per worker process: shrink only the first few failures
                small = shrink(prog, tuple(cfg), seed, tuple(sched))
                res2 = run_program(small, tuple(cfg), seed, tuple(sched))
                bad2 = check_run(small, res2)
                if bad2 is not None:
                    rec['shrunk'] = {'prog': small, 'res': res2, 'bad': bad2}
            runs.append(rec)
        return {'type': 'prog', 'prog': prog, 'runs': runs}
    if kind == 'unit':
        r = dict(run_unit(job['job']), type='unit')
    elif kind == 'struct':
        r = dict(run_struct(job), type='struct')
    elif kind == 'gcd':
        r = dict(run_gcd(job), type='gcd')
    else:
        raise KeyError(kind)
    if 'error' in r:
        _FAILED[0] += 1
    return r


def explore(jobs, procs=4):
    import multiprocessing as mp
    if not jobs:
        return []
    procs = min(procs, 4, os.cpu_count() or 1)      # shared machine: never more than 4 workers
    if procs <= 1 or len(jobs) < 4:
        return [_job(j) for j in jobs]
    with mp.get_context('fork').Pool(min(procs, len(jobs))) as pool:
        return pool.map(_job, jobs, chunksize=1)


# ---------------------------------------------------------------------------------------------
# check entry points
# ---------------------------------------------------------------------------------------------
def gcd_check(job, results):
    """oracle for one gcd job: -> list of (message, pair, observed)"""
    bad = []
    l = job['l']
    if job.get('only_inverse'):
        for (a, b), r in zip(job['pairs'], results):
            if r[0] != pow(a, -1, b):
                bad.append((f'inverse({a},{b}) = {r[0]}, expected {pow(a, -1, b)}', (a, b), r))
        return bad
    for (a, b), r in zip(job['pairs'], results):
        g = math.gcd(a, b)
        pos = 4
        if r[0] != g:
            bad.append((f'gcd({a},{b}) = {r[0]}, expected {g}', (a, b), r))
        if r[1] != g or r[2] * a + r[3] * b != r[1]:
            bad.append((f'gcdext({a},{b}) = {tuple(r[1:4])}: not (gcd, s, t) with s*a + t*b = gcd = {g}', (a, b), r))
        if lcm_included(a, b, l):
            if r[pos] != math.lcm(a, b):
                bad.append((f'lcm({a},{b}) = {r[pos]}, expected {math.lcm(a, b)}', (a, b), r))
            pos += 1
        if a >= 0 and b > 0 and g == 1:
            if r[pos] != pow(a, -1, b):
                bad.append((f'inverse({a},{b}) = {r[pos]}, expected {pow(a, -1, b)}', (a, b), r))
    return bad


def lcm_included(a, b, l):
    """mpc.lcm is called when the result fits l bits, and for l <= 16 also when it needs up to 2l bits (the field has
    l + sec_param + 2 bits: the value is representable; repo fix 37b49c0: abs() of the 2l-bit product was wrong)"""
    return O_fits(math.lcm(a, b), l) or l <= 16


def gcd_lines(job, results):
    l = job['l']
    req, impl = [], []
    if job.get('only_inverse'):
        for (a, b), r in zip(job['pairs'], results):
            req.append(f'inverse {l} {a} {b}')
            impl.append(str(r[0]))
        return req, impl
    for (a, b), r in zip(job['pairs'], results):
        req += [f'gcd {l} {a} {b}', f'gcdext {l} {a} {b}']
        impl += [str(r[0]), f'{r[1]} {r[2]} {r[3]}']
        pos = 4
        if lcm_included(a, b, l):
            req.append(f'lcm {l} {a} {b}')
            impl.append(str(r[pos]))
            pos += 1
        if a >= 0 and b > 0 and math.gcd(a, b) == 1:
            req.append(f'inverse {l} {a} {b}')
            impl.append(str(r[pos]))
    return req, impl


def build_jobs(ctx, search=False):
    rng = ctx.subrng('jobs', 'search' if search else 'run')
    max_m = ctx.scale(5, 7)
    cfgs = configs(max_m)
    jobs = []
    nprog = ctx.scale(200, 800) * (2 if search else 1)
    max_depth = ctx.scale(4, 7)
    for i in range(nprog):
        l = LS[i % len(LS)]
        depth = rng.choice([1, 2, 2, 3, 3, 4, 4] if max_depth == 4 else [2, 3, 4, 4, 5, 5, 6, 7])
        gcd_ops = (i % 23 == 7) and l <= 16
        if gcd_ops:
            depth = min(depth, 2)
        runs = []
        for j in range(2):
            cfg = cfgs[(i * (1 + 6 * j) + 3 * j) % len(cfgs)]
            if gcd_ops and cfg[0] > 3:
                cfg = cfgs[(i + j) % 6]
            chunk = rng.choice(CHUNKS)
            if chunk == 'bytes' and cfg[0] > 3 and not ctx.thorough:
                chunk = 'mixed'          # byte-wise delivery at m >= 4 is slow: thorough tier only
            runs.append((list(cfg), [rng.choice(SCHED_MODES), chunk]))
        jobs.append({'type': 'prog', 'key': f'p{i}', 'seed': ctx.seed + (7919 if search else 0), 'l': l, 'depth': depth,
                     'in_range': rng.random() < 0.9, 'gcd_ops': gcd_ops, 'runs': runs})
    ucfgs = cfgs if not search else cfgs[:8]
    for uj in unit_jobs(ctx, ucfgs):
        jobs.append({'type': 'unit', 'job': uj})
    for ci, cfg in enumerate(cfgs):
        for l in ([LS[ci % 5]] if not ctx.thorough else [LS[ci % 5], LS[(ci + 2) % 5]]):
            jobs.append({'type': 'struct', 'cfg': list(cfg), 'l': l, 'seed': rng.randrange(1 << 30),
                         'sched': rng.choice(SCHED_MODES), 'chunk': rng.choice(CHUNKS[:3] if cfg[0] > 3 else CHUNKS)})
    # gcd family: exhaustive on m = 1
    for l in ([2, 3, 4, 5] if not ctx.thorough else [1, 2, 3, 4, 5, 6]):
        allp = [(a, b) for a in range(-(1 << (l - 1)), 1 << (l - 1)) for b in range(-(1 << (l - 1)), 1 << (l - 1))]
        if l == 5 and not ctx.thorough:       # quick: exhaustive for l <= 4, a sample of 96 pairs for l = 5
            allp = rng.sample(allp, 96)
        if l == 6:                            # thorough: exhaustive for l <= 5, a sample of 800 pairs for l = 6
            allp = rng.sample(allp, 800)
        step = 24
        for s in range(0, len(allp), step):
            jobs.append({'type': 'gcd', 'cfg': [1, 0, bool((s // step) % 2)], 'l': l, 'pairs': allp[s:s + step], 'seed': rng.randrange(1 << 30)})
    # inputs needing many divsteps (found by exhaustive / random search with an independent simulation of the
    # Bernstein-Yang divstep map): the iteration count of the code has a slack of only ~8 steps over these for l <= 10
    hard = {6: [(31, -30)], 7: [(63, -62)], 8: [(127, -78)], 9: [(255, -227)], 10: [(510, -367)], 16: [(32318, 28225)],
            32: [(610056805, 2064884437)]}
    for l, prs in hard.items():
        if l <= 16 or ctx.thorough:
            jobs.append({'type': 'gcd', 'cfg': [1, 0, False], 'l': l, 'pairs': prs, 'seed': rng.randrange(1 << 30)})
    # inverse alone on many random coprime pairs: the final range correction of the Bezout coefficient (u in (-2b, 2b))
    # takes its rare branches (u < -b, u >= b) for about 1% of the pairs only
    for i in range(ctx.scale(8, 40)):
        l = [8, 16, 16, 12][i % 4]
        pairs = []
        while len(pairs) < 40:
            a, b = rng.randrange(1, 1 << (l - 1)), rng.randrange(2, 1 << (l - 1))
            if math.gcd(a, b) == 1:
                pairs.append((a, b))
        jobs.append({'type': 'gcd', 'cfg': [1, 0, bool(i % 2)] if i % 4 else [3, 1, False], 'l': l, 'pairs': pairs[:40 if i % 4 else 6],
                     'seed': rng.randrange(1 << 30), 'only_inverse': True})
    for i in range(ctx.scale(8, 60)):
        l = [4, 8, 8, 16][i % 4] if not ctx.thorough else [4, 8, 16, 32][i % 4]
        pairs = []
        for _ in range(2):
            a, b = input_value(rng, l), input_value(rng, l)
            if rng.random() < 0.4:
                g = rng.choice([2, 3, 4, 6])
                a, b = (a // g) * g, (b // g) * g
            pairs.append((a, b))
        cfg = [(3, 1, False), (3, 1, True), (2, 0, False), (3, 0, True)][i % 4]
        jobs.append({'type': 'gcd', 'cfg': list(cfg), 'l': l, 'pairs': pairs, 'seed': rng.randrange(1 << 30), 'shared': True})
    return jobs


def process(ctx, results):
    """oracle verdicts + collection of Lean correspondence lines"""
    req, impl, origin = [], [], []
    for r in results:
        ty = r['type']
        if ty == 'skipped':
            ctx.count('skipped-after-failures')
            continue
        if ty == 'prog':
            prog = r['prog']
            ops = []
            for e in prog['roots']:
                ops_of(e, ops)
            for o in ops:
                ctx.count('op:' + o)
            ctx.count(f"l:{prog['l']}")
            ctx.count('stream:' + ('in-range' if prog['in_range'] else 'out-of-range'))
            for run in r['runs']:
                cfg = run['cfg']
                ctx.count(f"cfg:m={cfg[0]},t={cfg[1]},{'noprss' if cfg[2] else 'prss'}")
                ctx.count('sched:' + run['sched'][0] + '/' + run['sched'][1])
                if run['res'].get('budget_inconclusive'):
                    ctx.count('step-budget-exhausted:rerun-on-reference-schedule-ok')
                ctx.case((prog['l'], json.dumps(prog['roots']), tuple(prog['env'])), nontrivial=nontrivial(ops))
                if run['bad'] is not None:
                    sh = run.get('shrunk')
                    p2 = sh['prog'] if sh else prog
                    res2 = sh['res'] if sh else run['res']
                    bad = sh['bad'] if sh else run['bad']
                    ctx.violation(f'C01: secure-integer program: {bad[1]}',
                                  {'kind': 'program', 'prog': json.dumps(p2), 'cfg': cfg, 'seed': run['seed'], 'sched': run['sched'],
                                   'check': bad[0], 'expected': str(expected(p2)), 'observed': str(res2.get('outs', res2.get('error'))),
                                   'program_format': 'JSON text of {l, env, senders, roots, in_range}, see harness/secint_oracle.py',
                                   'original_program': json.dumps(prog) if sh else None})
            if len(ctx.samples) < 3 and sum(node_count(e) for e in prog['roots']) > 12:
                ctx.sample({'l': prog['l'], 'env': prog['env'], 'roots': prog['roots'], 'outputs': r['runs'][0]['res'].get('outs', [None])[0]})
            # Lean evalSpec on the in-range stream
            run0 = r['runs'][0]
            if prog['in_range'] and 'outs' in run0['res'] and run0['bad'] is None:
                for e, y in zip(prog['roots'], run0['res']['outs'][0]):
                    if e[0] in ('zp', 'eqp') or json.dumps(e).find('gcdext') >= 0:
                        continue
                    req.append('eval ' + _il(prog['env']) + ' ' + ' '.join(O.tokens(e)))
                    impl.append(str(y))
                    origin.append({'what': 'evalSpec', 'l': prog['l'], 'env': prog['env'], 'expr': e})
        elif ty == 'unit':
            job = r['job']
            ctx.count('unit:' + job['kind'] + (':' + job['mode'] if 'mode' in job else '') + (':reduced-l' if job.get('lred') else ''))
            ctx.case(('unit', json.dumps(job, sort_keys=True)))
            if 'error' in r:
                ctx.violation(f"C01: protocol instance {job['kind']} failed: {r['error']}", {'kind': 'unit', 'job': job, 'observed': r['error']})
                continue
            ul = unit_lines(r)
            if ul is None:
                ctx.mismatch(f"unit {job['kind']}: randomness of the protocol instance could not be recovered",
                             {'kind': 'unit', 'job': job, 'rec': {c: [(w, len(v)) for w, v in es] for c, es in r['rec'].items()}})
                continue
            line, ans, probs, exp = ul
            if exp is not None and r['results'][0] != exp:
                ctx.violation(f"C01: {job['kind']}({job['a']}{', ' + str(job['b']) if 'b' in job else ''}) returned {r['results'][0]}, expected {exp}",
                              {'kind': 'unit', 'job': job, 'expected': exp, 'observed': r['results'][0]})
            if job['kind'] == 'trunc':
                a, d = job['a'], job['d']
                if r['results'][0] not in (a >> d, (a >> d) + 1) or (a % (1 << d) == 0 and r['results'][0] != a >> d):
                    ctx.violation(f"C01: trunc({a}, f={d}) returned {r['results'][0]}, expected floor or floor+1 (exact on multiples)",
                                  {'kind': 'unit', 'job': job, 'expected': [a >> d, (a >> d) + 1], 'observed': r['results'][0]})
            for pr in probs:
                ctx.mismatch(f"unit {job['kind']}: hypothesis of the theorems violated by the running code: {pr}", {'kind': 'unit', 'job': job})
            req.append(line)
            impl.append(ans)
            origin.append({'what': 'unit:' + job['kind'], 'job': job})
        elif ty == 'struct':
            job = r['job']
            ctx.count(f"struct:m={job['cfg'][0]}")
            if 'error' in r:
                ctx.violation(f"C01: building blocks program failed: {r['error']}", {'kind': 'struct', 'job': job, 'observed': r['error']})
                continue
            for idx, (line, ans, it) in enumerate(r['pairs']):
                ctx.case(('struct', line))
                ctx.count('struct:' + it[0])
                exp = struct_oracle(it, ans, r['p'], job['l'])
                if exp is not None and exp != ans:
                    ctx.violation(f"C01: {it[0]}{tuple(it[1:])} returned {ans}, expected {exp}",
                                  {'kind': 'struct', 'job': job, 'index': idx, 'item': it, 'expected': exp, 'observed': ans})
                req.append(line)
                impl.append(ans)
                origin.append({'what': 'struct:' + it[0], 'job': job, 'index': idx})
        elif ty == 'gcd':
            job = r['job']
            ctx.count(f"gcd:l={job['l']},m={job['cfg'][0]}", len(job['pairs']))
            if 'error' in r:
                ctx.violation(f"C01: gcd family run failed: {r['error']}", {'kind': 'gcd', 'job': job, 'observed': r['error']})
                continue
            for pr in job['pairs']:
                ctx.case(('gcd', job['l'], tuple(pr)))
            for msg, pr, obs in gcd_check(job, r['results'])[:1]:
                ctx.violation('C01: ' + msg, {'kind': 'gcd', 'job': dict(job, pairs=[list(pr)]), 'observed': obs})
            rq, im = gcd_lines(job, r['results'])
            req += rq
            impl += im
            origin += [{'what': 'gcd-family', 'l': job['l']}] * len(rq)
    return req, impl, origin


def run_corr(ctx, req, impl, origin):
    if not req:
        return
    out = common.LeanDriver('SecInt').run(req)
    if isinstance(out, common.DriverFailure):
        ctx.mismatch(f'Lean driver failure: {out.describe()}', {'kind': 'correspondence', 'driver': out.describe()})
        return
    rep = 0
    for line, a, b, org in zip(req, impl, out, origin):
        ctx.corr_compared += 1
        kind = line.split()[0]
        b2 = pick_model(kind, b)
        ctx.count('corr:' + org['what'])
        if a != b2 and rep < 4:
            rep += 1
            ctx.mismatch(f"real code and Lean model disagree on {org['what']}",
                         {'kind': 'correspondence', 'request': line[:600], 'impl': a, 'model': b2, 'origin': org})


def run(ctx):
    jobs = build_jobs(ctx)
    results = explore(jobs)
    req, impl, origin = process(ctx, results)
    run_corr(ctx, req, impl, origin)


def search(ctx):
    jobs = [j for j in build_jobs(ctx, search=True)]
    results = explore(jobs)
    process(ctx, results)


def _unstr(x):
    """replays are written with integers beyond 2^62 as decimal strings: turn them back"""
    import re
    if isinstance(x, str) and re.fullmatch(r'-?\d{15,}', x):
        return int(x)
    if isinstance(x, list):
        return [_unstr(y) for y in x]
    if isinstance(x, dict):
        return {k: _unstr(v) for k, v in x.items()}
    return x


def replay(ctx, data):
    data = _unstr(data)
    kind = data.get('kind')
    if kind == 'program':
        prog = data['prog']
        if isinstance(prog, str):
            prog = json.loads(prog)
        res = run_program(prog, tuple(data['cfg']), data.get('seed', 0), tuple(data.get('sched', ('fifo', 'whole'))))
        bad = check_run(prog, res)
        if bad is not None:
            return False, f'{bad[1]} (observed {res.get("outs", res.get("error"))}, expected {expected(prog)})'
        return True, f'ok: all parties output {res["outs"][0]}'
    if kind == 'unit':
        r = run_unit(data['job'])
        job = data['job']
        if 'error' in r:
            return False, r['error']
        ul = unit_lines(r)
        exp = ul[3] if ul else None
        if exp is not None and r['results'][0] != exp:
            return False, f"{job['kind']}({job['a']}) returned {r['results'][0]}, expected {exp}"
        if job['kind'] == 'trunc':
            a, d = job['a'], job['d']
            if r['results'][0] not in (a >> d, (a >> d) + 1) or (a % (1 << d) == 0 and r['results'][0] != a >> d):
                return False, f"trunc({a}, f={d}) returned {r['results'][0]}"
        return True, f"ok: {job['kind']} returned {r['results'][0]}"
    if kind == 'struct':
        r = run_struct(data['job'])
        if 'error' in r:
            return False, r['error']
        for idx, (line, ans, it) in enumerate(r['pairs']):
            exp = struct_oracle(it, ans, r['p'], data['job']['l'])
            if exp is not None and exp != ans:
                return False, f'{it[0]}{tuple(it[1:])} returned {ans}, expected {exp}'
        return True, 'ok: all building blocks agree with integer/field arithmetic'
    if kind == 'gcd':
        r = run_gcd(data['job'])
        if 'error' in r:
            return False, r['error']
        bad = gcd_check(data['job'], r['results'])
        if bad:
            return False, bad[0][0]
        return True, 'ok: gcd family agrees with math.gcd'
    return False, f'unknown replay kind {kind}'
