"""C37 — secure NumPy arrays agree with plain NumPy and with secure scalars.

Level: translation_validation.  Lean part (MpycV.C37): broadcasting / index-map / matmul / reshape family
theorems about the model lean/MpycV/Model/Array.lean.  This module is the tie and the oracle:

  for every case (operation, secure type, party configuration, seed)
    real code   the np_* operation on secret-shared input arrays inside harness/simnet.py (m in {1,3},
                PRSS on and off), declared shape of the placeholder AND the opened result
    (a)         the elementwise secure-SCALAR computation on the same inputs (where one exists)
    (b)         plain NumPy on the plain inputs (object ints / floats within the fixed-point bounds)
    (c)         the Lean driver Drv/Arrays.lean for shapes, gather maps, lifted integer arithmetic

Cases are run in worker processes; a case is fully determined by its dict (op, kind, m, no_prss, seed).
"""
import os
import sys
import traceback
import multiprocessing as mp

sys.path.insert(0, os.path.dirname(os.path.dirname(os.path.abspath(__file__))))
import common  # noqa: E402
import arrays_ops as ops  # noqa: E402

LEVEL = 'translation_validation'
LEAN_MODULES = ['MpycV.Props.C37']
LEAN_NAMESPACES = ['MpycV.C37']
REQUIRED_THEOREMS = ['broadcast_spec', 'index_roundtrip', 'map2_spec', 'map2_inherits', 'map2_zipWith',
                     'matmul_shape', 'matmul_index', 'reshape_spec', 'transpose_involution',
                     'concatenate_split_roundtrip', 'roll_spec', 'stack_shape',
                     'old_stack_rule_negative_axis_differs', 'moveLast_lanes', 'swap_lanes_differ']
RULE = ('case = (np_* operation, secure type in {secint24, secfxp32:16, secfld(p) p in {11,101,2^31-1}, GF(2^8)}, '
        'config in {m=1; m=3 PRSS; m=3 no-PRSS; m=5 (t=2) PRSS; thorough also m=5 no-PRSS}, seed -> random shapes (<= 3 dims, size <= 24, broadcasting pairs, '
        'zero-size arrays where accepted) and values inside the type bounds); EVERY operation of the table is run under '
        'every config at least once (systematic sweep), then random extra cases; distinct = distinct (op, kind, config, '
        'shapes, values); non-trivial = result has > 1 element or involves broadcasting / an axis argument')
EXPLANATION = ('NumPy semantics cannot be proved: NumPy is the oracle. Proved (Lean): broadcast_spec, index round trip, '
               'map2 lifts inherit scalar theorems, matmul shape/index, reshape/transpose/concatenate-split/roll index-map '
               'lemmas, declared np_stack shape = NumPy for every valid axis (and a proved counterexample for the pre-fix rule). Validated '
               'only (differential, every run): each np_* protocol vs elementwise secure scalars, vs NumPy, vs the Lean '
               'driver for declared shapes / gather maps; array input/output (np_random_split / np_recombine / PRSS arrays) '
               'vs the list-based path.')
ASSUMPTIONS = ['NumPy 2.x from /verif/.deps is the reference semantics for plain arrays',
               'statistical security parameter 30: probabilistic zero tests err with probability < 2^-30 per element',
               'fixed-point results are compared within the scalar bounds of C02 (tolerances listed per operation)']
TRUSTED = ['harness/simnet.py in-process m-party simulator', 'harness/arrays_ops.py + arrays_optable.py operation table and NumPy references']

CONFIGS = [(1, False), (3, False), (3, True)]
CONFIGS_T2 = [(5, False), (5, True)]   # threshold 2: PRSS subsets of size 3, degree-4 zero sharings, 10 PRSS keys


def _worker(case):
    import gc
    try:
        return ops.run_case(case)
    except BaseException as exc:  # noqa
        return {'case': case, 'status': 'infra', 'detail': ''.join(traceback.format_exception_only(type(exc), exc))[-800:]
                + traceback.format_exc()[-1500:], 'lean': [], 'calls': {}}
    finally:
        gc.collect()   # finalise the coroutines of an aborted run now, not during the next case


def make_cases(ctx):
    cases = []
    rng = ctx.rng
    # 1. systematic sweep: every operation x every kind it supports x every configuration
    for name in sorted(ops.OPS):
        spec = ops.OPS[name]
        for kind in spec['kinds']:
            for (m, np_) in CONFIGS + CONFIGS_T2[:ctx.scale(1, 2)]:
                reps = ctx.scale(1, 4) if m == 3 else ctx.scale(1, 2)
                for _ in range(reps):
                    cases.append({'op': name, 'kind': kind, 'm': m, 'no_prss': np_, 'seed': rng.randrange(1 << 30)})
    # one directed input per OPEN known finding, and the regression inputs of fixed defects
    for name in sorted(ops.DIRECTED):
        cases.append(dict({'op': name, 'kind': ops.DIRECTED[name]['kinds'][0], 'm': 3, 'no_prss': name.startswith('x_fixed'),
                           'seed': 1}, **ops.DIRECTED[name]['plan'](None, None, None).get('case', {})))
    # every named variant of the multi-variant operations once (m = 3, alternating PRSS off/on)
    k = 0
    for name in sorted(ops.VARIANTS):
        for var in ops.VARIANTS[name]:
            for kind in ops.OPS[name]['kinds'][:2]:
                k += 1
                cases.append({'op': name, 'kind': kind, 'm': 3, 'no_prss': k % 2 == 0, 'seed': rng.randrange(1 << 30), 'force': var})
                if name == 'f256_arith':   # extension field with threshold 2: PRSS zero sharings of degree 4
                    cases.append({'op': name, 'kind': kind, 'm': 5, 'no_prss': False, 'seed': rng.randrange(1 << 30), 'force': var})
    # option -W (worker threads, used by the array square roots behind np_random_bits / comparisons / sqrt)
    for name in ('np_random_bits', 'np_sgn', 'np_less', 'np_multiply', 'np_is_zero_public', 'np_absolute', 'np_minimum'):
        if name not in ops.OPS:
            continue
        for kind in ops.OPS[name]['kinds'][:3]:
            for w_ in (2, 3):
                cases.append({'op': name, 'kind': kind, 'm': 3 if w_ == 2 else 1, 'no_prss': False, 'seed': rng.randrange(1 << 30),
                              'workers': w_})
    # option --mix32-64bit (arrays travel as field-element byte strings instead of pickles)
    for name in ('input_output', 'np_multiply', 'np_matmul', 'np_less', 'np_reciprocal', 'f256_arith'):
        if name not in ops.OPS:
            continue
        for kind in ops.OPS[name]['kinds'][:4]:
            cases.append({'op': name, 'kind': kind, 'm': 3, 'no_prss': len(cases) % 2 == 0, 'seed': rng.randrange(1 << 30),
                          'mix32_64bit': True})
    for var in ops.VARIANTS['f256_arith']:       # every GF(2^8) variant also with byte-string transport of the shares
        cases.append({'op': 'f256_arith', 'kind': 'f256', 'm': 3, 'no_prss': len(cases) % 2 == 0, 'seed': rng.randrange(1 << 30),
                      'mix32_64bit': True, 'force': var})
    # 2. random extra cases, weighted towards m = 3
    names = sorted(ops.OPS)
    for _ in range(ctx.scale(220, 6000)):
        name = rng.choice(names)
        kind = rng.choice(ops.OPS[name]['kinds'])
        m, np_ = rng.choice(CONFIGS + [(3, False), (3, True)] + CONFIGS_T2[:1])
        cases.append({'op': name, 'kind': kind, 'm': m, 'no_prss': np_, 'seed': rng.randrange(1 << 30)})
    return cases


def run_driver(lines):
    """the lean build directory is shared with concurrently building workers: retry when an .olean is missing"""
    import time
    for attempt in range(4):
        out = common.LeanDriver('Arrays').run(lines)
        if not isinstance(out, common.DriverFailure) or 'does not exist' not in ' '.join(out[-3:]):
            return out
        time.sleep(20)
        common.lean_build(LEAN_MODULES)
    return out


def run_cases(ctx, cases, tag='run'):
    nproc = min(16, os.cpu_count() or 4)
    with mp.get_context('fork').Pool(nproc, maxtasksperchild=10) as pool:
        results = pool.map(_worker, cases, chunksize=4)
    lean_req, lean_impl, lean_meta = [], [], []
    for res in results:
        case = res['case']
        cfg = f"m{case['m']}{'-noprss' if case['no_prss'] else ''}"
        ctx.count(f"op:{case['op']}")
        ctx.count(f"kind:{case['kind']}")
        ctx.count(f'config:{cfg}')
        ctx.count(f"op-config:{case['op']}:{cfg}")
        for k, v in res.get('calls', {}).items():
            ctx.count('call:' + k, v)
        for k in res.get('tags', []):
            ctx.count(k)
        ctx.case((case['op'], case['kind'], cfg, res.get('key')), nontrivial=res.get('nontrivial', True))
        if res['status'] == 'infra':
            raise common.InfraError(f"worker failed on {case}: {res['detail']}")
        if res['status'] == 'violation':
            rep = dict(case)
            rep.update({'kind_of_failure': res.get('failure'), 'detail': res['detail'], 'program': res.get('program'),
                        'expected': res.get('expected'), 'observed': res.get('observed')})
            fk = res.get('finding_key')
            if fk:
                rep['finding_key'] = fk
            ctx.violation(f"{case['op']} [{case['kind']}, {cfg}]: {res['detail'][:300]}", rep)
        if len(ctx.samples) < 4 and res['status'] == 'ok' and res.get('sample'):
            ctx.sample({'case': case, 'sample': res['sample']})
        for req, impl in res.get('lean', []):
            lean_req.append(req)
            lean_impl.append(impl)
            lean_meta.append(case)
    if lean_req:
        model = run_driver(lean_req)
        ctx.compare('array shapes / index maps (runtime.py + NumPy vs MpycV.Arr)', lean_impl, model,
                    [{'request': r, 'case': c} for r, c in zip(lean_req, lean_meta)])
    return results


def run(ctx):
    cases = make_cases(ctx)
    run_cases(ctx, cases)
    # coverage of the public np_* surface
    public = ops.public_np_methods()
    called = {k[5:] for k in ctx.dist if k.startswith('call:')}
    missing = sorted(set(public) - called)
    ctx.note(f'public Runtime.np_* methods: {len(public)}; exercised: {len(public) - len(missing)}; '
             f'not covered: {missing}')
    for k in missing:
        ctx.count('not-covered:' + k)
    # pure model correspondences against NumPy (no secure computation involved)
    req, impl = ops.numpy_model_lines(ctx.subrng('npmodel'), ctx.scale(400, 4000))
    model = run_driver(req)
    ctx.compare('NumPy vs MpycV.Arr (shapes, gather maps)', impl, model, req)
    ctx.count('numpy-model-lines', len(req))
    item_shape_differential(ctx)


def _random_key(rng, nprng, shape):
    """a random index key for an array of the given shape: ints, slices, None, Ellipsis, int lists / arrays, Python bools and
    boolean masks of 1 to 3 dimensions (a k-dimensional mask consumes k axes)"""
    import numpy as onp
    nd = len(shape)
    key, ax, used_ell = [], 0, False
    for _ in range(rng.randrange(0, nd + 3)):
        r = rng.random()
        n = shape[ax] if ax < nd else 1
        adv = 1
        if r < 0.18:
            e = rng.randrange(-n, n) if n else 0
        elif r < 0.40:
            def ee():
                return rng.choice([None, rng.randrange(-n - 2, n + 3)])
            e = slice(ee(), ee(), rng.choice([None, 1, 2, -1]))
        elif r < 0.48:
            e, adv = None, 0
        elif r < 0.58 and not used_ell:
            e, adv, used_ell = Ellipsis, 0, True
        elif r < 0.68:
            e = [rng.randrange(-n, n) for _ in range(rng.randrange(0, 4))] if n else []
        elif r < 0.76:
            sh = rng.choice([(), (2,), (1, 2), (2, 1)])
            e = nprng.integers(-n, n, size=sh) if n else onp.zeros((0,), dtype=int)
        elif r < 0.80:
            e, adv = rng.choice([True, False]), 0
        else:
            k = rng.choice([1, 1, 2, 2, 3])
            if ax + k > nd:
                continue
            e, adv = nprng.random(shape[ax:ax + k]) < 0.5, k
        key.append(e)
        ax += adv
    key = tuple(key)
    if len(key) == 1 and rng.random() < 0.5:
        key = key[0]
    return key


def item_shape_differential(ctx):
    """the shape mpyc DECLARES for a[key] (mpyc.numpy._item_shape, used by np_getitem for the placeholder) against the shape
    NumPy gives the value, on random keys (repo fix b9a0237: multi-dimensional masks, ellipsis as separator)"""
    import numpy as onp
    from mpyc.numpy import np as mnp
    rng = ctx.subrng('item-shape')
    nprng = onp.random.default_rng(rng.randrange(1 << 30))
    n_ok = 0
    for _ in range(ctx.scale(30000, 300000)):
        shape = tuple(rng.randrange(0, 4) for _ in range(rng.randrange(0, 5)))
        key = _random_key(rng, nprng, shape)
        try:
            want = onp.empty(shape)[key].shape
        except Exception:  # noqa: BLE001  invalid key: not compared
            continue
        try:
            got = mnp._item_shape(shape, key)
        except Exception as exc:  # noqa: BLE001
            got = 'raises ' + type(exc).__name__
        n_ok += 1
        if got != want:
            ctx.violation(f'C37: a[key] for a of shape {shape} and key {key!r}: the placeholder is declared with shape {got}, the value '
                          f'has shape {want} (mpyc.numpy._item_shape vs NumPy)',
                          {'kind': 'item-shape', 'shape': list(shape), 'key': repr(key), 'declared': str(got), 'numpy': list(want)})
            return
    ctx.count('item-shape-keys', n_ok)
    ctx.case(('item-shape', n_ok), nontrivial=True)


def search(ctx):
    rng = ctx.subrng('search')
    names = sorted(ops.OPS)
    cases = []
    for _ in range(ctx.scale(3000, 20000)):
        name = rng.choice(names)
        kind = rng.choice(ops.OPS[name]['kinds'])
        m, np_ = rng.choice(CONFIGS + CONFIGS_T2)
        cases.append({'op': name, 'kind': kind, 'm': m, 'no_prss': np_, 'seed': rng.randrange(1 << 30)})
    run_cases(ctx, cases, 'search')


def replay(ctx, data):
    if data.get('kind') == 'item-shape':
        c2 = common.Ctx('C37', 'quick', 0) if False else ctx
        item_shape_differential(c2)
        return not c2.violations, (c2.violations[0][0] if c2.violations else 'ok: declared shapes agree with NumPy')
    case = {k: data[k] for k in ('op', 'kind', 'm', 'no_prss', 'seed')}
    for k_ in ('workers', 'mix32_64bit'):
        if k_ in data:
            case[k_] = data[k_]
    if 'force' in data:
        case['force'] = data['force']
    res = _worker(case)
    if res['status'] == 'ok':
        return True, 'ok'
    return False, f"{res.get('failure')}: {res['detail'][:500]}"
