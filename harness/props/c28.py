"""C28 -- secure group operations (mpyc.secgroups) match the plain group operations (mpyc.fingroups).

Lean side (lean/MpycV/Props/C28.lean): `repeat_public_base` (the product over the parties of
a^{int(lambda_i x_i)} equals a^x when sum lambda_i x_i = x in GF(q) and a^q = 1), the bit ladder of
`repeat_secret_base_secret_output`, pointwise selection `if_else`, the oblivious normalisation of
projective Weierstrass points.  This module runs the real secgroups code for m in {1, 3, 5} parties in
the in-process simulator (harness/simnet.py) and compares every opened result with plain fingroups and
with the independent oracle; the model's exponent / ladder functions are run on the parties' actual
shares through lean/Drv/Groups.lean.
"""
import multiprocessing
import os
import sys
import time

HERE = os.path.dirname(os.path.abspath(__file__))
sys.path.insert(0, os.path.dirname(HERE))
import simnet  # noqa: E402  (sets argv for mpyc, installs the runtime proxy)
from simnet import SimNet  # noqa: E402
import mpyc.fingroups as fg  # noqa: E402
from mpyc import thresha  # noqa: E402
import common  # noqa: E402
import groups_oracle as orc  # noqa: E402
from props import c27  # noqa: E402

LEVEL = 'other'
LEAN_MODULES = ['MpycV.Props.C28']
LEAN_NAMESPACES = ['MpycV.C28']
REQUIRED_THEOREMS = ['repeat_public_base', 'repeat_public_base_model', 'repeat_secret_base',
                     'if_else_selects', 'sec_normalize_eq_plain', 'sec_equality_via_normalize',
                     'recomb_exponents_lt']
RULE = ('one case = (group family + parameters, m, t, seed, operation, operands). Families: Sym(4,5,7), QR '
        '(8..64-bit safe primes), Schnorr, Ed25519 affine/projective/extended, Ed448 projective, secp256k1 and '
        'BN256 projective, kummer1271 (Costello-Lauter), genus-2 affine hyperelliptic, class groups (12/16-bit '
        'discriminants); m in {1,3} (+5 for the cheap families); operands: oracle-generated elements incl. '
        'identity / equal / opposite pairs; operations @ (secure/plain operand mixes), ~, ==, !=, if_else, '
        'repeat with public exponent, secret exponent x public base, secret exponent x secret base, repeat_public.')
EXPLANATION = (
    'PROVED (Lean): public-base exponentiation: with lambda the recombination vector and x_i the shares, '
    'sum lambda_i x_i = x in GF(q) and a^q = 1 imply prod_i a^{int(lambda_i x_i)} = a^x, for the abstract group '
    'and for the executable model on residues; the if_else bit ladder of the secret-base protocol equals a^x for '
    'the bit decomposition of x (any monoid); if_else c a b = c(a-b)+b selects for c in {0,1}; the oblivious '
    'normalize of projective Weierstrass points equals the plain normalize, and secure equality (comparison of '
    'normalised coordinates) agrees with plain equality of representations with z != 0. The secure operation / '
    'inversion formulas are the plain formulas applied to secure field elements (same Python functions), so '
    'their agreement with the group law is inherited from C27 + C04. VALIDATED ONLY (simulator runs against '
    'plain fingroups and the independent oracle): the share-level protocols (input, output, reshare, to_bits, '
    'seclist indexing for Sym, secure gcd/division for class groups, secure polynomial arithmetic for '
    'hyperelliptic curves), all families end to end, and that sum lambda_i x_i = x for the actual shares (C12).')
ASSUMPTIONS = [
    'harness/simnet.py runs the unmodified mpyc runtime for m parties (documented asyncio rules)',
    'recombination: sum_i lambda_i x_i = x for a degree-<=t sharing (property C12)',
    'secure field arithmetic equals field arithmetic (property C04)',
]
TRUSTED = ['harness/groups_oracle.py', 'harness/simnet.py']

FINDINGS = {
    'pubbase_secint': 'C28-pubbase-secint-exponent',
    'secbase_negative': 'C28-secbase-negative-exponent',
    'hc_if_else': 'C28-hc-affine-if-else',
    'sym_small': 'C28-sym-degree-le-parties',
}


# =================================================================================================
# one simulator run: a list of operations on a group, results vs plain fingroups
# =================================================================================================
def _sectype(mpc, kind, G, order):
    if kind == 'fld':
        return mpc.SecFld(modulus=order)
    return mpc.SecInt(int(kind[3:]))  # 'int8' -> SecInt(8)


def plain_eval(G, op, E, xs):
    """Plain fingroups result of op; E = list of elements, xs = list of ints."""
    a, b = E[0], E[1]
    name = op[0]
    if name == 'op':
        return a @ b
    if name in ('op_sp', 'op_ps'):
        return a @ b
    if name == 'op2':
        return a @ a
    if name == 'inv':
        return ~a
    if name == 'eq':
        return int(a == b)
    if name == 'ne':
        return int(not (a == b))
    if name == 'eq_self':
        return 1
    if name == 'eq_cancel':      # (a @ ~a) against identity values of different origin
        return 1
    if name == 'eq_prod_ident':  # is a @ b the identity?
        return int((a @ b) == type(a).identity)
    if name == 'if_else':
        return a if op[1] else b
    if name == 'pubexp':
        return a ^ op[1]
    if name in ('pubbase', 'secbase', 'public'):
        return a ^ xs[op[1]]
    if name == 'chain':
        return (a @ b) @ (~a)
    raise ValueError(name)


async def secure_eval(mpc, G, secgrp, op, E, S, X):
    """Secure evaluation; S = secure versions of E, X = secure exponents."""
    a, b = E[0], E[1]
    sa, sb = S[0], S[1]
    name = op[0]
    if name == 'op':
        return await mpc.output(sa @ sb)
    if name == 'op_sp':
        return await mpc.output(sa @ b)
    if name == 'op_ps':
        return await mpc.output(a @ sb)
    if name == 'op2':
        return await mpc.output(sa @ sa)
    if name == 'inv':
        return await mpc.output(~sa)
    if name == 'eq':
        return int(await mpc.output(sa == sb))
    if name == 'ne':
        return int(await mpc.output(sa != sb))
    if name == 'eq_self':
        return int(await mpc.output(sa == secgrp(a)))
    if name == 'eq_cancel':
        # an identity PRODUCED by secure computation (arbitrary representative in projective coordinates) compared with the
        # constant identity and with another computed identity; != must be 0 as well
        z1, z2 = sa @ ~sa, sb @ ~sb
        r = await mpc.output([z1 == secgrp.identity, z1 == z2, 1 - (z1 != secgrp(type(a).identity))])
        return int(all(int(v) == 1 for v in r))
    if name == 'eq_prod_ident':
        return int(await mpc.output((sa @ sb) == secgrp.identity))
    if name == 'if_else':
        c = mpc.input(secgrp.sectype(op[1]), senders=0)
        variant = op[2]
        if variant == 0:
            return await mpc.output(secgrp.if_else(c, sa, sb))
        if variant == 1:
            return await mpc.output(secgrp.if_else(c, a, sb))
        return await mpc.output(secgrp.if_else(c, sa, b))
    if name == 'pubexp':
        return await mpc.output(sa ^ op[1])
    if name == 'pubbase':
        return await mpc.output(secgrp.repeat(a, X[op[1]]))
    if name == 'secbase':
        return await mpc.output(secgrp.repeat(sa, X[op[1]]))
    if name == 'public':
        return await secgrp.repeat_public(a, X[op[1]])
    if name == 'chain':
        return await mpc.output((sa @ sb) @ (~sa))
    raise ValueError(name)


def run_task(task):
    """task dict -> result dict (runs in a worker process)."""
    spec, m, seed = task['spec'], task['m'], task['seed']
    t0 = time.time()
    G = c27.make_group(spec)
    E = [G.dec(j) for j in task['elems']]
    xs = task['exps']          # list of (kind, value)
    ops = task['ops']
    order = task.get('exp_order')
    want = []
    for op in ops:
        r = plain_eval(G, op, E, [v for _, v in xs])
        want.append(r if isinstance(r, int) else G.enc(r))

    async def prog(mpc):
        secgrp = mpc.SecGrp(G.cls)
        S = [mpc.input(secgrp(e), senders=k % m) for k, e in enumerate(E)]
        X = []
        shares = []
        for kind, v in xs:
            st = _sectype(mpc, kind, G, order)
            x = mpc.input(st(v), senders=0)
            X.append(x)
            xi = await mpc.gather(x)
            shares.append(int(xi.value) if isinstance(xi.value, int) else None)
        out = []
        for op in ops:
            r = await secure_eval(mpc, G, secgrp, op, E, S, X)
            out.append(r if isinstance(r, int) else G.enc(r))
        return out, shares
    res = {'task': task, 'want': want, 'ok': True, 'msg': '', 'got': None, 'shares': None}
    try:
        net = SimNet(m, t=task.get('t'), seed=seed, max_steps=task.get('budget', 3_000_000))
        outs = net.run(prog)
        res['got'] = [o[0] for o in outs]
        res['shares'] = [o[1] for o in outs]
        for i, o in enumerate(outs):
            for k, (g, w) in enumerate(zip(o[0], want)):
                if g != w and not _same(G, g, w):
                    res['ok'] = False
                    res['msg'] = f'party {i}: {ops[k]} gave {g}, plain fingroups gives {w}'
                    res['bad_op'] = k
                    break
            if not res['ok']:
                break
    except Exception as exc:  # noqa: BLE001  PartyError / Deadlock / anything raised by the protocols
        res['ok'] = False
        res['msg'] = f'{type(exc).__name__}: {str(exc)[:300]}'
        res['exc'] = type(exc).__name__
    res['wall'] = round(time.time() - t0, 2)
    return res


def _same(G, g, w):
    """Equality of serialised results up to the representation (projective coordinates)."""
    if isinstance(g, int) or isinstance(w, int):
        return g == w
    try:
        if isinstance(G, c27.EcG):
            return G.to_affine(g) == G.to_affine(w)
        return bool(G.dec(g) == G.dec(w))
    except Exception:  # noqa: BLE001
        return False


# =================================================================================================
# task generation
# =================================================================================================
def _elems(G, rng, mode):
    """Two operands: generic / identity / equal / opposite."""
    a = G.sample(rng)
    b = G.sample(rng)
    if mode == 'ident':
        if rng.random() < 0.5:
            a = G.ident()
        else:
            b = G.ident()
    elif mode == 'equal':
        b = G.dec(G.enc(a))
        if isinstance(G, c27.EcG) and G.sys not in ('ea', 'wa'):
            # the same point in another (rescaled) projective representation
            b = G.from_affine(G.to_affine(G.enc(a)), rng)
    elif mode == 'opposite':
        b = ~a
    return [G.enc(a), G.enc(b)]


def _cycle(n, r):
    """An r-cycle in Sym(n)."""
    p = list(range(n))
    for i in range(r):
        p[i] = (i + 1) % r
    return p


FAMILIES_QUICK = [
    # spec, ms, exponent order (for 'fld' exponents; None: group.order), cost class, restrictions
    ({'family': 'sym', 'n': 4}, (1, 3), None, 'cheap', ()),
    ({'family': 'sym', 'n': 5}, (1, 3), 5, 'cheap', ()),
    ({'family': 'sym', 'n': 7}, (5,), 7, 'cheap', ()),
    ({'family': 'qr', 'l': 8}, (1, 3, 5), None, 'cheap', ()),
    ({'family': 'qr', 'l': 16}, (1, 3, 5), None, 'cheap', ()),
    ({'family': 'qr', 'l': 64}, (1, 3), None, 'cheap', ()),
    ({'family': 'sg', 'l': 16, 'n': 8}, (1, 3, 5), None, 'cheap', ()),
    ({'family': 'sg', 'l': 64, 'n': 32}, (1, 3), None, 'cheap', ()),
    ({'family': 'ec', 'curve': 'Ed25519', 'coords': 'affine'}, (1, 3), None, 'ec', ()),
    ({'family': 'ec', 'curve': 'Ed25519', 'coords': 'projective'}, (3,), None, 'ec', ()),
    ({'family': 'ec', 'curve': 'Ed25519', 'coords': 'extended'}, (1, 3), None, 'ec', ()),
    ({'family': 'ec', 'curve': 'Ed448', 'coords': 'projective'}, (3,), None, 'ec', ()),
    ({'family': 'ec', 'curve': 'Ed448', 'coords': 'extended'}, (1,), None, 'ec', ()),
    ({'family': 'ec', 'curve': 'secp256k1', 'coords': 'projective'}, (1, 3), None, 'ec', ()),
    ({'family': 'ec', 'curve': 'BN256', 'coords': 'projective'}, (3,), None, 'ec', ()),
    ({'family': 'hc', 'curvename': 'kummer1271'}, (1, 3), None, 'ec', ('generic',)),
    ({'family': 'hc', 'p': 251, 'genus': 2}, (1, 3), None, 'hc', ('generic', 'no_if_else')),
    ({'family': 'cl', 'l': 12}, (1, 3), None, 'cl', ()),
]
FAMILIES_THOROUGH = [
    # Sym(3) only with m = 1: for m >= n = 3 the shares live in GF(3^2) and secure @ raises TypeError
    # (finding C28-sym-degree-le-parties, reported from a directed input)
    ({'family': 'sym', 'n': 3}, (1,), None, 'cheap', ()),
    ({'family': 'sym', 'n': 11}, (3, 5), 11, 'cheap', ()),
    ({'family': 'qr', 'l': 32}, (1, 3, 5), None, 'cheap', ()),
    ({'family': 'ec', 'curve': 'Ed448', 'coords': 'affine'}, (3,), None, 'ec', ()),
    ({'family': 'ec', 'curve': 'BN256_twist', 'coords': 'projective'}, (1, 3), None, 'ec', ()),
    ({'family': 'ec', 'curve': 'Ed25519', 'coords': 'extended'}, (5,), None, 'ec', ()),
    ({'family': 'hc', 'p': 65519, 'genus': 2}, (3,), None, 'hc', ('generic', 'no_if_else')),
    ({'family': 'hc', 'p': 4294967291, 'genus': 3}, (1, 3), None, 'hc', ('generic', 'no_if_else')),
    ({'family': 'cl', 'l': 16}, (1, 3), None, 'cl', ()),
]


def _resolve(spec):
    """Family spec with bit lengths -> c27 group spec with explicit parameters."""
    s = dict(spec)
    if s['family'] == 'qr' and 'l' in s:
        s = {'family': 'qr', 'p': fg.QuadraticResidues(l=s['l']).field.modulus}
    elif s['family'] == 'sg' and 'l' in s:
        sg = fg.SchnorrGroup(l=s['l'], n=s['n'])
        s = {'family': 'sg', 'p': sg.field.modulus, 'q': sg.order, 'g': int(sg.generator.value.value)}
    elif s['family'] == 'cl' and 'l' in s:
        s = {'family': 'cl', 'D': fg.ClassGroup(l=s['l']).discriminant}
    return s


def make_tasks(ctx):
    rng = ctx.subrng('tasks')
    fams = list(FAMILIES_QUICK) + (FAMILIES_THOROUGH if ctx.thorough else [])
    tasks = []
    for spec0, ms, exp_order, cost, restr in fams:
        spec = _resolve(spec0)
        G = c27.make_group(spec)
        order = exp_order or G.cls.order
        reps = {'cheap': ctx.scale(3 if isinstance(G, c27.SymG) else 5, 16), 'ec': ctx.scale(2, 6), 'hc': ctx.scale(2, 4), 'cl': ctx.scale(1, 3)}[cost]
        for m in ms:
            for rep in range(reps):
                modes = ['generic'] if 'generic' in restr else ['generic', 'ident', 'equal', 'opposite']
                mode = modes[rep % len(modes)] if cost == 'cheap' else modes[(rep + 2 * (m > 1)) % len(modes)]
                if isinstance(G, c27.SymG) and exp_order:
                    # exponent arithmetic needs a base of prime order r = exp_order: an r-cycle
                    base = _cycle(G.n, exp_order)
                    elems = [base, G.enc(G.sample(rng))]
                    if mode == 'equal':
                        elems[1] = list(base)
                    elif mode == 'opposite':
                        elems[1] = G.enc(~G.dec(base))
                else:
                    elems = _elems(G, rng, mode)
                    if 'generic' in restr:  # distinct non-identity, non-opposite operands only
                        for _ in range(50):
                            a_, b_ = G.dec(elems[0]), G.dec(elems[1])
                            e_ = G.ident()
                            if not (a_ == e_ or b_ == e_ or a_ == b_ or a_ == ~b_):
                                break
                            elems = _elems(G, rng, mode)
                quick = not ctx.thorough
                sym = isinstance(G, c27.SymG)
                heavy = cost != 'cheap' or sym          # a single operation costs 0.1 .. several seconds
                light = quick and heavy and m > 1       # quick tier: fewer operations per multi-party run
                ops = [('op',), ('inv',), ('eq',)]
                if cost in ('cheap', 'ec') and 'generic' not in restr and (rep % 2 == 0 or mode == 'opposite'):
                    ops += [('eq_cancel',), ('eq_prod_ident',)]
                if not light:
                    ops += [('eq_self',), ('op2',)]
                    if cost != 'cl':
                        ops += [('op_sp',), ('op_ps',), ('ne',), ('chain',)]
                if 'no_if_else' not in restr and not (light and cost in ('cl',)):
                    ops += [('if_else', rng.randrange(2), rng.randrange(3))]
                    if cost == 'cheap' and not sym:
                        ops += [('if_else', rng.randrange(2), rng.randrange(3))]
                exps = []
                if cost != 'cl':
                    n = rng.choice([0, 1, 2, 3, -1, -2, rng.randrange(-40, 41), rng.getrandbits(64) * rng.choice([1, -1])])
                    if heavy and m > 1:
                        n = rng.randrange(-9, 10)
                    if 'generic' in restr:  # no identity results / operands for these families
                        n = rng.choice([-7, -5, -3, -2, -1, 1, 2, 3, 5, 6, 9])
                    ops += [('pubexp', n)]
                # secret exponents: field elements over GF(order) for a public base ...
                can_fld = order is not None and orc.is_probable_prime(order) and order > max(ms) and \
                    not (sym and not exp_order)
                if can_fld and cost != 'cl':
                    x = rng.choice([0, 1, 2, order - 1, rng.randrange(order), rng.randrange(order)])
                    if 'generic' in restr:  # a^x must not be the identity for the Costello-Lauter formulas
                        x = rng.randrange(2, order)
                    exps.append(('fld', x))
                    ops += [('pubbase', len(exps) - 1)]
                    if rng.random() < (0.7 if cost == 'cheap' else 0.35):
                        ops += [('public', len(exps) - 1)]
                    if order.bit_length() <= (8 if quick else 16) and 'no_if_else' not in restr and \
                            not (sym and quick and (m > 1 or rep > 0)):
                        ops += [('secbase', len(exps) - 1)]
                # ... and small non-negative secure integers for a secret base (bit ladder)
                if 'no_if_else' not in restr and 'generic' not in restr and cost in ('cheap', 'ec') \
                        and not (quick and heavy and rep > 0):
                    bits = rng.choice([4, 6, 8]) if not heavy else 4
                    xv = rng.randrange(0, 1 << (bits - 1))
                    exps.append((f'int{bits}', xv))
                    ops += [('secbase', len(exps) - 1)]
                if cost == 'cl' and rep == 0 and m == 1 and not quick:
                    exps.append(('int4', rng.randrange(0, 8)))
                    ops += [('secbase', 0)]
                chunk = 4 if heavy else 20
                for c0 in range(0, len(ops), chunk):
                    tasks.append({'spec': spec, 'm': m, 'seed': rng.randrange(1 << 30), 'elems': elems,
                                  'exps': exps, 'ops': ops[c0:c0 + chunk], 'exp_order': order, 'mode': mode,
                                  'cost': cost})
    # exponent fields GF(q) with q <= m: mpc.SecFld(q) is lifted to an extension field GF(q^e) and the local exponent
    # of repeat(public base, secret exponent) is the constant coefficient of lambda_i * x_i reduced mod q
    sym7 = {'family': 'sym', 'n': 7}
    G7 = c27.make_group(sym7)
    for m, q in ((3, 2), (3, 3), (5, 3), (5, 5)) + (((4, 3), (5, 2)) if ctx.thorough else ()):
        for rep in range(ctx.scale(2, 8)):
            base = _cycle(7, q)
            exps = [('fld', x) for x in range(q)] + [('fld', rng.randrange(q)) for _ in range(2)]
            ops = [('pubbase', i) for i in range(len(exps))] + [('public', rng.randrange(len(exps)))]
            tasks.append({'spec': sym7, 'm': m, 'seed': rng.randrange(1 << 30), 'elems': [base, G7.enc(G7.sample(rng))],
                          'exps': exps, 'ops': ops, 'exp_order': q, 'mode': 'lifted-exponent-field', 'cost': 'cheap'})
    return tasks


def directed_findings(ctx):
    """One directed input per recorded finding (reported through finding_key when it reproduces)."""
    qr = _resolve({'family': 'qr', 'l': 8})
    G = c27.make_group(qr)
    g = G.enc(G.cls.generator)
    hc = {'family': 'hc', 'p': 251, 'genus': 2}
    H = c27.make_group(hc)
    h5, h7 = H.enc(H.cls.generator ^ 5), H.enc(H.cls.generator ^ 7)
    return [
        # several exponents: whether a^(k p') = 1 by luck depends on the random shares
        ('pubbase_secint', {'spec': qr, 'm': 3, 'seed': 1, 'elems': [g, g],
                            'exps': [('int8', v) for v in (11, 5, 23, 7, 3, 19)],
                            'ops': [('pubbase', i) for i in range(6)] + [('public', i) for i in range(6)],
                            'exp_order': G.cls.order}),
        ('secbase_negative', {'spec': qr, 'm': 1, 'seed': 1, 'elems': [g, g], 'exps': [('int8', -3)],
                              'ops': [('secbase', 0)], 'exp_order': G.cls.order}),
        ('hc_if_else', {'spec': hc, 'm': 1, 'seed': 1, 'elems': [h5, h7], 'exps': [],
                        'ops': [('if_else', 1, 0)], 'exp_order': None}),
        # Sym(n) with m >= n parties: shares live in GF(n^2), seclist indexing raises TypeError
        ('sym_small', {'spec': {'family': 'sym', 'n': 3}, 'm': 3, 'seed': 1, 'elems': [[1, 2, 0], [1, 0, 2]],
                       'exps': [], 'ops': [('op',)], 'exp_order': None}),
    ]


# =================================================================================================
def _report(ctx, res, key=None):
    task = res['task']
    G = c27.make_group(task['spec'])
    rep = {'kind': 'c28', 'task': task, 'expected': res['want'], 'observed': res['got'], 'message': res['msg']}
    if key:
        rep['finding_key'] = key
    ctx.violation(f"C28 {G.name} m={task['m']}: {res['msg']}", rep)


def replay(ctx, data):
    res = run_task(data['task'])
    return res['ok'], (res['msg'] or 'secure results equal plain results')


def run(ctx):
    tasks = make_tasks(ctx)
    directed = directed_findings(ctx)
    alltasks = [t for _, t in directed] + tasks
    # worker processes: only as many as there are idle cores (on an oversubscribed machine the simulator
    # runs are much slower in parallel than one after the other)
    # (measured: the simulator runs are 5-10x slower in parallel worker processes than one after the
    # other on the build machine, so the default is sequential; VERIF_C28_PROCS=n enables a pool)
    nproc = int(os.environ.get('VERIF_C28_PROCS', '1'))
    ctx.note(f'worker processes: {nproc}')
    if nproc <= 1:
        results = [run_task(t) for t in alltasks]
    else:
        with multiprocessing.get_context('fork').Pool(nproc) as pool:
            results = pool.map(run_task, alltasks, chunksize=1)
    for (key, _), res in zip(directed, results[:len(directed)]):
        ctx.case(('directed', key, res['task']['ops']))
        ctx.count('directed:' + key)
        if not res['ok']:
            _report(ctx, res, FINDINGS[key])
    reqs, impl = [], []
    walls = {}
    for res in results[len(directed):]:
        task = res['task']
        G = c27.make_group(task['spec'])
        walls[task['cost']] = walls.get(task['cost'], 0) + res['wall']
        for op in task['ops']:
            ctx.case((G.name, task['m'], task['seed'], op, repr(task['elems'])[:120]))
            ctx.count(f"{task['spec']['family']}:m{task['m']}:{op[0]}")
        ctx.count(f"operands:{task.get('mode')}")
        if not res['ok']:
            _report(ctx, res)
            continue
        ctx.sample({'group': G.name, 'm': task['m'], 'ops': task['ops'], 'results': res['want']}, cap=3)
        # ---- correspondence: the model's exponent / ladder functions on the actual shares -------------
        if isinstance(G, c27.ModG):
            a = int(task['elems'][0])
            for k, op in enumerate(task['ops']):
                if op[0] in ('pubbase', 'public') and task['exps'][op[1]][0] == 'fld':
                    q = task['exp_order']
                    shares = [s[op[1]] for s in res['shares']]
                    fld = fg.GF(q)
                    lam = thresha._recombination_vector(fld, range(1, task['m'] + 1), 0)
                    es = [int((lam[i] * fld(shares[i])).value) for i in range(task['m'])]
                    reqs.append(f"pub {q} {G.p} {a} {','.join(map(str, shares))}")
                    impl.append(f"{','.join(map(str, es))} {res['got'][0][k]}")
                if op[0] == 'secbase':
                    kind, xv = task['exps'][op[1]]
                    nbits = task['exp_order'].bit_length() if kind == 'fld' else int(kind[3:])
                    bits = [(xv >> i) & 1 for i in range(nbits)]
                    reqs.append(f"lad {G.p} {a} {','.join(map(str, bits))}")
                    impl.append(str(res['got'][0][k]))
        elif isinstance(G, c27.EcG) and not G.ext:
            for k, op in enumerate(task['ops']):
                if op[0] == 'secbase' and task['exps'][op[1]][0] != 'fld':
                    kind, xv = task['exps'][op[1]]
                    nbits = int(kind[3:])
                    bits = [(xv >> i) & 1 for i in range(nbits)]
                    P = ','.join(str(c) for c in task['elems'][0])
                    reqs.append(f"ec {G.sys} {G.p} {G.c1} {G.c2} lad {P} {','.join(map(str, bits))}")
                    got = res['got'][0][k]
                    impl.append('aff:' + repr(G.to_affine(got)))
    if reqs:
        out = common.LeanDriver('Groups').run(reqs)
        if not isinstance(out, common.DriverFailure):
            # results in projective coordinates are compared after normalisation (representation-free)
            fixed = []
            for r, o in zip(reqs, out):
                if r.startswith('ec '):
                    t = r.split()
                    G = next(g for g in (c27.make_group(x['spec']) for x in tasks)
                             if isinstance(g, c27.EcG) and not g.ext and g.sys == t[1] and str(g.p) == t[2]
                             and str(g.c2) == t[4])
                    try:
                        fixed.append('aff:' + repr(G.to_affine([int(c) for c in o.split(',')])))
                    except Exception:  # noqa: BLE001
                        fixed.append(o)
                else:
                    fixed.append(o)
            out = fixed
        ctx.compare('secgroups exponent protocols vs model', impl, out, reqs)
    ctx.note('simulator wall seconds by cost class (sum over worker processes): ' +
             ', '.join(f'{k}={round(v, 1)}' for k, v in sorted(walls.items())))
    ctx.note('excluded by design: identity/equal/opposite operands for the Costello-Lauter secure group '
             '(documented restriction of HCDivisorCL), secure if_else / secret-base repeat for affine '
             'hyperelliptic groups (finding C28-hc-affine-if-else), Sym(n) with m >= n parties (finding '
             'C28-sym-degree-le-parties), secure-integer exponents with a public base '
             '(finding C28-pubbase-secint-exponent), negative secure-integer exponents with a secret base '
             '(finding C28-secbase-negative-exponent)')


def search(ctx):
    big = common.Ctx(ctx.property_id, 'thorough', ctx.seed + 1)
    run(big)
    ctx.violations.extend(v for v in big.violations if not v[1].get('finding_key'))
    ctx.evaluations += big.evaluations
