"""C26 — generated field primes meet their size, Blum and root-of-unity constraints.

Lean: model MpycV.Model.PrimeRoot (findPrimeRoot ≙ finfields.find_prime_root, pfield ≙ sectypes._pfield),
theorems MpycV.Props.C26 (relative to a correct primality oracle).
Here: (1) correspondence real code <-> model through Drv/NumTh.lean, twice: with the model's own Miller-Rabin
(`fpr`) and with the primality answers the real run obtained (`fpr_o`: isP x := x in {numbers gmpy.is_prime
accepted}), (2) independent oracle on the real results (sympy.isprime, order of w by exponentiation),
(3) the prime fields chosen by SecInt/SecFxp (`_pfield`) incl. explicit moduli and the party-count assert.
"""
import os
import signal
import sys
import types

HERE = os.path.dirname(os.path.dirname(os.path.abspath(__file__)))
if HERE not in sys.path:
    sys.path.insert(0, HERE)
import common  # noqa: E402
import repo_path  # noqa: E402,F401
os.environ['MPYC_NOGMPY'] = '1'
_argv = sys.argv
sys.argv = [sys.argv[0], '--no-log']
try:
    from mpyc import gmpy, finfields, sectypes  # noqa: E402
    from mpyc.runtime import mpc  # noqa: E402
finally:
    sys.argv = _argv
import numth_oracle as orc  # noqa: E402

LEVEL = 'proof'
LEAN_MODULES = ['MpycV.Props.C26']
LEAN_NAMESPACES = ['MpycV.C26']
REQUIRED_THEOREMS = ['find_prime_root_small', 'n_le_2', 'n_le_2_bits', 'n_gt_2', 'n_gt_2_arith', 'pfield_large',
                     'pfield_explicit', 'pfield_explicit_large', 'root_of_minus_one', 'small_roots']
RULE = ('find_prime_root(l, blum, n) for every l in -1..160 (thorough: ..600), n in {0,1,2,3,4,5,6,7,9,11,13,100,257}, '
        'blum on/off (error cases included); _pfield(l, f, p, n) for l in 1..128 (quick: a stride), f in {0, 3, l//2, l}, '
        'k in {0, 8, 30, 40}, n in {1,2,3,5}, (m, t) in {(1,0),(3,1),(7,3),(300,1)}, p = None and explicit p '
        '(largest prime below 2^L, a prime one bit too short, a composite, a prime not above m); public '
        'SecInt(l)/SecFxp(l, f) for l <= 128. A case is distinct by its argument tuple.')
EXPLANATION = ('Proved relative to a correct primality oracle: prime result, Blum congruence, p = 1 mod n, lower bound '
               'p > 2^(l-1), exact order of w, field headroom p > 2^(l+f+k+1) and p > m (threshold != 0), acceptance '
               'rule for explicit moduli. Not proved: existence of an l-bit Blum prime (Breusch) — it is a named '
               'hypothesis (BlumPrimeWithBits) of the "exactly l bits" clause for n <= 2 and is confirmed by this check '
               'for every l visited; termination of the p += 4n search (Dirichlet, no effective bound: fuel).')
ASSUMPTIONS = [
    'gmpy2.is_prime (the Miller-Rabin stub) answers correctly on the numbers it is asked about (error <= 4^-25 each); '
    'the fpr_o correspondence does not need this: it replays the answers obtained',
    'oracle primality: sympy.isprime',
    '_pfield is exercised with a stub runtime object (options.sec_param, threshold, parties) so that k, m, t can be '
    'varied; the public SecInt/SecFxp constructors are exercised with the real single-party runtime',
]
TRUSTED = ['harness/numth_oracle.py', 'sympy.isprime / sympy.factorint']

DRIVER = common.LeanDriver('NumTh')
FUEL = 200000
NS = [0, 1, 2, 3, 4, 5, 6, 7, 9, 11, 13, 100, 257]


class _IsPrimeRecorder:
    def __init__(self):
        self.orig = gmpy.is_prime
        self.trues = []

    def __call__(self, x, n=25):
        r = self.orig(x, n)
        if r:
            self.trues.append(int(x))
        return r


CALL_TIMEOUT = 120.0   # seconds per call of the code under test


class Hang(Exception):
    pass


def _on_alarm(_signum, _frame):
    raise TimeoutError('call of the code under test did not terminate in time')


def _timer(on):
    signal.signal(signal.SIGALRM, _on_alarm)
    signal.setitimer(signal.ITIMER_REAL, CALL_TIMEOUT if on else 0)


def call_fpr(l, blum, n):
    rec = _IsPrimeRecorder()
    gmpy.is_prime = rec
    try:
        try:
            _timer(True)
            r = finfields.find_prime_root(l, blum, n)
            out = ('ok', tuple(int(v) for v in r))
        except Exception as exc:
            out = ('err', type(exc).__name__)
        finally:
            _timer(False)
    finally:
        gmpy.is_prime = rec.orig
    return out, sorted(set(rec.trues))


def canon(out):
    return out[1] if out[0] == 'err' else ' '.join(str(v) for v in out[1]) if isinstance(out[1], tuple) else str(out[1])


def check_fpr(l, blum, n, out):
    """property oracle for one find_prime_root result; returns message or None"""
    if out[0] == 'err':
        # the property does not promise results for: non-Blum with n > 1 (asserts)
        if out[1] == 'AssertionError' and not blum and (n > 2 or (l <= 2 and n != 1)):
            return None
        return f'unexpected {out[1]}'
    p, n2, w = out[1]
    if not orc.is_prime(p):
        return f'p = {p} is not prime'
    bl = p.bit_length()
    if bl < l:
        return f'bit length {bl} < l'
    if n <= 2 and l >= 2 and bl != l:
        return f'n <= 2: bit length {bl} != l'
    if l < 2 and bl != 2:
        return f'l < 2: bit length {bl} != 2'
    if blum and p % 4 != 3:
        return 'Blum requested but p % 4 != 3'
    if not 0 < w < p:
        return 'w not in (0, p)'
    if n2 < 1 and n >= 1:
        return f'returned n = {n2}'
    if l >= 3:
        if n >= 1 and n2 < n:
            return f'returned n = {n2} < requested {n}'
        if n > 2:
            if not orc.is_prime(n2) or any(orc.is_prime(q) for q in range(n, n2)):
                return f'returned n = {n2} is not the least prime >= {n}'
            if p % n2 != 1:
                return 'p % n != 1'
        elif n >= 1 and n2 != n:
            return f'returned n = {n2} != {n}'
    if n2 >= 1 and not orc.order_mod(w, p, n2):
        return f'w = {w} does not have order {n2} modulo p'
    return None


class _StubRuntime:
    def __init__(self, k, m, t):
        self.options = types.SimpleNamespace(sec_param=k)
        self.threshold = t
        self.parties = [None] * m


def call_pfield(l, f, k, p, n, m, t):
    saved = sectypes.runtime
    sectypes.runtime = _StubRuntime(k, m, t)
    try:
        try:
            _timer(True)
            fld = sectypes._pfield(l, f, p, n)
            out = ('ok', int(fld.modulus))
        except Exception as exc:
            out = ('err', type(exc).__name__)
        finally:
            _timer(False)
    finally:
        sectypes.runtime = saved
    return out


def check_pfield(l, f, k, p, n, m, t, out):
    L1 = l + f + k + 1
    if p is None:
        if out[0] == 'err':
            if out[1] == 'AssertionError' and t > 0 and n <= 2:
                # legitimate only if the field that would be chosen (largest Blum prime below 2^L) is <= m
                L = L1 + 1
                c = 3 if L <= 2 else (1 << L) - 1
                while not orc.is_prime(c):
                    c -= 4
                return None if m >= c else f'assert fired although the field {c} exceeds m = {m}'
            return f'unexpected {out[1]}'
        q = out[1]
    else:
        too_small = p.bit_length() <= L1
        prime = orc.is_prime(p)
        if too_small or not prime:
            return None if out == ('err', 'ValueError') else f'expected ValueError (too small: {too_small}, prime: {prime})'
        if t > 0 and m >= p:
            return None if out == ('err', 'AssertionError') else 'expected AssertionError (m >= p, threshold > 0)'
        if out != ('ok', p):
            return f'explicit prime of sufficient size not accepted: {out}'
        q = p
    if not orc.is_prime(q):
        return f'field modulus {q} is not prime'
    if not q > 2 ** L1:
        return f'field modulus {q} not larger than 2^(l+f+k+1)'
    if t > 0 and not q > m:
        return f'field modulus {q} not larger than the number of parties {m}'
    return None


def run(ctx):
    lines, impl, meta = [], [], []
    lmax = ctx.scale(160, 600)
    notes_small = 0
    for l in list(range(-1, lmax + 1)):
        for n in NS:
            if l > 160 and (l + n) % 5:        # thorough: a stride above 160 bits
                continue
            for blum in (True, False):
                out, trues = call_fpr(l, blum, n)
                ctx.case(('fpr', l, blum, n))
                ctx.count('fpr/' + ('err' if out[0] == 'err' else ('small' if l <= 2 else ('n<=2' if n <= 2 else 'n>2'))))
                msg = check_fpr(l, blum, n, out)
                if msg:
                    ctx.violation(f'find_prime_root({l}, {blum}, {n}) -> {canon(out)}: {msg}',
                                  {'function': 'find_prime_root', 'args': [l, blum, n], 'observed': canon(out),
                                   'expected': msg})
                if out == ('err', 'TimeoutError'):
                    ctx.note('aborted: find_prime_root does not terminate')
                    return
                if l <= 2 and blum and n > 2:
                    notes_small += 1
                b = 1 if blum else 0
                tr = ','.join(map(str, trues)) if trues else '-'
                if not msg:
                    # replay of the primality answers: only for outcomes the oracle accepted (with a wrong outcome the
                    # model may search astronomically long for a number the real run never asked about)
                    lines.append(f'fpr_o {FUEL} {l} {b} {n} {tr}')
                    impl.append(canon(out))
                    meta.append(('fpr_o', l, blum, n))
                if l <= 96 or (l % 16 == 0 and n in (2, 3, 257)):
                    lines.append(f'fpr {FUEL} {l} {b} {n}')
                    impl.append(canon(out))
                    meta.append(('fpr', l, blum, n))
    ctx.sample({'find_prime_root': [64, True, 257], 'result': canon(call_fpr(64, True, 257)[0])})
    if notes_small:
        ctx.note(f'observation (not a violation): for l <= 2 with blum the requested n > 2 is ignored, '
                 f'find_prime_root(2, n=3) = (3, 2, 2); the returned triple is consistent (w has order 2 = returned n); '
                 f'{notes_small} such cases seen')

    # secure-type field choice
    ls = list(range(1, 129)) if ctx.thorough else [1, 2, 3, 4, 5, 7, 8, 13, 16, 24, 31, 32, 33, 48, 63, 64, 65, 96, 127, 128]
    for l in ls:
        for f in sorted({0, 3, l // 2, l}):
            for k in (0, 8, 30, 40):
                L = l + f + k + 2
                big = int(gmpy.prev_prime(1 << L))
                short = int(gmpy.prev_prime(1 << (L - 1))) if L - 1 >= 2 else 2
                for (m, t) in ((1, 0), (3, 1), (7, 3), (300, 1)):
                    plist = [None]
                    if (l + f + k) % 3 == 0 or ctx.thorough:
                        plist += [big, short, big + 2 if not orc.is_prime(big + 2) else big + 4, 7, 257]
                    for p in plist:
                        for n in ((1, 2, 3, 5) if p is None and t == 0 else (2,)):
                            out = call_pfield(l, f, k, p, n, m, t)
                            ctx.case(('pfield', l, f, k, p, n, m, t))
                            ctx.count('pfield/' + ('err-' + out[1] if out[0] == 'err' else ('explicit' if p else 'generated')))
                            msg = check_pfield(l, f, k, p, n, m, t, out)
                            if msg:
                                ctx.violation(f'_pfield(l={l}, f={f}, p={p}, n={n}) with k={k}, m={m}, t={t} -> {canon(out)}: {msg}',
                                              {'function': '_pfield', 'args': [l, f, k, p, n, m, t],
                                               'observed': canon(out), 'expected': msg})
                            if out == ('err', 'TimeoutError'):
                                ctx.note('aborted: _pfield does not terminate')
                                return
                            lines.append(f'pfield {FUEL} {l} {f} {k} {"None" if p is None else p} {n} {m} {t}')
                            impl.append(canon(out))
                            meta.append(('pfield', l, f, k, p, n, m, t))
    # public constructors with the real runtime (m = 1, threshold 0, default sec_param)
    k = mpc.options.sec_param
    for l in ([8, 16, 32, 64, 128] if not ctx.thorough else range(1, 129, 3)):
        for f in (None, 0, l // 2, l):
            try:
                typ = mpc.SecInt(l) if f is None else mpc.SecFxp(l, f)
                q = int(typ.field.modulus)
                out = ('ok', q)
            except Exception as exc:
                out = ('err', type(exc).__name__)
            ctx.case(('sectype', l, f))
            ctx.count('sectype')
            ff = 0 if f is None else f
            msg = check_pfield(l, ff, k, None, 2, 1, 0, out)
            if msg is None and out[0] == 'ok' and out[1].bit_length() != l + ff + k + 2:
                msg = f'modulus has {out[1].bit_length()} bits, expected l+f+k+2'
            if msg:
                ctx.violation(f'{"SecInt" if f is None else "SecFxp"}({l}, {f}) field {canon(out)}: {msg}',
                              {'function': 'SecInt' if f is None else 'SecFxp', 'args': [l, f], 'observed': canon(out),
                               'expected': msg})
    ctx.sample({'SecInt(32).field.modulus': int(mpc.SecInt(32).field.modulus), 'sec_param': k})
    try:
        model = DRIVER.run(lines, timeout=900) if len(lines) < 30000 else _run_chunks(lines, 4)
    except common.InfraError as exc:
        ctx.mismatch(f'Lean driver did not answer in time ({exc}): the model searches much longer than the code did',
                     {'kind': 'correspondence', 'what': 'driver timeout', 'lines': len(lines)})
        return
    ctx.compare('finfields.find_prime_root / sectypes._pfield vs Lean PrimeRoot model', impl, model, meta)


def _run_chunks(lines, nchunks=8):
    from concurrent.futures import ThreadPoolExecutor
    size = (len(lines) + nchunks - 1) // nchunks
    chunks = [lines[i:i + size] for i in range(0, len(lines), size)]
    with ThreadPoolExecutor(len(chunks)) as ex:
        outs = list(ex.map(DRIVER.run, chunks))
    res = []
    for o in outs:
        if isinstance(o, common.DriverFailure):
            return o
        res.extend(o)
    return res


def search(ctx):
    ctx.tier = 'thorough'
    saved_compare = ctx.compare
    ctx.compare = lambda *a, **kw: True       # oracle only
    global DRIVER
    drv = DRIVER
    DRIVER = types.SimpleNamespace(run=lambda lines: [])
    try:
        run(ctx)
    finally:
        DRIVER = drv
        ctx.compare = saved_compare


def replay(ctx, data):
    fn = data['function']
    a = data['args']
    conv = lambda v: None if v is None else (v if isinstance(v, bool) else int(v))  # noqa: E731
    a = [conv(v) for v in a]
    if fn == 'find_prime_root':
        out, _ = call_fpr(a[0], bool(a[1]), a[2])
        msg = check_fpr(a[0], bool(a[1]), a[2], out)
    elif fn == '_pfield':
        out = call_pfield(*a)
        msg = check_pfield(*a, out)
    else:
        l, f = a
        try:
            typ = mpc.SecInt(l) if fn == 'SecInt' else mpc.SecFxp(l, f)
            out = ('ok', int(typ.field.modulus))
        except Exception as exc:
            out = ('err', type(exc).__name__)
        msg = check_pfield(l, f or 0, mpc.options.sec_param, None, 2, 1, 0, out)
    if msg is None:
        return True, f'{fn}{tuple(a)} -> {canon(out)} accepted by the oracle'
    return False, f'{fn}{tuple(a)} -> {canon(out)}: {msg}'
