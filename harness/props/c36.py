"""C36 — a crashed or disconnected party never makes others output wrong values.

Model: lean/MpycV/Model/Frame.lean; theorems MpycV.C36: prefix_frames_crash, delivered_mem,
prefix_frames_chunked, tally_needs_all (for any prefix of a sender's byte stream, cut at ANY byte and
chunked arbitrarily, the peer delivers a prefix of the frames sent with exact payloads; gather completes
only when all awaited shares arrived).  The value computed from complete, label-matched payloads is
correct by C11/C12.
Tie / fault enumeration on the real code: in the simulator one party is stopped after it has written
exactly K bytes in total, for K at every frame boundary and +-1, +-12 bytes around it (thorough: EVERY byte),
with and without EOF reaching the peers, under several delivery schedules; every output COMPLETED by a
surviving party (logged at completion) must equal the value of the crash-free reference run; outputs that
never complete, and exceptions raised by the loss of the connection, are allowed.  The truncated byte
streams actually delivered are also replayed through the Lean frame parser (same frames as the real one).
"""
import os
import sys
sys.path.insert(0, os.path.dirname(os.path.dirname(os.path.abspath(__file__))))
import simnet
from simnet import SimNet, Scheduler, Deadlock, PartyError, parse_frames
import common

LEVEL = 'proof'
LEAN_MODULES = ['MpycV.Props.C36']
LEAN_NAMESPACES = ['MpycV.C36']
REQUIRED_THEOREMS = ['prefix_frames_crash', 'delivered_mem', 'prefix_frames_chunked', 'tally_needs_all']
RULE = ('case = (program, m, t, PRSS on/off, victim party, crash point K = total bytes the victim manages to write, '
        'EOF delivered or not, schedule seed); crash points: every frame boundary of the victim\'s traffic and '
        '-12,-1,+1,+12 bytes around it (thorough: every byte); distinct = distinct case tuples; non-trivial = the victim '
        'stops strictly inside the run (some survivor output is never completed or completes after the crash)')
ASSUMPTIONS = ['a stopped party never runs again; bytes it already wrote may still be delivered (or not, both explored)',
               'values recombined from complete shares are correct: properties C11/C12']


def progs():
    async def product(mpc, log):
        secint = mpc.SecInt(16)
        x = mpc.input(secint(3 + mpc.pid))
        p = mpc.prod(x)
        log(await mpc.output(p))
        s = mpc.sum(x) * x[0]
        log(await mpc.output(s))
        log(await mpc.output(x[-1] * x[-1] - 1, receivers=[0, len(mpc.parties) - 1]))

    async def compare(mpc, log):
        secint = mpc.SecInt(8)
        x = mpc.input(secint(5 * mpc.pid - 4))
        log(await mpc.output(x[0] < x[-1]))
        log(await mpc.output(mpc.max(x)))
        log(await mpc.output(x[1] % 3))

    async def transfer(mpc, log):
        m = len(mpc.parties)
        log(await mpc.transfer(('payload', mpc.pid, b'x' * 40)))
        secfld = mpc.SecFld(101)
        a = mpc.input(secfld(7 + mpc.pid), senders=m - 1)
        log(int(await mpc.output(a * a + 1)))
        log(await mpc.transfer(mpc.pid * 11, senders=[0, m - 1], receivers=[1]))

    async def fxp(mpc, log):
        secfxp = mpc.SecFxp(16, 8)
        x = mpc.input(secfxp(1.5 + mpc.pid))
        log(await mpc.output(x[0] * x[-1]))        # exact: products of multiples of 1/2
        log(await mpc.output(mpc.in_prod(x, x)))

    return {'product': product, 'compare': compare, 'transfer': transfer, 'fxp': fxp}


def run_case(name, m, t, no_prss, seed, mode, crash=None, want_net=False):
    body = progs()[name]
    net = SimNet(m, t, no_prss=no_prss, seed=seed, sched=Scheduler(seed, mode), max_steps=600000)
    net.crash = crash

    async def prog(mpc):
        await body(mpc, net.outlog[mpc.pid].append)
        return True
    status = 'ok'
    try:
        net.run(prog)
    except Deadlock:
        status = 'pending'
    except PartyError as exc:
        status = 'error:' + str(exc)[:200]
    return net, status


def frame_boundaries(net, victim):
    """cumulative byte positions (over all of the victim's channels, in write order) of frame ends"""
    # total order of the victim's writes is not kept per channel; approximate by per-channel boundaries
    # mapped through the global write log
    return net._victim_marks


def crash_points(total, marks, thorough):
    pts = set()
    if thorough:
        return list(range(0, total + 1))
    for b in marks:
        for d in (-12, -1, 0, 1, 12):
            if 0 <= b + d <= total:
                pts.add(b + d)
    pts.update((0, 1, 2, total))
    return sorted(pts)


def reference(name, m, t, no_prss, seed, mode, victim):
    """crash-free run; also records the cumulative byte marks after each write of the victim"""
    body = progs()[name]
    net = SimNet(m, t, no_prss=no_prss, seed=seed, sched=Scheduler(seed, mode), max_steps=600000)
    marks = []
    tot = [0]

    def on_write(a, b, data):
        if a == victim:
            tot[0] += len(data)
            marks.append(tot[0])
    net.on_write = on_write

    async def prog(mpc):
        await body(mpc, net.outlog[mpc.pid].append)
        return True
    try:
        net.run(prog)
    except (Deadlock, PartyError) as exc:
        return None, str(exc)[:300], 0
    return [list(l_) for l_ in net.outlog], marks, tot[0]


def same(a, b):
    if isinstance(a, float) or isinstance(b, float):
        return abs(a - b) < 1e-9
    return a == b


def check_case(name, m, t, no_prss, seed, mode, victim, K, eof, ref):
    net, status = run_case(name, m, t, no_prss, seed, mode, crash=(victim, K, eof))
    for p in range(m):
        if p == victim:
            continue
        got = net.outlog[p]
        for k, v in enumerate(got):
            if k >= len(ref[p]) or not same(v, ref[p][k]):
                exp = ref[p][k] if k < len(ref[p]) else None
                return net, status, (f'party {p} completed output #{k} = {v!r}, crash-free value {exp!r} '
                                     f'(victim {victim} stopped after {K} bytes, eof={eof})')
    return net, status, None


def _unit(a):
    """all crash points of one (configuration, program, victim): runs in a worker process"""
    import random
    name, m, t, no_prss, victim, seed, mode, thorough, max_lines, sub = a
    rng = random.Random(sub)
    out = {'args': a, 'cases': [], 'counts': {}, 'violation': None, 'mismatch': None, 'lines': [], 'exps': [], 'metas': [],
           'sample': None}

    def count(k):
        out['counts'][k] = out['counts'].get(k, 0) + 1
    ref, marks, total = reference(name, m, t, no_prss, seed, mode, victim)
    if ref is None:
        out['mismatch'] = (f'crash-free reference run of {name} (m={m}, t={t}) does not complete: {marks}',
                           {'kind': 'reference', 'program': name, 'm': m, 't': t, 'no_prss': no_prss, 'seed': seed, 'mode': mode})
        return out
    pts = crash_points(total, marks, thorough and m <= 3)
    if not thorough and len(pts) > 60:
        pts = sorted(rng.sample(pts, 60))
    for K in pts:
        for eof in ((True, False) if (K % 3 == 0 or thorough) else (True,)):
            net, status, msg = check_case(name, m, t, no_prss, seed, mode, victim, K, eof, ref)
            inside = 0 < K < total
            out['cases'].append(((name, m, t, no_prss, seed, victim, K, eof), inside and status != 'ok'))
            count('program:' + name)
            count('status:' + status.split(':')[0])
            count('where:' + ('boundary' if K in marks else 'inside-frame'))
            if msg:
                out['violation'] = ('C36: ' + msg, {'kind': 'crash', 'program': name, 'm': m, 't': t, 'no_prss': no_prss,
                                                    'seed': seed, 'mode': mode, 'victim': victim, 'K': K, 'eof': eof})
                return out
            # replay the truncated streams the victim's peers actually received through the Lean parser
            if len(out['lines']) < max_lines and (K in marks or (K + 1) in marks or (K - 1) in marks):
                for j in range(m):
                    if j == victim or (victim, j) not in net.wire:
                        continue
                    stream = bytes(net.wire[(victim, j)])
                    if not stream or len(stream) > 6000:
                        continue
                    hs_len = 0
                    role = f'client:{victim}'
                    np_, kb = (1 if no_prss else 0), 0
                    if victim < j:
                        kb = 0 if no_prss else 16 * len(net.rts[victim]._prss_keys_to_peer(j))
                        hs_len = 2 + kb
                        role = 'server'
                    if len(stream) < hs_len:
                        continue
                    hs, frames, rest = parse_frames(stream, hs_len)
                    out['lines'].append(f'run {role} {np_} 0 {kb} f:{stream.hex()}')
                    evs = []
                    if role == 'server':
                        evs.append(f'H:{victim}:{hs[2:].hex() if len(hs) > 2 else "-"}')
                    evs += [f'S:{pc}:{pl.hex() if pl else "-"}' for pc, pl in frames]
                    out['exps'].append(';'.join(evs) + f'|buf={rest.hex() if rest else "-"}|peer={victim}|buffers=' +
                                       ','.join(f'{pc}=P{pl.hex() if pl else "-"}' for pc, pl in sorted(frames)))
                    out['metas'].append(f'{name} m={m} victim={victim} K={K} to {j}')
    out['sample'] = {'program': name, 'm': m, 't': t, 'victim': victim, 'total_bytes': total, 'crash_points': len(pts),
                     'reference_outputs_party0': ref[0]}
    return out


def run(ctx):
    import multiprocessing as mp
    rng = ctx.rng
    lines, exps, metas = [], [], []
    cfgs = [(3, 1, False), (3, 1, True), (5, 2, False)] if not ctx.thorough else \
        [(3, 1, False), (3, 1, True), (5, 2, False), (5, 2, True), (4, 1, False)]
    units = []
    for (m, t, no_prss) in cfgs:
        for name in progs():
            for victim in ([0, m - 1] if not ctx.thorough else range(m)):
                seed = rng.randrange(10**9)
                mode = rng.choice(['random', 'lazynet', 'eagernet'])
                units.append((name, m, t, no_prss, victim, seed, mode, ctx.thorough, ctx.scale(20, 60), rng.randrange(10**9)))
    with mp.get_context('fork').Pool(min(4, len(units))) as pool:      # shared machine: at most 4 workers
        results = pool.map(_unit, units, chunksize=1)
    for out in results:
        for key, nontriv in out['cases']:
            ctx.case(key, nontrivial=nontriv)
        for k, v in out['counts'].items():
            ctx.count(k, v)
        if out['mismatch']:
            ctx.mismatch(*out['mismatch'])
            continue
        if out['violation']:
            ctx.violation(*out['violation'])
            break
        if len(lines) < ctx.scale(400, 3000):
            lines += out['lines']
            exps += out['exps']
            metas += out['metas']
        if out['sample'] and len(ctx.samples) < 3:
            ctx.sample(out['sample'])
    model = common.LeanDriver('Frame').run(lines)
    ctx.compare('truncated streams (independent parser vs MpycV.Frame)', exps, model, metas)


def search(ctx):
    rng = ctx.subrng('search')
    names = list(progs())
    for k in range(ctx.scale(3000, 20000)):
        m, t, no_prss = rng.choice([(3, 1, False), (3, 1, True), (5, 2, False), (4, 1, False)])
        name = names[k % len(names)]
        victim = rng.randrange(m)
        seed = rng.randrange(10**9)
        mode = rng.choice(['random', 'lazynet', 'eagernet', 'starve'])
        ref, marks, total = reference(name, m, t, no_prss, seed, 'fifo' if k % 2 else mode, victim)
        if ref is None:
            continue
        mode = 'fifo' if k % 2 else mode
        K = rng.randrange(0, total + 1)
        eof = rng.random() < 0.5
        net, status, msg = check_case(name, m, t, no_prss, seed, mode, victim, K, eof, ref)
        if msg:
            ctx.violation('C36: ' + msg, {'kind': 'crash', 'program': name, 'm': m, 't': t, 'no_prss': no_prss,
                                          'seed': seed, 'mode': mode, 'victim': victim, 'K': K, 'eof': eof})
            return


def replay(ctx, data):
    ref, marks, total = reference(data['program'], data['m'], data['t'], data['no_prss'], data['seed'], data['mode'],
                                  data['victim'])
    if ref is None:
        return False, 'crash-free reference run does not complete: ' + str(marks)
    net, status, msg = check_case(data['program'], data['m'], data['t'], data['no_prss'], data['seed'], data['mode'],
                                  data['victim'], data['K'], data['eof'], ref)
    return msg is None, msg or 'ok'
